#!/usr/bin/env python3
"""Evaluate seeded breakages (see DESIGN.md, 'Seeded changes').

  tools/seeded.py verify <dir>            confirm patch/demo/tests in a scratch worktree
  tools/seeded.py run <dir> C01[,C07] [quick|thorough] [seed]
                                          apply to /repo, run checks, undo
Results are merged into <dir>/meta.json."""
import json
import os
import re
import subprocess
import sys
import time

REPO = "/repo"
VERIF = os.path.dirname(os.path.dirname(os.path.abspath(__file__)))
TESTS = ["/venv/bin/python", "-m", "pytest", "-q", "-p", "no:cacheprovider",
         "--timeout=900", "test/test_pytato.py", "test/test_linalg.py"]


def sh(cmd, **kw):
    return subprocess.run(cmd, capture_output=True, text=True, **kw)


def load_meta(d):
    p = os.path.join(d, "meta.json")
    return json.load(open(p)) if os.path.exists(p) else {}


def save_meta(d, m):
    with open(os.path.join(d, "meta.json"), "w") as f:
        json.dump(m, f, indent=1, sort_keys=True)
        f.write("\n")


def verify(d):
    d = os.path.abspath(d)
    wt = f"/tmp/seedverify-{os.getpid()}"
    sh(["git", "-C", REPO, "worktree", "add", "--detach", wt, "HEAD"])
    res = {}
    try:
        env = dict(os.environ, PYTHONPATH=wt, PYTHONHASHSEED="0")
        demo = os.path.join(d, "demo.py")
        r0 = sh(["/venv/bin/python", demo], cwd="/tmp", env=env)
        res["demo_unpatched_exit"] = r0.returncode
        a = sh(["git", "-C", wt, "apply", os.path.join(d, "patch.diff")])
        res["applies"] = a.returncode == 0
        if a.returncode != 0:
            res["apply_error"] = a.stderr[-300:]
        r1 = sh(["/venv/bin/python", demo], cwd="/tmp", env=env)
        res["demo_patched_exit"] = r1.returncode
        res["demo_patched_line"] = next(
            (ln for ln in r1.stdout.splitlines() if ln.startswith("BROKEN")),
            r1.stdout[-200:] + r1.stderr[-200:])[:300]
        t = sh(TESTS, cwd=wt, env=env)
        tail = t.stdout.strip().splitlines()[-1] if t.stdout.strip() else ""
        res["tests_tail"] = tail
        failed = sorted(re.findall(r"FAILED (\S+)", t.stdout))
        res["tests_failed"] = failed
        res["tests_ok"] = bool(re.search(r"\b2 failed, 80 passed", tail)) and all(
            any(k in f for k in ("test_call_loopy_shape_inference",
                                 "test_large_dag_with_duplicates_count"))
            for f in failed)
        res["confirmed"] = bool(res["applies"] and res["tests_ok"]
                                and res["demo_unpatched_exit"] == 0
                                and res["demo_patched_exit"] == 1)
    finally:
        sh(["git", "-C", REPO, "worktree", "remove", "--force", wt])
    m = load_meta(d)
    m["verification"] = res
    save_meta(d, m)
    print(json.dumps(res, indent=1))
    return res["confirmed"]


def run(d, props, tier="quick", seed="1"):
    d = os.path.abspath(d)
    st = sh(["git", "-C", REPO, "status", "--porcelain"])
    if st.stdout.strip():
        sys.exit("refusing: /repo is not clean:\n" + st.stdout)
    a = sh(["git", "-C", REPO, "apply", os.path.join(d, "patch.diff")])
    if a.returncode != 0:
        sys.exit("patch does not apply to /repo: " + a.stderr)
    out = {}
    try:
        for p in props:
            t0 = time.time()
            env = dict(os.environ, VERIF_SEED=str(seed))
            r = sh([os.path.join(VERIF, "check"), p, "--tier", tier], cwd=VERIF,
                   env=env)
            lines = r.stdout.splitlines()
            fails = [ln.strip() for ln in lines if ln.strip().startswith("failure:")]
            out[p] = {"tier": tier, "seed": int(seed), "exit": r.returncode,
                      "violations": sum(1 for ln in lines
                                        if ln.startswith("VIOLATION")),
                      "first_failure": (fails[0][:400] if fails else ""),
                      "wall_s": round(time.time() - t0, 1)}
            if r.returncode not in (0, 1):
                out[p]["stderr"] = (r.stdout[-400:] + r.stderr[-400:])
            print(p, json.dumps(out[p]))
    finally:
        sh(["git", "-C", REPO, "apply", "-R", os.path.join(d, "patch.diff")])
        sh(["git", "-C", REPO, "checkout", "--", "."])
        st = sh(["git", "-C", REPO, "status", "--porcelain"])
        if st.stdout.strip():
            print("WARNING: /repo not clean after undo:\n" + st.stdout)
    m = load_meta(d)
    runs = m.setdefault("check_runs", [])
    for p, v in out.items():
        runs.append(dict(v, check=p))
    m["caught_by"] = sorted({r["check"] for r in runs if r["exit"] == 1})
    save_meta(d, m)


if __name__ == "__main__":
    if sys.argv[1] == "verify":
        sys.exit(0 if verify(sys.argv[2]) else 1)
    elif sys.argv[1] == "run":
        run(sys.argv[2], sys.argv[3].split(","), *(sys.argv[4:6]))
