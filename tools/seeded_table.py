#!/usr/bin/env python3
"""Regenerate the seeded-change table of DESIGN.md (section 10.5) from
seeded/*/meta.json."""
import glob
import json
import os
import re

VERIF = os.path.dirname(os.path.dirname(os.path.abspath(__file__)))
BEGIN = "<!-- seeded-table:begin -->"
END = "<!-- seeded-table:end -->"


def main():
    rows = []
    for mp in sorted(glob.glob(os.path.join(VERIF, "seeded", "*", "meta.json"))):
        m = json.load(open(mp))
        sid = os.path.basename(os.path.dirname(mp))
        runs = m.get("check_runs", [])
        caught = []
        missed = []
        for chk in sorted({r["check"] for r in runs}):
            rs = [r for r in runs if r["check"] == chk]
            # the LATEST run of each tier is what the machinery does now
            last = {}
            for r in rs:
                last[r["tier"]] = r
            if last.get("quick", {}).get("exit") == 1:
                caught.append(f"{chk} (quick)")
            elif last.get("thorough", {}).get("exit") == 1:
                caught.append(f"{chk} (thorough)")
            else:
                missed.append(chk)
        desc = re.sub(r"\s+", " ", m.get("description", ""))[:150].replace("|", "/")
        note = re.sub(r"\s+", " ", m.get("note", "")).replace("|", "/")
        rows.append(f"| {sid} | {desc} | {', '.join(caught) or '-'} | "
                    f"{', '.join(missed) or '-'} | {note} |")
    table = "\n".join([BEGIN,
                       "| change | what it does | caught by | run, not caught | note |",
                       "|---|---|---|---|---|", *rows, END])
    p = os.path.join(VERIF, "DESIGN.md")
    s = open(p).read()
    if BEGIN in s:
        s = s[:s.index(BEGIN)] + table + s[s.index(END) + len(END):]
    else:
        s = s.replace("SEEDED_TABLE_PLACEHOLDER", table)
    open(p, "w").write(s)
    print(f"{len(rows)} rows")


if __name__ == "__main__":
    main()
