#!/bin/bash
# tools/seeded_ingest.sh C03 [round] [extra checks, comma separated]
# copy the sub-agent's deliveries from /tmp/seed<round>-<id>/seeded/<k>
# (round 1: /tmp/seed-<id>, kept as <id>-1..3; round 2: /tmp/seed2-<id>, kept
# as <id>-4..6), confirm them, run the property's check (quick, then
# thorough if quick misses).
set -u
pid=$1
round=${2:-1}
extra=${3:-}
cd /verif
if [ "$round" = "1" ]; then srcdir=/tmp/seed-$pid; off=0; else srcdir=/tmp/seed$round-$pid; off=$(( (round-1)*3 )); fi
for k in 1 2 3; do
  src=$srcdir/seeded/$k
  [ -d "$src" ] || continue
  id=$pid-$((k+off))
  dst=seeded/$id
  mkdir -p $dst
  cp $src/patch.diff $src/demo.py $src/meta.json $dst/ 2>/dev/null
  echo "== $dst"
  if python3 tools/seeded.py verify $dst > /tmp/seedverify-$id.log 2>&1; then
    echo "confirmed"
  else
    echo "NOT CONFIRMED"; tail -15 /tmp/seedverify-$id.log
    continue
  fi
  checks=$pid${extra:+,$extra}
  python3 tools/seeded.py run $dst $checks quick 1
  if ! python3 - "$dst" "$pid" <<'PY'
import json,sys
m=json.load(open(sys.argv[1]+"/meta.json"))
sys.exit(0 if sys.argv[2] in m.get("caught_by",[]) else 1)
PY
  then
    python3 tools/seeded.py run $dst $pid thorough 1
  fi
done
git -C /repo status --short | head -3
