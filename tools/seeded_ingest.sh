#!/bin/bash
# tools/seeded_ingest.sh C03 [extra checks, comma separated]
# copy the sub-agent's deliveries from /tmp/seed-<id>/seeded/<k>, confirm
# them, run the property's check (quick, then thorough if quick misses).
set -u
pid=$1
extra=${2:-}
cd /verif
for k in 1 2 3; do
  src=/tmp/seed-$pid/seeded/$k
  [ -d "$src" ] || continue
  dst=seeded/$pid-$k
  mkdir -p $dst
  cp $src/patch.diff $src/demo.py $src/meta.json $dst/ 2>/dev/null
  echo "== $dst"
  if python3 tools/seeded.py verify $dst > /tmp/seedverify-$pid-$k.log 2>&1; then
    echo "confirmed"
  else
    echo "NOT CONFIRMED"; cat /tmp/seedverify-$pid-$k.log | tail -15
    continue
  fi
  checks=$pid${extra:+,$extra}
  python3 tools/seeded.py run $dst $checks quick 1
  if ! python3 - "$dst" "$pid" <<'PY'
import json,sys
m=json.load(open(sys.argv[1]+"/meta.json"))
sys.exit(0 if sys.argv[2] in m.get("caught_by",[]) else 1)
PY
  then
    python3 tools/seeded.py run $dst $pid thorough 1
  fi
done
git -C /repo status --short | head -3
