#!/bin/bash
# Offline setup: make sure hypothesis imports in /venv, byte-compile nothing
# (checks run with PYTHONDONTWRITEBYTECODE), verify gcc.
set -e
cd "$(dirname "${BASH_SOURCE[0]}")"
if ! /venv/bin/python -c "import hypothesis" 2>/dev/null; then
  PIP_NO_INDEX=1 /venv/bin/pip install --no-index --find-links /opt/veriftools/wheels hypothesis
fi
/venv/bin/python -c "import hypothesis, numpy, loopy, pytato; print('hypothesis', hypothesis.__version__)"
gcc --version | head -1
mkdir -p evidence
echo setup-ok
