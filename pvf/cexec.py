"""Execute loopy kernels produced by pytato through loopy's C target + gcc.

Nothing here changes the kernel pytato produced: the translation unit held by
the BoundProgram is handed to ``lp.generate_code_v2`` unchanged, the C text is
compiled with gcc and the entry point is called through ctypes by an own
launcher (loopy's C invoker cannot allocate global temporaries, mishandles
zero-size arrays and callee kernels; see DESIGN.md 4.3).

Every buffer handed to the kernel lives inside a larger block with red zones on
both sides; a damaged red zone or a modified input is reported as
:class:`MemoryViolation`.
"""
from __future__ import annotations

import ctypes
import hashlib
import os
import re
import subprocess
import tempfile
from dataclasses import dataclass
from typing import Any

import numpy as np

import loopy as lp
from pytato.target import BoundProgram
from pytato.target.loopy import LoopyTarget


class HarnessError(Exception):
    """Something outside the code under test went wrong (gcc missing, ...)."""


class CodegenFailure(Exception):
    """loopy/gcc refused a kernel produced by pytato."""


class MemoryViolation(Exception):
    """The compiled kernel wrote outside a buffer or into an input."""


def _limits_symbol_mangler(kernel, name):
    # The same table loopy's OpenCL target has; its plain C target only knows
    # NAN / INT_MIN / INT_MAX, so float and int64 max/min reductions cannot
    # be type-inferred there.  All are <math.h>/<limits.h> macros in C99.
    from loopy.types import NumpyType
    if name == "HUGE_VAL":
        return NumpyType(np.dtype(np.float64)), name
    if name == "INFINITY":
        return NumpyType(np.dtype(np.float32)), name
    if name in ("LONG_MIN", "LONG_MAX"):
        return NumpyType(np.dtype(np.int64)), name
    if name in ("UINT_MAX",):
        return NumpyType(np.dtype(np.uint32)), name
    if name in ("ULONG_MAX",):
        return NumpyType(np.dtype(np.uint64)), name
    return None


from loopy.target.c import CASTBuilder as _CASTBuilder  # noqa: E402


class _PvfCASTBuilder(_CASTBuilder):
    def symbol_manglers(self):
        return [*super().symbol_manglers(), _limits_symbol_mangler]


class PvfCTarget(lp.ExecutableCTarget):
    """loopy's executable C target plus the limit macros (harness side)."""

    def get_device_ast_builder(self):
        return _PvfCASTBuilder(self)


_LP_TARGET = None


def loopy_c_target():
    global _LP_TARGET
    if _LP_TARGET is None:
        _LP_TARGET = PvfCTarget()
    return _LP_TARGET


class CTarget(LoopyTarget):
    """Public extension point: a loopy target that emits plain C."""

    def get_loopy_target(self):
        return loopy_c_target()

    def bind_program(self, program, bound_arguments):
        return BoundProgram(program=program, bound_arguments=bound_arguments,
                            target=self)


_TARGET = CTarget()


def c_target() -> CTarget:
    return _TARGET


_RZ = 256          # red zone bytes on each side
_PAT = 0xA5
RZ_FILL = _PAT     # red zone fill byte; C11 varies it between runs

_scratch_dir: tuple[int, str] | None = None
_lib_cache: dict[str, Any] = {}


def _scratch() -> str:
    """A private directory per *process* (workers are forked)."""
    global _scratch_dir
    pid = os.getpid()
    if (_scratch_dir is None or _scratch_dir[0] != pid
            or not os.path.isdir(_scratch_dir[1])):
        d = tempfile.mkdtemp(prefix=f"pvf-cexec-{pid}-")
        _scratch_dir = (pid, d)
        _lib_cache.clear()
        import atexit
        import shutil
        atexit.register(shutil.rmtree, d, ignore_errors=True)
    return _scratch_dir[1]


def _compile(src: str):
    d = _scratch()
    key = hashlib.sha256(src.encode()).hexdigest()[:24]
    lib = _lib_cache.get(key)
    if lib is not None:
        return lib
    cfile = os.path.join(d, f"k{key}.c")
    sofile = os.path.join(d, f"k{key}.so")
    with open(cfile, "w") as f:
        f.write(src)
    cmd = ["gcc", "-O0", "-std=gnu99", "-fPIC", "-shared", "-w",
           "-fno-fast-math", "-ffp-contract=off",
           "-include", "stdint.h", "-include", "stdbool.h",
           "-include", "limits.h", "-include", "math.h",
           "-include", "complex.h",
           "-o", sofile, cfile, "-lm"]
    try:
        p = subprocess.run(cmd, capture_output=True, text=True)
    except OSError as e:  # pragma: no cover
        raise HarnessError(f"cannot run gcc: {e}") from e
    if p.returncode != 0:
        if "No such file" in p.stderr or "fatal error" in p.stderr:
            raise HarnessError("gcc environment failure:\n" + p.stderr[:500])
        raise CodegenFailure("gcc rejected generated code:\n" + p.stderr[:2000])
    try:
        lib = ctypes.CDLL(sofile)
    except OSError as e:
        raise HarnessError(f"cannot load compiled kernel: {e}") from e
    # the mapping persists after unlink; keep the directory small
    try:
        os.unlink(cfile)
        os.unlink(sofile)
    except OSError:
        pass
    if len(_lib_cache) > 64:
        _lib_cache.clear()
    _lib_cache[key] = lib
    return lib


_CT = {
    np.dtype(np.int8): ctypes.c_int8, np.dtype(np.int16): ctypes.c_int16,
    np.dtype(np.int32): ctypes.c_int32, np.dtype(np.int64): ctypes.c_int64,
    np.dtype(np.uint8): ctypes.c_uint8, np.dtype(np.uint16): ctypes.c_uint16,
    np.dtype(np.uint32): ctypes.c_uint32, np.dtype(np.uint64): ctypes.c_uint64,
    np.dtype(np.float32): ctypes.c_float, np.dtype(np.float64): ctypes.c_double,
    np.dtype(np.bool_): ctypes.c_bool,
}


def _eval_shape(shape, params: dict[str, int]) -> tuple[int, ...]:
    from pymbolic.mapper.evaluator import evaluate
    res = []
    for s in shape:
        if isinstance(s, (int, np.integer)):
            res.append(int(s))
        else:
            res.append(int(evaluate(s, params)))
    return tuple(res)


@dataclass
class _Param:
    name: str
    is_ptr: bool
    ctype: str


class CKernel:
    """A compiled pytato kernel."""

    def __init__(self, bound_program: BoundProgram):
        self.bp = bound_program
        t_unit = bound_program.program
        self.t_unit = t_unit
        self.kernel = t_unit.default_entrypoint
        try:
            # (loopy prints the whole kernel to stdout before some errors)
            import contextlib
            import io
            with contextlib.redirect_stdout(io.StringIO()):
                cg = lp.generate_code_v2(t_unit)
            self.source = cg.device_code()
        except Exception as e:
            raise CodegenFailure(
                f"loopy code generation failed: {type(e).__name__}: {e}") from e
        self.entry = self.kernel.name
        m = re.search(r"\bvoid\s+" + re.escape(self.entry) + r"\s*\(([^)]*)\)",
                      self.source)
        if not m:
            raise HarnessError("cannot find entry point in generated C")
        self.params: list[_Param] = []
        plist = m.group(1).strip()
        if plist and plist != "void":
            for p in plist.split(","):
                p = p.strip()
                name = re.findall(r"[A-Za-z_][A-Za-z_0-9]*", p)[-1]
                self.params.append(_Param(name, "*" in p, p))
        # loopy's C target emits "static inline static int isnani32(...)" for
        # isnan of an integer-typed expression (its OpenCL target: "inline
        # static"); repair the qualifier, the kernel body is untouched.
        src = self.source.replace("static inline static ", "static inline ")
        # loopy's C target emits only one of the lpy_max_<t>/lpy_min_<t>
        # helper definitions when a kernel needs them for two integer types
        # (OpenCL has max/min built in): supply the missing ones.
        missing = []
        for fn, ty in sorted(set(re.findall(
                r"\blpy_(max|min)_(u?int(?:8|16|32|64))\b", src))):
            name = f"lpy_{fn}_{ty}"
            if not re.search(r"\b" + name + r"\s*\(\s*" + ty + r"_t a", src):
                op = ">" if fn == "max" else "<"
                missing.append(
                    f"static inline {ty}_t {name}({ty}_t a, {ty}_t b) "
                    f"{{ return (a {op} b ? a : b); }}\n")
        if missing:
            src = "#include <stdint.h>\n" + "".join(missing) + src
        self.lib = _compile(src)
        self.fn = getattr(self.lib, self.entry)
        self.fn.restype = None

    # {{{ introspection helpers

    @property
    def arg_names(self) -> list[str]:
        return [a.name for a in self.kernel.args]

    @property
    def output_names(self) -> list[str]:
        return [a.name for a in self.kernel.args
                if isinstance(a, lp.ArrayArg) and a.is_output]

    @property
    def input_names(self) -> list[str]:
        return [a.name for a in self.kernel.args
                if not (isinstance(a, lp.ArrayArg) and a.is_output)]

    # }}}

    def __call__(self, **user_args: Any) -> dict[str, np.ndarray]:
        knl = self.kernel
        args: dict[str, Any] = dict(self.bp.bound_arguments)
        overlap = set(args) & set(user_args)
        if overlap:
            raise ValueError(f"arguments already bound: {overlap}")
        args.update(user_args)

        # (integer-valued ones only: these are what shapes may refer to; a
        # float passed by value - ForceValueArgTag - may be nan or inf)
        value_params = {}
        for k, v in args.items():
            if np.isscalar(v) or (isinstance(v, np.ndarray) and v.shape == ()
                                  and k in knl.arg_dict
                                  and isinstance(knl.arg_dict[k],
                                                 lp.ValueArg)):
                if np.asarray(v).dtype.kind in "iub":
                    value_params[k] = int(v)

        blocks: list[tuple[str, np.ndarray, np.ndarray | None, int]] = []
        cargs = []
        argtypes = []
        outputs: dict[str, np.ndarray] = {}

        def alloc(name: str, shape, dtype, init: np.ndarray | None):
            dtype = np.dtype(dtype)
            n = int(np.prod(shape, dtype=np.int64)) * dtype.itemsize
            raw = np.full(n + 2*_RZ + 64, RZ_FILL, dtype=np.uint8)
            # align the payload to 64 bytes
            base = raw.ctypes.data + _RZ
            off = _RZ + ((-base) % 64)
            view = raw[off:off+n].view(dtype).reshape(shape)
            if init is not None:
                view[...] = init
            blocks.append((name, raw, None if init is None else init.copy(), off))
            return view, raw.ctypes.data + off

        for p in self.params:
            if p.name in knl.arg_dict:
                a = knl.arg_dict[p.name]
                if isinstance(a, lp.ValueArg):
                    if p.name not in args:
                        raise TypeError(f"missing value argument '{p.name}'")
                    want = np.dtype(a.dtype.numpy_dtype)
                    ct = _CT[want]
                    val = np.asarray(args[p.name])
                    if not np.can_cast(val.dtype, want, "same_kind"):
                        raise TypeError(
                            f"value argument '{p.name}': the kernel declares "
                            f"{want}, the caller passes {val.dtype}")
                    argtypes.append(ct)
                    cargs.append(ct(val.astype(want).item()))
                    continue
                dtype = a.dtype.numpy_dtype
                shape = _eval_shape(a.shape, value_params)
                if a.is_output and not a.is_input:
                    view, ptr = alloc(p.name, shape, dtype, None)
                    outputs[p.name] = view
                else:
                    if p.name not in args:
                        raise TypeError(f"missing array argument '{p.name}'")
                    val = np.asarray(args[p.name])
                    if val.dtype != dtype:
                        raise TypeError(
                            f"argument '{p.name}' has dtype {val.dtype}, kernel "
                            f"expects {dtype}")
                    if val.shape != shape:
                        raise TypeError(
                            f"argument '{p.name}' has shape {val.shape}, kernel "
                            f"expects {shape}")
                    view, ptr = alloc(p.name, shape, dtype,
                                      np.ascontiguousarray(val))
                argtypes.append(ctypes.c_void_p)
                cargs.append(ctypes.c_void_p(ptr))
            elif p.name in knl.temporary_variables:
                tv = knl.temporary_variables[p.name]
                shape = _eval_shape(tv.shape, value_params)
                view, ptr = alloc(p.name, shape, tv.dtype.numpy_dtype, None)
                argtypes.append(ctypes.c_void_p)
                cargs.append(ctypes.c_void_p(ptr))
            elif p.name.endswith("_offset") and not p.is_ptr:
                argtypes.append(ctypes.c_int32 if "int32" in p.ctype
                                else ctypes.c_int64)
                cargs.append(argtypes[-1](0))
            else:
                raise HarnessError(
                    f"cannot resolve kernel parameter '{p.ctype}'")

        self.fn.argtypes = argtypes
        self.fn(*cargs)

        # red zones and inputs
        for name, raw, init, off in blocks:
            n = raw.size - 2*_RZ - 64
            if not (raw[:off] == RZ_FILL).all() or not (
                    raw[off+n:] == RZ_FILL).all():
                raise MemoryViolation(f"red zone of '{name}' damaged")
            if init is not None:
                now = raw[off:off+n]
                if now.tobytes() != init.tobytes():
                    raise MemoryViolation(f"input '{name}' was modified")

        # outputs loopy elided from the signature are zero-size
        for a in knl.args:
            if (isinstance(a, lp.ArrayArg) and a.is_output and not a.is_input
                    and a.name not in outputs):
                shape = _eval_shape(a.shape, value_params)
                if int(np.prod(shape, dtype=np.int64)) != 0:
                    raise CodegenFailure(
                        f"non-empty output '{a.name}' missing from C signature")
                outputs[a.name] = np.empty(shape, a.dtype.numpy_dtype)
        return {k: np.array(v) for k, v in outputs.items()}


def generate_and_compile(outputs, **kwargs) -> CKernel:
    """``pt.generate_loopy`` with the C target, compiled."""
    import pytato as pt
    bp = pt.generate_loopy(outputs, target=c_target(), **kwargs)
    return CKernel(bp)
