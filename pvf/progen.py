"""Hypothesis strategies for the program grammar (value-directed generation).

A program is generated together with the NumPy value of every node, so the
preconditions of the sound fragment (npref.Unsound) are met by construction:
an operation whose instantiation would leave the fragment is replaced by
another draw at the *operation* level - no test case is ever discarded.
"""
from __future__ import annotations

import itertools
from dataclasses import dataclass, field
from typing import Any

import numpy as np
from hypothesis import strategies as st

from pvf import npref
from pvf.npref import NpReject, Unsound, Val

ALL_GROUPS = frozenset({
    "unary", "math", "arith", "div", "pow", "bitwise", "compare", "logical",
    "maxmin", "where", "astype", "reduce", "einsum", "matmul", "stack",
    "concat", "roll", "transpose", "reshape", "expand", "squeeze", "pad",
    "broadcast", "index", "advindex", "ctor", "csr", "loopy", "like",
})

EXTRA_GROUPS = frozenset({"einsum_dist"})     # only on request (phases)

MOVEMENT = ("roll", "transpose", "T", "reshape", "expand_dims", "squeeze",
            "broadcast_to", "index", "stack", "concatenate")

NAN_GROUPS = frozenset({
    "arith", "compare", "maxmin", "where", "reduce", "stack", "concat", "roll",
    "transpose", "reshape", "expand", "squeeze", "broadcast", "index",
    "advindex", "unary",
})


@dataclass
class GenCfg:
    min_ops: int = 2
    max_ops: int = 12
    max_inputs: int = 4
    max_outputs: int = 3
    dtypes: tuple[str, ...] = ("bool", "int32", "int64", "float32", "float64",
                               "complex128")
    groups: frozenset[str] = ALL_GROUPS
    p_nan: float = 0.1
    p_zero: float = 0.12
    p_complex: float = 0.2
    max_ndim: int = 4
    max_len: int = 5
    max_size: int = 640
    data_wrappers: bool = True
    input_names: tuple[str, ...] | None = None   # naming policy (C15)
    output_names: tuple[str, ...] | None = None
    dup_prob: float = 0.0        # re-emit an existing op node (C05)
    outputs_may_be_inputs: bool = True
    # optional generation phases: ((min_ops, max_ops, groups), ...) executed
    # in order instead of one phase over cfg.groups
    phases: tuple | None = None
    only_sink_outputs: bool = False


def _w(draw, pairs):
    """weighted choice among (weight, value) pairs (weights small ints)."""
    pool = []
    for w, v in pairs:
        pool.extend([v] * w)
    return draw(st.sampled_from(pool))


class Gen:
    def __init__(self, draw, cfg: GenCfg):
        self.draw = draw
        self.cfg = cfg
        self.nodes: list[dict] = []
        self.vals: list[Val] = []
        self.uses: list[int] = []
        self.n_in = 0
        self.nan_mode = False
        self.dims: list[int] = []
        self.groups = set(cfg.groups)
        self.zl: set[int] = set()     # zeros_like results (moved around)
        self.bc: set[int] = set()     # boolean constants (moved around)
        self.cb: set[int] = set()     # comparison / bitwise results (moved)
        self.bw: set[int] = set()     # bitwise results (moved)
        self.sm: set[int] = set()     # inlined expr may hold a constant < 1
        self.noinput: set[int] = set()  # functions of loop indices only

    # {{{ primitives

    def integers(self, lo, hi):
        return self.draw(st.integers(lo, hi))

    def boolean(self, p_num=1, p_den=2):
        return self.draw(st.integers(0, p_den - 1)) < p_num

    def choice(self, seq):
        return self.draw(st.sampled_from(list(seq)))

    def push(self, node: dict, val: Val) -> int:
        self.nodes.append(node)
        self.vals.append(val)
        self.uses.append(0)
        for a in node.get("args", []):
            if a[0] == "n":
                self.uses[a[1]] += 1
        return len(self.nodes) - 1

    def try_op(self, op: str, args: list, params: dict | None = None):
        """args: list of ["n", i] / literal encodings."""
        from pvf.ptbuild import decode_arg
        try:
            vals = [decode_arg(a, self.vals) for a in args]
            v = npref.apply(op, vals, params)
        except (Unsound, NpReject):
            return None
        if isinstance(v.a, np.ndarray):
            if v.a.ndim > self.cfg.max_ndim or v.a.size > self.cfg.max_size:
                return None
            if any(s > 12 for s in v.a.shape):
                return None
        truth_args = args if op in ("logical_and", "logical_or", "logical_not",
                                    "all", "any") else (
            args[:1] if op == "where" else [])
        if any(a[0] == "n" and a[1] in self.sm for a in truth_args) \
                and not self.boolean(1, 12):
            # known finding C01-loopy-logical-small-literal
            return None
        if isinstance(v.a, np.ndarray) and v.kind in "fc" \
                and op not in MOVEMENT and any(
                    a[0] == "n" and a[1] in self.bw for a in args) \
                and not self.boolean(1, 12):
            # known finding C01-loopy-bitwise-under-cast
            return None
        node = {"op": op, "args": args}
        if params:
            node["p"] = params
        idx = self.push(node, v)
        if op in npref.BITWISE or (op in MOVEMENT and any(
                a[0] == "n" and a[1] in self.bw for a in args)):
            self.bw.add(idx)
        if op == "zeros_like" or (op in MOVEMENT and args and args[0][0] == "n"
                                  and args[0][1] in self.zl):
            self.zl.add(idx)
        refs = [a[1] for a in args if a[0] == "n"]

        def moved(s):
            return op in MOVEMENT and refs and (
                all(r in s for r in refs[:1]) if op not in (
                    "stack", "concatenate") else any(r in s for r in refs))
        if (op in ("zeros", "ones", "full") and v.kind == "b") or moved(self.bc):
            self.bc.add(idx)
        if op in npref.COMPARE + npref.BITWISE or moved(self.cb) or (
                op in ("sum", "prod", "amax", "amin")
                and (params or {}).get("axis") == [] and refs
                and refs[0] in self.cb):
            self.cb.add(idx)
        if all(r in self.noinput for r in refs) and op not in (
                "placeholder", "data"):
            self.noinput.add(idx)

        def small(a):
            return a[0] in ("py", "np") and isinstance(a[-1], float) \
                and 0 < abs(a[-1]) < 1
        if any(small(a) for a in args) or any(r in self.sm for r in refs) \
                or (op == "pad" and "constant_values" in (params or {})) \
                or (op == "full" and isinstance(params.get("value"), float)
                    and 0 < abs(params["value"]) < 1) \
                or (op == "arange" and any(
                    isinstance(params.get(k), float)
                    and 0 < abs(params[k]) < 1 for k in ("start", "step"))):
            if op not in npref.REDUCE + ("einsum", "matmul", "dot", "vdot",
                                         "csr_matmul") + npref.COMPARE:
                self.sm.add(idx)
        return idx

    def arrays(self, pred=None) -> list[int]:
        res = []
        for i, v in enumerate(self.vals):
            if isinstance(v.a, np.ndarray) and self.nodes[i]["op"] != "sizeparam":
                if pred is None or pred(v):
                    res.append(i)
        return res

    def pick(self, pred=None):
        cands = self.arrays(pred)
        if not cands:
            return None
        pool = []
        n = len(self.nodes)
        for i in cands:
            w = 1
            if i >= n - 3:
                w += 2
            if self.uses[i] == 0 and self.nodes[i]["op"] not in (
                    "placeholder", "data"):
                w += 2
            elif self.uses[i] == 1:
                w += 1
            pool.extend([i] * w)
        return self.draw(st.sampled_from(pool))

    # }}}

    # {{{ literals

    def lit_int(self, lo=-4, hi=4, nonzero=False):
        v = self.integers(lo, hi)
        if nonzero and v == 0:
            v = 1
        return v

    def big(self, a):
        """known finding C01-loopy-logical-small-literal: constants of
        magnitude below 1 inside where/max/min/pad/full are mis-printed when
        the result is used as a truth value; keep them rare."""
        if a is not None and a[0] in ("py", "np") and isinstance(a[-1], float) \
                and 0 < abs(a[-1]) < 1 and not self.boolean(1, 10):
            return [*a[:-1], a[-1] + (1.0 if a[-1] > 0 else -1.0)]
        return a

    def lit(self, like: Val | None = None, nonzero=False, positive=False):
        """A scalar literal encoding compatible with operand *like*."""
        kinds = [(3, "pyint"), (3, "pyfloat"), (1, "npint"), (1, "npfloat")]
        if like is not None and like.kind == "c":
            kinds.append((2, "pycomplex"))
        if like is not None and like.kind in "iub":
            kinds = [(5, "pyint"), (2, "pyfloat"), (1, "npint")]
        k = _w(self.draw, kinds)
        lo = 1 if positive else -6
        if k == "pyint":
            v = self.integers(lo, 6)
            if nonzero and v == 0:
                v = 2
            return ["py", v]
        if k == "pyfloat":
            v = self.integers(lo * 4, 24)
            if (nonzero or positive) and v == 0:
                v = 3
            return ["py", v / 4.0]
        if k == "npint":
            v = self.integers(lo, 6)
            if nonzero and v == 0:
                v = 2
            return ["np", self.choice(["int32", "int64"]), v]
        if k == "npfloat":
            v = self.integers(lo * 4, 24)
            if (nonzero or positive) and v == 0:
                v = 3
            return ["np", self.choice(["float32", "float64"]), v / 4.0]
        re, im = self.integers(-6, 6), self.integers(-6, 6)
        if nonzero and re == 0 and im == 0:
            re = 1
        return ["pyc", re / 2.0, im / 2.0]

    # }}}

    # {{{ inputs

    def draw_shape(self, ndim=None):
        if ndim is None:
            ndim = _w(self.draw, [(1, 0), (4, 1), (5, 2), (2, 3), (1, 4)])
        ndim = min(ndim, self.cfg.max_ndim)
        return [self.choice(self.dims) for _ in range(ndim)]

    def draw_dtype(self):
        pairs = []
        for d in self.cfg.dtypes:
            w = {"float64": 6, "float32": 3, "int32": 4, "int64": 2, "bool": 2,
                 "complex128": 2, "complex64": 1}.get(d, 1)
            if d.startswith("complex") and not self.use_complex:
                continue
            pairs.append((w, d))
        return _w(self.draw, pairs)

    def draw_values(self, dtype: str, n: int, scale: int, lo=None, hi=None):
        d = npref.dt(dtype)
        vals = []
        if d.kind == "b":
            return [bool(x) for x in self.draw(
                st.lists(st.booleans(), min_size=n, max_size=n))]
        if lo is None and hi is None and dtype == "float32" and scale == 0 \
                and n and self.boolean(1, 6):
            # thirteen-bit mantissas: a product of two is exact in float64
            # but not in float32 (a dropped widening cast shows)
            return [self.choice([4097, -4099, 8191, 2049, 6145, -3073, 5, -3])
                    for _ in range(n)]
        lo = -9 if lo is None else lo
        hi = 9 if hi is None else hi
        if d.kind == "u":
            lo = max(lo, 0)
        base = st.integers(lo, hi)
        if d.kind == "c":
            xs = self.draw(st.lists(st.tuples(base, base), min_size=n,
                                    max_size=n))
            vals = [list(x) for x in xs]
        else:
            vals = list(self.draw(st.lists(base, min_size=n, max_size=n)))
        if self.nan_mode and d.kind == "f" and n:
            k = self.integers(0, min(3, n))
            for _ in range(k):
                pos = self.integers(0, n - 1)
                vals[pos] = self.choice(["nan", "inf", "-inf"])
        return vals

    def new_input(self, dtype=None, shape=None, lo=None, hi=None, kind=None,
                  scale=None):
        dtype = dtype or self.draw_dtype()
        shape = self.draw_shape() if shape is None else list(shape)
        d = npref.dt(dtype)
        if scale is None:
            scale = self.integers(0, 3) if d.kind in "fc" else 0
        n = int(np.prod(shape, dtype=np.int64))
        values = self.draw_values(dtype, n, scale, lo, hi)
        if kind is None:
            kind = "data" if (self.cfg.data_wrappers and self.boolean(1, 4)) \
                else "placeholder"
        p = {"shape": shape, "dtype": dtype, "values": values, "scale": scale}
        if kind == "placeholder":
            p["name"] = self.input_name()
        node = {"op": kind, "p": p}
        v = npref.make_input(values, dtype, shape, scale)
        self.n_in += 1
        return self.push(node, v)

    def input_name(self) -> str:
        used = {n["p"].get("name") for n in self.nodes if n["op"] in (
            "placeholder", "sizeparam")}
        if self.cfg.input_names:
            free = [n for n in self.cfg.input_names if n not in used]
            if free:
                return self.choice(free)
        i = 0
        while f"x{i}" in used:
            i += 1
        return f"x{i}"

    # }}}

    # {{{ shape-compatible operand search

    def compatible(self, i: int, pred=None) -> list[int]:
        """arrays broadcast-compatible with node i."""
        sh = self.vals[i].shape
        res = []
        for j in self.arrays(pred):
            try:
                np.broadcast_shapes(sh, self.vals[j].shape)
            except ValueError:
                continue
            res.append(j)
        return res

    def partner(self, i: int, pred=None, allow_lit=True, lit_kw=None):
        """An operand to combine with node i: array ref or literal."""
        cands = self.compatible(i, pred)
        if cands and (not allow_lit or not self.boolean(1, 4)):
            # prefer same-shape / non-trivial partners
            pool = []
            for j in cands:
                w = 1 + (2 if self.vals[j].shape == self.vals[i].shape else 0) \
                    + (1 if self.vals[j].a.ndim > 0 else 0) \
                    + (1 if j != i else 0)
                pool.extend([j] * w)
            return ["n", self.draw(st.sampled_from(pool))]
        if allow_lit:
            return self.lit(self.vals[i], **(lit_kw or {}))
        return None

    def guard_positive(self, i: int):
        """x*x + 1 (>= 1)."""
        sq = self.try_op("mul", [["n", i], ["n", i]])
        if sq is None:
            return None
        if self.vals[sq].kind == "c":
            sq = self.try_op("abs", [["n", sq]])
            if sq is None:
                return None
        return self.try_op("add", [["n", sq], ["py", 1]])

    # }}}

    # {{{ operation instantiators (return new node index or None)

    def g_unary(self):
        i = self.pick()
        if i is None:
            return None
        v = self.vals[i]
        ops = []
        if v.kind != "b":
            ops.append("neg")
        if v.kind in "fc":
            ops += ["abs", "abs"]
        if v.kind == "f":
            ops += ["isnan"]
        ops += ["real", "imag", "conj"] if v.kind == "c" else ["real", "imag"]
        ops += ["logical_not"]
        op = self.choice(ops)
        p = None
        if op in ("real", "imag", "conj", "abs") and self.boolean(1, 2):
            p = {"via": "attr" if op != "abs" else "builtin"}
        return self.try_op(op, [["n", i]], p)

    def g_math(self):
        i = self.pick(lambda v: v.kind in "fc" and not v.nonfinite)
        if i is None:
            return None
        if i in self.zl and not self.boolean(1, 12):
            # known finding: zeros_like lowers to the untyped literal 0
            return None
        v = self.vals[i]
        if v.kind == "c":
            op = self.choice(["exp", "sin", "cos", "sinh", "cosh", "sqrt", "log"])
        else:
            op = self.choice(["sqrt", "sin", "cos", "tan", "arcsin", "arccos",
                              "arctan", "sinh", "cosh", "tanh", "exp", "log",
                              "log10"])
        r = self.try_op(op, [["n", i]])
        if r is not None:
            return r
        # guard the argument into the function's domain
        if op in ("sqrt", "log", "log10"):
            g = self.guard_positive(i)
            if g is not None:
                return self.try_op(op, [["n", g]])
        elif op in ("arcsin", "arccos") and v.kind == "f":
            g = self.guard_positive(i)
            if g is not None:
                q = self.try_op("truediv", [["n", i], ["n", g]])
                if q is not None:
                    h = self.try_op("mul", [["n", q], ["py", 0.5]])
                    if h is not None:
                        return self.try_op(op, [["n", h]])
        else:
            h = self.try_op("mul", [["n", i], ["py", 0.125]])
            if h is not None:
                return self.try_op(op, [["n", h]])
        return None

    def g_arith(self):
        i = self.pick()
        if i is None:
            return None
        op = _w(self.draw, [(4, "add"), (3, "sub"), (4, "mul")])
        y = self.partner(i)
        args = [["n", i], y]
        if self.boolean(1, 3):
            args.reverse()
        return self.try_op(op, args)

    def g_div(self):
        i = self.pick(lambda v: not v.nonfinite)
        if i is None:
            return None
        v = self.vals[i]
        if v.kind in "iu":
            op = self.choice(["truediv", "floordiv", "mod"])
        elif v.kind == "b":
            op = "truediv"
        else:
            op = "truediv"
        want_int = op in ("floordiv", "mod")
        if want_int and i in self.noinput and not self.boolean(1, 10):
            # known finding C01-loopy-intdiv-iname-if
            return None
        pred = (lambda w: w.kind in "iu") if want_int else (
            lambda w: not w.nonfinite and not (v.kind == "b" and w.kind == "b"))
        y = self.partner(i, pred, lit_kw={"nonzero": True})
        if y is None:
            return None
        if want_int and y[0] != "n":
            y = ["py", self.lit_int(-5, 5, nonzero=True)]
        args = [["n", i], y]
        if self.boolean(1, 3):
            args.reverse()
        r = self.try_op(op, args)
        if r is not None:
            return r
        # guard the divisor
        den = args[1]
        if den[0] == "n":
            g = self.guard_positive(den[1])
            if g is not None:
                return self.try_op(op, [args[0], ["n", g]])
        return None

    def g_pow(self):
        i = self.pick(lambda v: v.kind != "b" and not v.nonfinite)
        if i is None:
            return None
        v = self.vals[i]
        mode = _w(self.draw, [(4, "smallint"), (2, "float"), (1, "rev"),
                              (1, "array")])
        if mode == "smallint":
            # (exponent 0 excluded: loopy folds x**0 to the integer literal 1)
            return self.try_op("pow", [["n", i], ["py", self.integers(1, 3)]])
        if mode == "array" and v.kind in "iu":
            e = self.new_input("int32", v.shape, 0, 3)
            b = self.try_op("mod", [["n", i], ["py", 5]])
            if b is None:
                return None
            return self.try_op("pow", [["n", b], ["n", e]])
        g = self.guard_positive(i) if v.kind != "c" else None
        if mode == "rev":
            base = ["py", self.choice([2, 0.5, 1.5, 3])]
            if v.kind in "iu":
                e = self.try_op("mod", [["n", i], ["py", 4]])
                if e is None:
                    return None
                return self.try_op("pow", [["py", 2], ["n", e]])
            if v.kind == "c":
                return None
            sc = self.try_op("mul", [["n", i], ["py", 0.125]])
            if sc is None:
                return None
            return self.try_op("pow", [base, ["n", sc]])
        ex = ["py", self.choice([0.5, 1.5, -0.5, 2.5, -1.0, -2])]
        if v.kind == "c":
            sh = self.try_op("add", [["n", i], ["py", 16.0]])
            if sh is None:
                return None
            return self.try_op("pow", [["n", sh], ex])
        if g is None:
            return None
        return self.try_op("pow", [["n", g], ex])

    def g_bitwise(self):
        i = self.pick(lambda v: v.kind in "biu")
        if i is None:
            return None
        op = self.choice(["and", "or", "xor"])
        y = self.partner(i, lambda w: w.kind in "biu", allow_lit=False)
        if y is None or self.boolean(1, 5):
            y = ["py", self.boolean()] if self.vals[i].kind == "b" else \
                ["py", self.integers(0, 7)]
        args = [["n", i], y]
        if self.boolean(1, 3):
            args.reverse()
        return self.try_op(op, args)

    def g_compare(self):
        i = self.pick(lambda v: v.exact)
        if i is None:
            i = self.pick()
        if i is None:
            return None
        v = self.vals[i]
        ops = list(npref.COMPARE) if v.kind != "c" else ["equal", "not_equal"]
        op = self.choice(ops)
        pred = (lambda w: w.exact and (w.kind != "c" or op in (
            "equal", "not_equal")))
        y = self.partner(i, pred)
        if y is None:
            return None
        args = [["n", i], y]
        if self.boolean(1, 3):
            args.reverse()
        # known findings (loopy's C printer drops needed parentheses around a
        # comparison or a bitwise operation nested in a comparison): rare
        nested = [a for a in args if (a[0] == "n" and (
            a[1] in self.cb or a[1] in self.bc))
            or (a[0] == "py" and isinstance(a[1], bool))]
        if nested and not self.boolean(1, 12):
            return None
        return self.try_op(op, args)

    def g_logical(self):
        i = self.pick(lambda v: v.exact)
        if i is None:
            return None
        op = self.choice(["logical_and", "logical_or"])
        y = self.partner(i, lambda w: w.exact)
        if y is None:
            return None
        if y[0] in ("py", "np") and isinstance(y[-1], float) \
                and 0 < abs(y[-1]) < 1 and not self.boolean(1, 12):
            # known finding: loopy prints a float literal operand of && / ||
            # as int(literal)
            y = [*y[:-1], y[-1] + 1.0 if y[-1] > 0 else y[-1] - 1.0]
        args = [["n", i], y]
        if self.boolean(1, 3):
            args.reverse()
        return self.try_op(op, args)

    def g_maxmin(self):
        i = self.pick(lambda v: v.kind in "iuf")
        if i is None:
            return None
        v = self.vals[i]
        op = self.choice(["maximum", "minimum"])
        if v.kind == "f":
            pred = lambda w: w.kind == "f"  # noqa: E731
        else:
            pred = lambda w: w.kind in "iu"  # noqa: E731
        y = self.partner(i, pred)
        if y is None:
            return None
        args = [["n", i], self.big(y)]
        if self.boolean(1, 3):
            args.reverse()
        if any(a[0] == "n" and a[1] in self.cb for a in args) \
                and not self.boolean(1, 12):
            return None     # comparison of an inlined bitwise op: known
        return self.try_op(op, args)

    def g_where(self):
        c = self.pick(lambda v: v.kind == "b")
        if c is None or self.boolean(1, 10):
            # (non-boolean conditions: known finding
            # C01-loopy-where-nonbool-condition, kept rare)
            c2 = self.pick(lambda v: v.exact)
            c = c2 if c2 is not None else c
        if c is None:
            return None
        x = self.partner(c, None)
        if x is None:
            return None
        if x[0] == "n":
            y = self.partner(x[1], None)
            if y is not None and y[0] == "n":
                try:
                    np.broadcast_shapes(self.vals[c].shape,
                                        self.vals[x[1]].shape,
                                        self.vals[y[1]].shape)
                except ValueError:
                    y = self.lit(self.vals[x[1]])
        else:
            y = self.partner(c, None)
        if y is None:
            return None
        if x[0] != "n" and y[0] != "n" and self.vals[c].a.ndim == 0 and False:
            return None
        if self.vals[c].kind == "c":
            # loopy's type inference lets a complex condition make the whole
            # conditional complex; outside the fragment
            return None
        return self.try_op("where", [["n", c], self.big(x), self.big(y)])

    def g_astype(self):
        i = self.pick()
        if i is None:
            return None
        v = self.vals[i]
        if v.kind == "b":
            tgt = ["int32", "int64", "float32", "float64", "complex128"]
        elif v.kind in "iu":
            tgt = ["int32", "int64", "float32", "float64", "complex128"]
        elif v.kind == "f":
            tgt = ["float32", "float64", "complex128"]
        else:
            tgt = ["complex128", "complex64"]
        tgt = [t for t in tgt if t in self.cfg.dtypes or t == str(v.dtype)]
        if not self.use_complex:
            tgt = [t for t in tgt if not t.startswith("complex")]
        if not tgt:
            return None
        return self.try_op("astype", [["n", i]], {"dtype": self.choice(tgt)})

    def g_reduce(self):
        i = self.pick(lambda v: v.a.ndim >= 1) if not self.boolean(1, 8) \
            else self.pick()
        if i is None:
            return None
        v = self.vals[i]
        ops = ["all", "any"]
        if v.kind != "b":
            ops += ["sum", "sum", "sum", "prod"]
        if v.kind in "iuf":
            ops += ["amax", "amin"]
        op = self.choice(ops)
        nd = v.a.ndim
        mode = _w(self.draw, [(2, "none"), (3, "int"), (3, "tuple")])
        if nd == 0:
            mode = "none" if self.boolean() else "tuple"
        if mode == "none":
            axis = None
        elif mode == "int":
            axis = self.integers(0, nd - 1)
        else:
            axis = [a for a in range(nd) if self.boolean()]
            if self.boolean(1, 4):
                axis = list(reversed(axis))
        p = {"axis": axis}
        if op in ("all", "any") and self.boolean(1, 3):
            p["via"] = "attr"
        return self.try_op(op, [["n", i]], p)

    def g_einsum_dist(self):
        """einsum one of whose operands is a tree the distributive law can
        push the einsum through: (a +- b), c*a, a*c, a/c, -a (and c/a, which
        must NOT be distributed), nested up to twice."""
        pred = lambda v: 1 <= v.a.ndim <= 3 and v.kind in "iufc" and not v.nonfinite  # noqa: E731,E501
        # (mostly floating operands: '/' keeps their dtype)
        x = self.pick(lambda v: pred(v) and v.kind == "f") \
            if self.boolean(2, 3) else None
        if x is None:
            x = self.pick(pred)
        if x is None:
            x = self.new_input(self.choice(["float64", "int32"]),
                               self.draw_shape(self.integers(1, 2)))
            if 0 in self.vals[x].shape:
                return None
        t = x
        for _ in range(self.integers(1, 2)):
            sh = self.vals[t].shape
            kind = _w(self.draw, [(4, "add"), (3, "sub"), (2, "lmul"),
                                  (2, "rmul"), (2, "div"), (2, "rdiv"),
                                  (1, "neg")])
            if kind in ("add", "sub"):
                same = self.arrays(lambda v: v.shape == sh and v.kind in "iufc"
                                   and not v.nonfinite)
                # (the law only distributes through dtype-preserving
                # operations: mostly offer it operands of one dtype)
                same_dt = [q for q in same
                           if self.vals[q].a.dtype == self.vals[t].a.dtype]
                if same_dt and self.boolean(4, 5):
                    same = same_dt
                y = self.choice(same) if same else t
                if sh and sh[-1] > 1 and self.boolean(1, 4):
                    # a summand with a unit axis (broadcast within the sum):
                    # the law must NOT distribute through this one
                    yb = self.try_op("index", [["n", y]], {"idx": [
                        ["ellipsis"], ["slice", 0, 1, None]]})
                    if yb is not None:
                        y = yb
                if y == t and self.boolean():
                    y2 = self.try_op("mul", [["n", t], ["py", 2]])
                    y = y2 if y2 is not None else y
                args = [["n", t], ["n", y]]
                if self.boolean():
                    args.reverse()
                r = self.try_op(kind, args)
            elif kind == "lmul":
                r = self.try_op("mul", [self.lit(self.vals[t], nonzero=True),
                                        ["n", t]])
            elif kind == "rmul":
                r = self.try_op("mul", [["n", t],
                                        self.lit(self.vals[t], nonzero=True)])
            elif kind == "div":
                r = self.try_op("truediv", [["n", t], ["py", self.choice(
                    [2, 4, 0.5, -2, 8])]])
            elif kind == "rdiv":
                g = self.guard_positive(t)
                r = None if g is None else self.try_op(
                    "truediv", [["py", self.choice([1, 2, -3.5])], ["n", g]])
            else:
                r = self.try_op("neg", [["n", t]])
            if r is not None:
                t = r
        return self.g_einsum(first=t)

    def g_einsum(self, first=None):
        nops = _w(self.draw, [(3, 1), (5, 2), (2, 3)])
        pred = lambda v: 1 <= v.a.ndim <= 3 and v.kind != "b" and not v.nonfinite  # noqa: E731,E501
        if first is None:
            first = self.pick(pred)
        if first is None:
            first = self.new_input(shape=[self.choice(
                [d for d in self.dims if d > 0] or [2])
                for _ in range(self.integers(1, 2))])
            if not pred(self.vals[first]):
                return None
        elif not pred(self.vals[first]):
            return None
        ops = [first]
        letters: dict[str, int] = {}
        specs = []
        alphabet = "ijklmn"
        first_pos = self.integers(0, nops - 1)
        for k in range(nops):
            if k > 0:
                # prefer operands sharing an axis length
                lens = set(letters.values())
                j = self.pick(lambda v: pred(v) and (
                    set(v.shape) & lens or 1 in v.shape))
                if j is None:
                    j = self.pick(pred)
                ops.append(j)
            v = self.vals[ops[k]]
            s = ""
            for n in v.shape:
                cands = [ch for ch, m in letters.items()
                         if m == n or n == 1 or m == 1]
                fresh = [ch for ch in alphabet if ch not in letters]
                if cands and (not fresh or self.boolean(2, 3)):
                    ch = self.choice(cands)
                    if letters[ch] == 1:
                        letters[ch] = n
                elif fresh:
                    ch = fresh[0]
                    letters[ch] = n
                else:
                    return None
                s += ch
            specs.append(s)
        used = sorted(letters)
        out = [ch for ch in used if self.boolean(3, 5)]
        out = list(self.draw(st.permutations(out)))
        # the first-chosen operand goes to a drawn position
        if first_pos and first_pos < len(ops):
            ops[0], ops[first_pos] = ops[first_pos], ops[0]
            specs[0], specs[first_pos] = specs[first_pos], specs[0]
        spec = ",".join(specs) + "->" + "".join(out)
        if self.boolean(1, 4):
            spec = spec.replace(",", ", ").replace("->", " -> ")
        return self.try_op("einsum", [["n", i] for i in ops], {"spec": spec})

    def g_matmul(self):
        op = _w(self.draw, [(4, "matmul"), (3, "dot"), (1, "vdot")])
        pred = lambda v: v.a.ndim >= 1 and v.kind != "b" and not v.nonfinite  # noqa: E731,E501
        i = self.pick(pred)
        if i is None:
            return None
        v = self.vals[i]
        if op == "vdot":
            j = self.pick(lambda w: pred(w) and w.a.size == v.a.size)
            if j is None:
                return None
            return self.try_op("vdot", [["n", i], ["n", j]])
        k = v.shape[-1]
        if op == "matmul" and v.a.ndim == 3 and v.a.size <= 40 \
                and self.cfg.max_ndim >= 4 and self.boolean(1, 3):
            # batched product of operands of DIFFERENT rank (3-d @ 4-d): the
            # lower-rank operand's batch axes align with the trailing ones
            t = self.try_op("transpose", [["n", i]], {"axes": [0, 2, 1]})
            if t is not None:
                t4 = self.try_op("stack", [["n", t], ["n", t]], {"axis": 0})
                if t4 is not None:
                    args = [["n", i], ["n", t4]] if self.boolean() else \
                        [["n", t4], ["n", i]]
                    r = self.try_op("matmul", args)
                    if r is not None:
                        return r

        def ok(w):
            if not pred(w):
                return False
            if w.a.ndim == 1:
                return w.shape[0] == k
            return w.shape[-2] == k
        j = self.pick(ok)
        if j is None:
            if v.a.ndim >= 2:
                j = self.try_op("T" if v.a.ndim == 2 else "transpose",
                                [["n", i]],
                                None if v.a.ndim == 2 else {
                                    "axes": [*range(v.a.ndim - 2),
                                             v.a.ndim - 1, v.a.ndim - 2]})
            else:
                j = i
            if j is None:
                return None
        args = [["n", i], ["n", j]]
        r = self.try_op(op, args)
        if r is None and op == "dot":
            r = self.try_op("matmul", args)
        return r

    def g_stack(self):
        i = self.pick(lambda v: v.a.ndim < self.cfg.max_ndim)
        if i is None:
            return None
        sh = self.vals[i].shape
        n = _w(self.draw, [(2, 1), (5, 2), (3, 3), (1, 4)])
        same = self.arrays(lambda v: v.shape == sh)
        members = [i] + [self.choice(same) for _ in range(n - 1)]
        axis = self.integers(0, len(sh))
        return self.try_op("stack", [["n", m] for m in members], {"axis": axis})

    def g_concat(self):
        i = self.pick(lambda v: v.a.ndim >= 1)
        if i is None:
            return None
        sh = self.vals[i].shape
        axis = self.integers(0, len(sh) - 1)

        def ok(v):
            return (v.a.ndim == len(sh)
                    and v.shape[:axis] == sh[:axis]
                    and v.shape[axis+1:] == sh[axis+1:])
        cands = self.arrays(ok)
        n = _w(self.draw, [(2, 1), (5, 2), (3, 3), (1, 4)])
        members = [i] + [self.choice(cands) for _ in range(n - 1)]
        members = list(self.draw(st.permutations(members)))
        return self.try_op("concatenate", [["n", m] for m in members],
                           {"axis": axis})

    def g_roll(self):
        i = self.pick(lambda v: v.a.ndim >= 1)
        if i is None:
            return None
        v = self.vals[i]
        axis = self.integers(0, v.a.ndim - 1)
        n = v.shape[axis]
        shift = self.integers(-2 * n - 1, 2 * n + 1)
        p = {"shift": shift, "axis": axis}
        if v.a.ndim == 1 and self.boolean(1, 3):
            p = {"shift": shift}
        return self.try_op("roll", [["n", i]], p)

    def g_transpose(self):
        i = self.pick(lambda v: v.a.ndim >= 1)
        if i is None:
            return None
        v = self.vals[i]
        if self.boolean(1, 3):
            return self.try_op("T", [["n", i]])
        if self.boolean(1, 4):
            return self.try_op("transpose", [["n", i]], {"axes": None})
        perm = list(self.draw(st.permutations(list(range(v.a.ndim)))))
        return self.try_op("transpose", [["n", i]], {"axes": perm})

    def g_reshape(self):
        i = self.pick()
        if i is None:
            return None
        v = self.vals[i]
        size = v.a.size
        order = self.choice(["C", "C", "C", "F", "F", "c", "f"])
        # enumerate a few factorisations
        if size == 0:
            nd = self.integers(1, 3)
            shape = [self.choice([0, 1, 2, 3]) for _ in range(nd)]
            if 0 not in shape:
                shape[self.integers(0, nd - 1)] = 0
        else:
            nd = self.integers(0 if size == 1 else 1, 4)
            shape = []
            rem = size
            for k in range(nd):
                if k == nd - 1:
                    shape.append(rem)
                else:
                    divs = [d for d in range(1, rem + 1) if rem % d == 0]
                    d = self.choice(divs)
                    shape.append(d)
                    rem //= d
            shape = list(self.draw(st.permutations(shape)))
            if shape and self.boolean(1, 4):
                shape[self.integers(0, len(shape) - 1)] = -1
        p: dict[str, Any] = {"shape": shape, "order": order}
        if len(shape) == 1 and self.boolean(1, 3):
            p["shape"] = shape[0]
        if self.boolean(1, 3):
            p["via"] = "method"
        return self.try_op("reshape", [["n", i]], p)

    def g_expand(self):
        i = self.pick(lambda v: v.a.ndim < self.cfg.max_ndim)
        if i is None:
            return None
        v = self.vals[i]
        nd = v.a.ndim
        if nd + 2 <= self.cfg.max_ndim and self.boolean(1, 3):
            out_nd = nd + 2
            axes = list(self.draw(st.lists(st.integers(-out_nd, out_nd - 1),
                                           min_size=2, max_size=2)))
            if (axes[0] % out_nd) == (axes[1] % out_nd):
                return None
            return self.try_op("expand_dims", [["n", i]], {"axis": axes})
        ax = self.integers(-(nd + 1), nd)
        return self.try_op("expand_dims", [["n", i]], {"axis": ax})

    def g_squeeze(self):
        i = self.pick(lambda v: 1 in v.shape)
        if i is None:
            return None
        v = self.vals[i]
        ones = [k for k, n in enumerate(v.shape) if n == 1]
        if self.boolean(1, 2):
            return self.try_op("squeeze", [["n", i]], {"axis": None})
        sub = [k for k in ones if self.boolean(2, 3)]
        return self.try_op("squeeze", [["n", i]], {"axis": sub})

    def g_pad(self):
        i = self.pick(lambda v: v.a.ndim >= 1 and v.kind != "b")
        if i is None:
            return None
        v = self.vals[i]
        nd = v.a.ndim
        mode = _w(self.draw, [(2, "int"), (2, "pair"), (4, "full")])
        if mode == "int":
            pw: Any = self.integers(0, 2)
        elif mode == "pair":
            pw = [self.integers(0, 2), self.integers(0, 2)]
        else:
            pw = [[self.integers(0, 2), self.integers(0, 2)] for _ in range(nd)]

        def c():
            if v.kind in "iu":
                return self.integers(-3, 3)
            x = self.integers(-8, 8) / 4.0
            if 0 < abs(x) < 1 and not self.boolean(1, 10):
                x += 1.0 if x > 0 else -1.0
            return x
        cmode = _w(self.draw, [(3, "none"), (3, "scalar"), (2, "pair"),
                               (2, "full")])
        if cmode == "none":
            cv = None
        elif cmode == "scalar":
            cv = c()
        elif cmode == "pair":
            cv = [c(), c()]
        else:
            cv = [[c(), c()] for _ in range(nd)]
        if v.kind == "c" and cv is not None:
            return None
        p = {"pad_width": pw}
        if cv is not None:
            p["constant_values"] = cv
        return self.try_op("pad", [["n", i]], p)

    def g_broadcast(self):
        i = self.pick(lambda v: v.a.ndim < self.cfg.max_ndim or 1 in v.shape)
        if i is None:
            return None
        v = self.vals[i]
        shape = [n if n != 1 or self.boolean(1, 3) else self.choice(self.dims)
                 for n in v.shape]
        extra = self.integers(0, self.cfg.max_ndim - len(shape))
        shape = [self.choice(self.dims) for _ in range(extra)] + shape
        return self.try_op("broadcast_to", [["n", i]], {"shape": shape})

    def draw_slice(self, n: int):
        def bound():
            return self.choice([None, None] + list(range(-n - 2, n + 3)))
        step = self.choice([None, None, 1, 1, 2, 3, -1, -1, -2, -3, n + 1,
                            -(n + 1)])
        if step == 0:
            step = None
        return ["slice", bound(), bound(), step]

    def g_index(self):
        i = self.pick(lambda v: v.a.ndim >= 1)
        if i is None:
            return None
        v = self.vals[i]
        items = []
        nd = v.a.ndim
        use_ellipsis = self.boolean(1, 4)
        k = 0
        naxes = self.integers(1, nd)
        ell_pos = self.integers(0, naxes) if use_ellipsis else -1
        front = list(range(naxes))
        axis_of = {}
        # which array axis does item position map to
        if use_ellipsis:
            nfront = ell_pos
            nback = naxes - ell_pos
            for q in range(nfront):
                axis_of[q] = q
            for q in range(nback):
                axis_of[nfront + q] = nd - nback + q
        else:
            for q in front:
                axis_of[q] = q
        for q in range(naxes):
            if use_ellipsis and q == ell_pos:
                items.append(["ellipsis"])
            n = v.shape[axis_of[q]]
            if n > 0 and self.boolean(1, 3):
                items.append(["int", self.integers(-n, n - 1)])
            else:
                items.append(self.draw_slice(n))
        if use_ellipsis and ell_pos == naxes:
            items.append(["ellipsis"])
        p: dict[str, Any] = {"idx": items}
        if len(items) == 1 and self.boolean():
            p["tuple"] = True
        return self.try_op("index", [["n", i]], p)

    def index_array(self, n: int, shape):
        """an integer index array with entries in [-n, n-1]."""
        mode = _w(self.draw, [(4, "fresh"), (2, "mod")])
        if mode == "mod":
            # (inputs only: an index expression with a cast under '%' is the
            # known finding C01-loopy-index-cast)
            inputs = {k for k, nd in enumerate(self.nodes)
                      if nd["op"] in ("placeholder", "data")}
            cands = [k for k in self.arrays(
                lambda w: w.kind in "iu" and list(w.shape) == list(shape))
                if k in inputs or self.boolean(1, 12)]
            src = self.choice(cands) if cands else None
            if src is not None:
                r = self.try_op("mod", [["n", src], ["py", n]])
                if r is not None:
                    if self.boolean(1, 3) and n > 0:
                        r2 = self.try_op("sub", [["n", r], ["py", n]])
                        if r2 is not None:
                            return r2
                    return r
        return self.new_input(self.choice(["int32", "int64"]), shape, -n, n - 1)

    def g_advindex(self):
        i = self.pick(lambda v: v.a.ndim >= 1 and all(n > 0 for n in v.shape))
        if i is None:
            return None
        v = self.vals[i]
        nd = v.a.ndim
        n_adv = self.integers(1, min(nd, 3))
        adv_axes = sorted(self.draw(st.permutations(list(range(nd))))[:n_adv])
        # common broadcast shape of the index arrays
        bshape = self.draw_shape(_w(self.draw, [(1, 0), (4, 1), (2, 2)]))
        bshape = [b for b in bshape if b > 0] or [2]
        items = []
        args = [["n", i]]
        n_arrays = 0
        for ax in range(nd):
            n = v.shape[ax]
            if ax in adv_axes:
                later = [a for a in adv_axes if a > ax]
                # (a scalar among the advanced indices, before or after the
                # first index array; at least one array remains)
                if (n_arrays > 0 or later) and self.boolean(1, 4):
                    items.append(["int", self.integers(-n, n - 1)])
                    continue
                # shape broadcastable to bshape
                sh = list(bshape)
                if self.boolean(1, 3):
                    sh = sh[self.integers(0, len(sh)):]
                sh = [1 if self.boolean(1, 4) else s for s in sh]
                if n_arrays == 0:
                    sh = list(bshape)
                ia = self.index_array(n, sh)
                if ia is None:
                    return None
                args.append(["n", ia])
                items.append(["arr", len(args) - 1])
                n_arrays += 1
            else:
                if self.boolean(2, 3):
                    items.append(["slice", None, None, None])
                else:
                    items.append(self.draw_slice(n))
        # drop trailing full slices sometimes
        while items and items[-1] == ["slice", None, None, None] \
                and self.boolean(1, 2):
            items.pop()
        if n_arrays == 0:
            return None
        return self.try_op("index", args, {"idx": items})

    def g_ctor(self):
        kind = _w(self.draw, [(3, "full"), (2, "zeros"), (2, "ones"), (2, "eye"),
                              (3, "arange")])
        dts = [d for d in self.cfg.dtypes if not d.startswith("complex")
               or self.use_complex]
        if kind == "full":
            shape = self.draw_shape()
            d = self.choice(dts + [None])
            if d is None:
                v = self.choice([2, -3, 0.5, True, 1.25])
            elif d == "bool":
                v = self.boolean()
            elif npref.dt(d).kind in "iu":
                v = self.integers(-5, 5) if npref.dt(d).kind == "i" else \
                    self.integers(0, 5)
            else:
                v = self.integers(-8, 8) / 4.0
                if 0 < abs(v) < 1 and not self.boolean(1, 10):
                    v += 1.0 if v > 0 else -1.0
                if self.nan_mode and npref.dt(d).kind == "f" and self.boolean(
                        1, 3):
                    v = float("nan")
            p = {"shape": shape, "value": v}
            if d is not None:
                p["dtype"] = d
            return self.try_op("full", [], p)
        if kind in ("zeros", "ones"):
            return self.try_op(kind, [], {"shape": self.draw_shape(),
                                          "dtype": self.choice(dts)})
        if kind == "eye":
            N = self.choice(self.dims)
            M = self.choice([None] + self.dims)
            k = self.integers(-2, 2)
            d = self.choice([d for d in dts if d != "bool"])
            p = {"N": N, "M": M, "k": k, "dtype": d}
            return self.try_op("eye", [], p)
        d = self.choice([d for d in dts if npref.dt(d).kind in "iuf"])
        if npref.dt(d).kind == "f":
            start = self.integers(-8, 8) / 4.0
            step = self.choice([0.25, 0.5, 1.0, -0.5, 1.5, -1.0])
            n = self.integers(0, 5)
            stop = start + step * n - (step / 2 if self.boolean() else 0)
        else:
            start = self.integers(-4, 4)
            step = self.choice([1, 2, 3, -1, -2])
            n = self.integers(0, 5)
            stop = start + step * n - (np.sign(step) if self.boolean() and n
                                       else 0)
            stop = int(stop)
            if npref.dt(d).kind == "u":
                start, stop, step = abs(start), abs(start) + abs(step) * n, \
                    abs(step)
        return self.try_op("arange", [], {"start": start, "stop": stop,
                                          "step": step, "dtype": d})

    def g_like(self):
        i = self.pick(lambda v: v.kind in "fc")
        if i is None:
            return None
        op = self.choice(["zeros_like", "ones_like"])
        p = {}
        if self.boolean(1, 3):
            p["dtype"] = self.choice(["float32", "float64"])
        return self.try_op(op, [["n", i]], p or None)

    def g_csr(self):
        x = self.pick(lambda v: v.a.ndim >= 1 and v.shape[0] > 0
                      and v.kind != "b" and not v.nonfinite)
        if x is None:
            return None
        v = self.vals[x]
        ncols = v.shape[0]
        nrows = self.integers(0, 4)
        counts = [self.integers(0, min(3, ncols)) for _ in range(nrows)]
        nnz = sum(counts)
        rs = [0]
        for c in counts:
            rs.append(rs[-1] + c)
        cols = []
        for c in counts:
            row = list(self.draw(st.permutations(list(range(ncols)))))[:c]
            if self.boolean(1, 4) and c >= 2:
                row[1] = row[0]     # duplicate entry in a row
            cols.extend(row)
        dtv = self.choice(["float64", "float32", "int32"]) \
            if v.kind != "c" else self.choice(["float64", "complex128"])
        ev = self.new_input(dtv, [nnz])
        idt = self.choice(["int32", "int64"])
        ci = self.push({"op": "data", "p": {"shape": [nnz], "dtype": idt,
                                            "values": cols, "scale": 0}},
                       npref.make_input(cols, idt, [nnz], 0))
        rsn = self.push({"op": "data", "p": {"shape": [nrows + 1],
                                             "dtype": idt, "values": rs,
                                             "scale": 0}},
                        npref.make_input(rs, idt, [nrows + 1], 0))
        return self.try_op("csr_matmul", [["n", ev], ["n", ci], ["n", rsn],
                                          ["n", x]],
                           {"shape": [nrows, ncols]})

    def g_loopy(self):
        x = self.pick(lambda v: v.a.ndim == 2 and v.a.size > 0
                      and v.dtype in (np.dtype(np.float64),
                                      np.dtype(np.float32))
                      and not v.nonfinite)
        if x is None:
            return None
        v = self.vals[x]
        k = self.choice(["scale_shift", "rowsum", "twoout"])
        a = self.integers(-8, 8) / 4.0
        if k == "scale_shift":
            y = self.pick(lambda w: w.shape == (v.shape[1],)
                          and w.dtype == v.dtype and not w.nonfinite)
            if y is None:
                y = self.new_input(str(v.dtype), [v.shape[1]])
            call = self.try_op("call_loopy", [["n", x], ["n", y]],
                               {"kernel": k, "a": a})
            keys = ["out"]
        elif k == "rowsum":
            call = self.try_op("call_loopy", [["n", x]], {"kernel": k})
            keys = ["rs"]
        else:
            call = self.try_op("call_loopy", [["n", x]], {"kernel": k, "a": a})
            keys = ["rs", "cs"]
        if call is None:
            return None
        last = None
        for key in keys:
            if key == keys[0] or self.boolean(2, 3):
                last = self.try_op("item", [["n", call]], {"key": key})
        return last

    # }}}

    def run(self):
        cfg = self.cfg
        draw = self.draw
        self.nan_mode = self.integers(0, 99) < int(cfg.p_nan * 100)
        self.use_complex = (not self.nan_mode
                            and any(d.startswith("complex") for d in cfg.dtypes)
                            and self.integers(0, 99) < int(cfg.p_complex * 100))
        zero = self.integers(0, 99) < int(cfg.p_zero * 100)
        ndims = self.integers(2, 3)
        self.dims = [self.integers(1, cfg.max_len) for _ in range(ndims)]
        if zero:
            self.dims.append(0)
        if self.nan_mode:
            self.groups &= NAN_GROUPS
        n_in = self.integers(1, cfg.max_inputs)
        for k in range(n_in):
            dtype = None
            if self.nan_mode and k == 0:
                dtype = self.choice([d for d in cfg.dtypes
                                     if d in ("float32", "float64")]
                                    or ["float64"])
            if self.use_complex and k == 0:
                dtype = "complex128"
            self.new_input(dtype=dtype)
        table = [
            (8, "arith", self.g_arith), (3, "unary", self.g_unary),
            (4, "math", self.g_math), (3, "div", self.g_div),
            (2, "pow", self.g_pow), (2, "bitwise", self.g_bitwise),
            (3, "compare", self.g_compare), (2, "logical", self.g_logical),
            (2, "maxmin", self.g_maxmin), (3, "where", self.g_where),
            (2, "astype", self.g_astype), (5, "reduce", self.g_reduce),
            (3, "einsum", self.g_einsum), (3, "matmul", self.g_matmul),
            (4, "einsum_dist", self.g_einsum_dist),
            (2, "stack", self.g_stack), (2, "concat", self.g_concat),
            (2, "roll", self.g_roll), (2, "transpose", self.g_transpose),
            (3, "reshape", self.g_reshape), (1, "expand", self.g_expand),
            (1, "squeeze", self.g_squeeze), (2, "pad", self.g_pad),
            (2, "broadcast", self.g_broadcast), (4, "index", self.g_index),
            (3, "advindex", self.g_advindex), (2, "ctor", self.g_ctor),
            (1, "csr", self.g_csr), (1, "loopy", self.g_loopy),
            (1, "like", self.g_like),
        ]
        phases = cfg.phases or ((cfg.min_ops, cfg.max_ops, None),)
        for lo, hi, groups in phases:
            active = self.groups if groups is None else (
                set(groups) & (self.groups if self.nan_mode
                               else ALL_GROUPS | EXTRA_GROUPS))
            pairs = [(w, (name, fn)) for w, name, fn in table
                     if name in active]
            if not pairs:
                continue
            self._phase(pairs, self.integers(lo, hi))
        return self.finish()

    def _phase(self, pairs, n_ops):
        cfg = self.cfg
        draw = self.draw
        made = 0
        attempts = 0
        while made < n_ops and attempts < 4 * n_ops + 8:
            attempts += 1
            if cfg.dup_prob and made and self.integers(0, 99) < int(
                    cfg.dup_prob * 100):
                ops_idx = [i for i, n in enumerate(self.nodes)
                           if n["op"] not in ("placeholder", "data", "sizeparam",
                                              "call_loopy", "item")]
                if ops_idx:
                    src = self.nodes[self.choice(ops_idx)]
                    r = self.try_op(src["op"], list(src.get("args", [])),
                                    src.get("p"))
                    if r is not None:
                        made += 1
                    continue
            name, fn = _w(draw, pairs)
            before = len(self.nodes)
            r = fn()
            if r is not None:
                made += len([n for n in self.nodes[before:]
                             if n["op"] not in ("placeholder", "data")])

    def finish(self):
        cfg = self.cfg
        arrays = self.arrays()
        sinks = [i for i in arrays if self.uses[i] == 0
                 and self.nodes[i]["op"] not in ("placeholder", "data")]
        opsn = [i for i in arrays
                if self.nodes[i]["op"] not in ("placeholder", "data")]
        n_out = self.integers(1, cfg.max_outputs)
        outs = []
        for k in range(n_out):
            pool = []
            pool += sinks * 6
            if not (cfg.only_sink_outputs and sinks):
                pool += opsn * 2
                if cfg.outputs_may_be_inputs:
                    pool += arrays
            if not pool:
                pool = arrays
            if k > 0 and outs and self.boolean(1, 8):
                outs.append(outs[0])      # same node under two keys
                continue
            c = self.draw(st.sampled_from(pool))
            outs.append(c)
            if c in sinks:
                sinks = [s for s in sinks if s != c] or sinks
        names = []
        used_in = {n["p"].get("name") for n in self.nodes
                   if n["op"] in ("placeholder", "sizeparam")}
        for k, _ in enumerate(outs):
            if cfg.output_names:
                free = [n for n in cfg.output_names if n not in names]
                nm = self.choice(free) if free else f"out{k}"
            else:
                nm = f"out{k}"
            names.append(nm)
        # output order is part of the program
        order = list(self.draw(st.permutations(list(range(len(outs))))))
        spec = {"nodes": self.nodes,
                "outputs": [[names[q], outs[q]] for q in order]}
        if self.nan_mode:
            spec["nan_mode"] = True
        return spec, self.vals


@st.composite
def programs(draw, cfg: GenCfg | None = None):
    """-> (spec, vals): JSON program and the NumPy value of every node."""
    g = Gen(draw, cfg or GenCfg())
    return g.run()


# {{{ classification

def op_histogram(spec) -> dict[str, int]:
    h: dict[str, int] = {}
    for n in spec["nodes"]:
        h[n["op"]] = h.get(n["op"], 0) + 1
    return h


def features(spec, vals=None) -> dict[str, bool]:
    """Boolean features of a program, for the evidence distribution."""
    from pvf.ptbuild import node_refs
    nodes = spec["nodes"]
    uses = [0] * len(nodes)
    op_consumes_op = False
    for n in nodes:
        for r in node_refs(n):
            uses[r] += 1
            if n["op"] not in ("placeholder", "data") and nodes[r]["op"] not in (
                    "placeholder", "data", "sizeparam"):
                op_consumes_op = True
    ops = [n for n in nodes if n["op"] not in ("placeholder", "data",
                                               "sizeparam")]
    f = {
        "ops>=2": len(ops) >= 2,
        "op_consumes_op": op_consumes_op,
        "sharing": any(u >= 2 and nodes[i]["op"] not in (
            "placeholder", "data") for i, u in enumerate(uses)),
        "reduction": any(n["op"] in npref.REDUCE + ("einsum", "matmul", "dot",
                                                    "vdot", "csr_matmul")
                         for n in nodes),
        "multi_output": len(spec["outputs"]) >= 2,
        "nan_mode": bool(spec.get("nan_mode")),
        "data_wrapper": any(n["op"] == "data" for n in nodes),
        "adv_index": any(n["op"] == "index" and any(
            it[0] == "arr" for it in n["p"]["idx"]) for n in nodes),
        "complex": any(n.get("p", {}).get("dtype", "").startswith("complex")
                       for n in nodes if n["op"] in ("placeholder", "data")),
        "loopy_call": any(n["op"] == "call_loopy" for n in nodes),
        "csr": any(n["op"] == "csr_matmul" for n in nodes),
        "output_is_input": any(nodes[i]["op"] in ("placeholder", "data")
                               for _, i in spec["outputs"]),
        "same_node_two_keys": len({i for _, i in spec["outputs"]})
        < len(spec["outputs"]),
    }
    if vals is not None:
        f["zero_size"] = any(isinstance(v.a, np.ndarray) and v.a.size == 0
                             for v in vals if v is not None)
        f["scalar_0d"] = any(isinstance(v.a, np.ndarray) and v.a.ndim == 0
                             for v in vals if v is not None)
    return f

# }}}
