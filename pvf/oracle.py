"""Shared oracles: run a program through pytato + generated C and compare with
the NumPy reference.  Every function returns None (held) or a Failure."""
from __future__ import annotations

import traceback
import warnings
from dataclasses import dataclass, field
from typing import Any

import numpy as np

from pvf import npref
from pvf.npref import Unsound, Val
from pvf.ptbuild import build_pt, eval_np, input_values


@dataclass
class Failure:
    kind: str                  # short class of the failure (bucket key part 1)
    detail: str                # human readable
    where: str = ""            # op / node / call site (bucket key part 2)
    extra: dict = field(default_factory=dict)

    def key(self) -> str:
        return f"{self.kind}|{self.where}"

    def to_json(self):
        return {"kind": self.kind, "where": self.where, "detail": self.detail,
                **({"extra": self.extra} if self.extra else {})}


class Skip(Exception):
    """Case is outside the sound fragment once pytato's declared dtypes are
    taken into account; counted, never a verdict."""


def exc_site(e: BaseException) -> str:
    """innermost frame inside pytato (or loopy) of an exception."""
    tb = traceback.extract_tb(e.__traceback__)
    site = ""
    for fr in tb:
        if "/pytato/" in fr.filename:
            site = f"{fr.filename.split('/pytato/')[-1]}:{fr.name}"
    if not site:
        for fr in tb:
            if "/loopy/" in fr.filename:
                site = f"loopy/{fr.filename.split('/loopy/')[-1]}:{fr.name}"
    return site


def compare_values(got: np.ndarray, ref: Val, *, mask=None,
                   slack: float = 4.0) -> str | None:
    """None if *got* agrees with *ref* under the stated tolerance rule:
    exact (bit for bit up to the sign of zero) when the reference is exact or
    integral/boolean, else |got-ref| <= slack*err_bound."""
    r = ref.a
    if got.shape != r.shape:
        return f"shape {got.shape} != reference {r.shape}"
    if got.size == 0:
        return None
    g = got
    if mask is not None:
        keep = ~mask
        g = g[keep]
        r = r[keep]
        if g.size == 0:
            return None
    if r.dtype.kind in "biu" or g.dtype.kind in "biu":
        if not np.array_equal(g, r):
            bad = np.argwhere(np.asarray(g != r))
            i = tuple(bad[0]) if bad.size else ()
            return (f"integer/bool mismatch at {i}: got {g[i] if g.ndim else g}"
                    f", reference {r[i] if r.ndim else r}")
        return None
    gn, rn = np.isnan(g), np.isnan(r)
    if not np.array_equal(gn, rn):
        return "NaN pattern differs"
    fin = ~rn
    gi, ri = np.isinf(g) & fin, np.isinf(r) & fin
    if not np.array_equal(gi, ri) or not np.array_equal(g[gi], r[ri]):
        return "infinity pattern differs"
    fin &= ~ri
    gf, rf = g[fin], r[fin]
    if gf.size == 0:
        return None
    with np.errstate(all="ignore"):
        diff = np.abs(gf.astype(np.complex128 if gf.dtype.kind == "c"
                                else np.float64)
                      - rf.astype(np.complex128 if rf.dtype.kind == "c"
                                  else np.float64))
    tol = slack * ref.err
    worst = float(np.max(diff))
    if worst > tol:
        k = int(np.argmax(diff))
        return (f"value mismatch: |got-ref|={worst:.3e} > tol={tol:.3e} "
                f"(got {gf.ravel()[k]!r}, reference {rf.ravel()[k]!r}, "
                f"exact={ref.exact})")
    return None


def declared_dtypes(prog) -> dict[int, np.dtype]:
    import pytato as pt
    res = {}
    for i, n in enumerate(prog.nodes):
        if isinstance(n, pt.Array):
            res[i] = n.dtype
    return res


def reference(spec, prog, alt=None) -> list[Val | None]:
    """NumPy values with every node re-typed to the dtype pytato declares."""
    try:
        return eval_np(spec, force_dtypes=declared_dtypes(prog), alt=alt)
    except (Unsound, npref.NpReject) as e:
        raise Skip(f"reference under declared dtypes: {e}") from e


def pad_masks(spec, vals) -> dict[int, np.ndarray]:
    """node index -> mask of formally undefined pad corners (propagation of
    the mask through later nodes is not attempted: such programs only compare
    outputs that are the pad node itself, otherwise they are skipped)."""
    masks = {}
    for i, n in enumerate(spec["nodes"]):
        if n["op"] == "pad":
            src = vals[n["args"][0][1]]
            m = npref.pad_corner_mask(src.a.shape, n["p"]["pad_width"],
                                      n["p"].get("constant_values"))
            if m is not None and m.any():
                cv = n["p"]["constant_values"]
                flat = [c for pair in cv for c in pair] if isinstance(
                    cv[0], list) else list(cv)
                if len(set(flat)) > 1:
                    masks[i] = m
    return masks


def run_c(spec, *, with_tags=True, output_order=None, dedup=True,
          prog=None, options=None):
    """build, generate, compile, execute.  -> (prog, kernel, results)"""
    import pytato as pt
    from pvf.cexec import generate_and_compile
    if prog is None:
        prog = build_pt(spec, with_tags=with_tags, output_order=output_order)
    outs = prog.dict_of_named_arrays()
    if dedup:
        outs = pt.transform.deduplicate(outs)
    knl = generate_and_compile(outs)
    res = knl(**{k: v for k, v in input_values(spec).items()
                 if k in knl.kernel.arg_dict})
    return prog, knl, res


def check_outputs(spec, prog, res: dict[str, np.ndarray], ref: list[Val],
                  *, slack=4.0) -> Failure | None:
    import pytato as pt
    masks = pad_masks(spec, ref)
    tainted = _tainted(spec, set(masks))
    want = [k for k, _ in spec["outputs"]]
    if sorted(res) != sorted(set(want)):
        return Failure("output-names", f"returned {sorted(res)}, expected "
                       f"{sorted(set(want))}", "names")
    for key, idx in spec["outputs"]:
        expr = prog.outputs[key]
        got = res[key]
        shape = tuple(int(s) for s in expr.shape)
        op = spec["nodes"][idx]["op"]
        if got.shape != shape:
            return Failure("output-shape", f"{key}: kernel returns {got.shape}, "
                           f"expression declares {shape}", op)
        if got.dtype != expr.dtype:
            return Failure("output-dtype", f"{key}: kernel returns {got.dtype}, "
                           f"expression declares {expr.dtype}", op)
        if idx in tainted and idx not in masks:
            continue
        msg = compare_values(got, ref[idx], mask=masks.get(idx), slack=slack)
        if msg:
            return Failure("value", f"{key} (node {idx}, {op}): {msg}", op)
    return None


def _tainted(spec, roots: set[int]) -> set[int]:
    from pvf.ptbuild import node_refs
    t = set(roots)
    for i, n in enumerate(spec["nodes"]):
        if any(r in t for r in node_refs(n)):
            t.add(i)
    return t


SUPPORTED_EXC_NOTE = "construction/codegen of a grammar program must not fail"


def c01_case(spec, *, permute=False, alt=None) -> tuple[Failure | None, dict]:
    """The C01 oracle on one program.  -> (failure, info)"""
    info: dict[str, Any] = {}
    with warnings.catch_warnings():
        warnings.simplefilter("ignore")
        try:
            prog = build_pt(spec)
        except Exception as e:  # noqa: BLE001
            return Failure("build-exception", f"{type(e).__name__}: {e}",
                           exc_site(e)), info
        try:
            ref = reference(spec, prog, alt)
        except Skip as s:
            info["skip"] = str(s)
            return None, info
        for i, n in enumerate(prog.nodes):
            v = ref[i]
            if v is not None and isinstance(v.a, np.ndarray) and hasattr(
                    n, "shape"):
                if tuple(n.shape) != v.a.shape:
                    return Failure("node-shape", f"node {i} "
                                   f"({spec['nodes'][i]['op']}): pytato "
                                   f"{n.shape} vs NumPy {v.a.shape}",
                                   spec["nodes"][i]["op"]), info
        try:
            prog, knl, res = run_c(spec, prog=prog)
        except Exception as e:  # noqa: BLE001
            from pvf.cexec import HarnessError
            if isinstance(e, HarnessError):
                raise
            return Failure("codegen-exception", f"{type(e).__name__}: "
                           f"{str(e)[:400]}", exc_site(e) or type(e).__name__
                           ), info
        f = check_outputs(spec, prog, res, ref)
        if f is not None:
            return f, info
        if permute and len(spec["outputs"]) >= 1:
            order = list(range(len(spec["outputs"])))[::-1]
            try:
                prog2, knl2, res2 = run_c(spec, output_order=order)
            except Exception as e:  # noqa: BLE001
                return Failure("codegen-exception-permuted",
                               f"{type(e).__name__}: {str(e)[:400]}",
                               exc_site(e)), info
            for k in res:
                if k not in res2 or not np.array_equal(res[k], res2[k],
                                                       equal_nan=True):
                    m = compare_values(res2[k], ref[dict(
                        (kk, ii) for kk, ii in spec["outputs"])[k]])
                    if m:
                        return Failure("output-order-dependence",
                                       f"{k}: {m}", "order"), info
            info["permuted"] = True
    return None, info
