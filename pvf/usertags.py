"""User-defined tags (importable by name, so they pickle across processes)."""
from __future__ import annotations

from dataclasses import dataclass

from pytools.tag import Tag, UniqueTag, tag_dataclass


@tag_dataclass
class PvfTag(Tag):
    name: str


@tag_dataclass
class PvfTag2(Tag):
    """Second, unrelated tag type."""
    name: str


@tag_dataclass
class PvfUniqueTag(UniqueTag):
    name: str
