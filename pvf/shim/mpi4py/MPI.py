"""A *simulated* ``mpi4py.MPI`` with an owned schedule.

What is modelled (exactly what ``pytato.distributed`` uses, plus a little slack):

* ``Comm.rank/size/Get_rank/Get_size``, ``barrier``, ``bcast``, ``gather``,
  ``allgather``, ``reduce``, ``allreduce`` (objects are pickled and unpickled
  as real mpi4py does for the lower-case methods; reductions are applied in
  rank order; ``Op.Create(fn, commute)`` user operations are called as
  ``fn(a, b, None)``),
* ``Comm.Isend/Irecv`` on NumPy buffers, ``Request.Wait/Test/Waitsome/Waitany/
  Waitall`` (class methods as in mpi4py).

Semantics
---------
Ranks are Python threads of one process.  Exactly one thread holds the *baton*
at any time: a rank runs until it reaches a blocking MPI call, hands the baton
back to the scheduler (the thread that called :meth:`World.run`) and is resumed
only when the call can complete.  Which runnable rank proceeds and which
non-empty subset of its completable requests ``Waitsome`` returns are
*choices*, answered by ``chooser.choose(n, kind, info) -> int in [0, n)``
(called only when ``n >= 2``).  Given the same answers a simulation is
bit-for-bit reproducible; there is no wall-clock anywhere.

Point-to-point: ``Isend`` posts a private copy of the buffer; ``Irecv``
registers (and poisons) the buffer.  Messages with equal (source, destination,
tag) match in posting order (MPI's non-overtaking rule).  A receive *can*
complete once matched; its buffer is written when the request is completed by a
``Wait*``/``Test`` call, never earlier.  A send completes when matched
(rendezvous, the strictest behaviour MPI allows).

Collectives: all ranks must issue the same sequence of collectives.  If a rank
finishes (returns or raises) without taking part in a collective others are
blocked in, those get :class:`PeerAborted` instead of hanging.

If no rank can proceed and some have not finished the state is a **deadlock**:
it is recorded (who waits for what) in ``SimResult.deadlock`` and every blocked
rank gets :class:`DeadlockError`.  No thread outlives :meth:`World.run`.

Two scheduling modes:

``por=True`` (default)
    Partial-order reduction.  The only transitions whose *timing* can influence
    a rank's behaviour are the returns of ``Waitsome``/``Waitany``/``Test``
    (everything else returns a value that does not depend on when it returns,
    and every transition only ever *adds* posted messages, i.e. enlarges what
    other ranks may complete).  So all other runnable transitions are executed
    eagerly, lowest rank first, without consulting the chooser; choices are (a)
    which of the ranks sitting in a completable ``Waitsome`` returns next and
    (b) with which non-empty subset.  Because delaying a ``Waitsome`` can only
    enlarge its completable set and every subset is offered, every sequence of
    ``Waitsome`` results that a real execution can observe is reachable.
``por=False``
    Every blocking call yields and every pick among >= 2 runnable ranks is a
    choice (used for randomised schedules).
"""
from __future__ import annotations

import pickle
import threading
import traceback
from typing import Any, Callable

import numpy as np

PVF_SIMULATED = True

ANY_SOURCE = -1
ANY_TAG = -1
PROC_NULL = -2
UNDEFINED = -32766
TAG_UB = 2 ** 30 - 1

_tls = threading.local()


# {{{ exceptions

class SimError(RuntimeError):
    """Base of the conditions only the simulator can report."""


class PeerAborted(SimError):
    """A collective cannot complete because a peer finished without taking
    part (real MPI would hang or be killed by the launcher)."""

    def __init__(self, msg, peer=None, peer_exc=None):
        super().__init__(msg)
        self.peer = peer
        self.peer_exc = peer_exc


class DeadlockError(SimError):
    """Raised inside every rank that is blocked when no rank can proceed."""


class LivelockError(SimError):
    """A rank exceeded the budget of MPI calls that make no progress."""


class CollectiveMismatch(SimError):
    """Ranks issued different collectives at the same position."""


# }}}


# {{{ reduction operations

class Op:
    def __init__(self, fn: Callable, commute: bool = True, name: str = "user",
                 user: bool = True):
        self.fn = fn
        self.commute = commute
        self.name = name
        self.user = user
        self.freed = False

    @classmethod
    def Create(cls, function, commute: bool = False) -> "Op":
        return cls(function, commute, getattr(function, "__name__", "user"))

    def Free(self) -> None:
        self.freed = True

    def __call__(self, a, b):
        if self.freed:
            raise SimError("use of a freed MPI.Op")
        if self.user:
            return self.fn(a, b, None)
        return self.fn(a, b)

    def __repr__(self):
        return f"<sim MPI.Op {self.name}>"


SUM = Op(lambda a, b: a + b, name="SUM", user=False)
PROD = Op(lambda a, b: a * b, name="PROD", user=False)
MAX = Op(lambda a, b: max(a, b), name="MAX", user=False)
MIN = Op(lambda a, b: min(a, b), name="MIN", user=False)
LAND = Op(lambda a, b: bool(a) and bool(b), name="LAND", user=False)
LOR = Op(lambda a, b: bool(a) or bool(b), name="LOR", user=False)

# }}}


class Status:
    def __init__(self):
        self.source = UNDEFINED
        self.tag = UNDEFINED

    def Get_source(self):
        return self.source

    def Get_tag(self):
        return self.tag


# {{{ requests

class Request:
    """state: 'posted' (unmatched) -> 'matched' -> 'inactive' (completed)."""

    def __init__(self, world: "World", owner: int, kind: str, peer: int,
                 tag: int, buf, serial: int):
        self.world = world
        self.owner = owner
        self.kind = kind          # 'send' | 'recv'
        self.peer = peer
        self.tag = tag
        self.buf = buf            # recv: destination array; send: private copy
        self.state = "posted"
        self.partner: Request | None = None
        self.serial = serial

    def describe(self) -> dict:
        d = {"kind": self.kind, "owner": self.owner, "peer": self.peer,
             "tag": self.tag, "state": self.state}
        return d

    # -- completion (called with the baton held by the owner)
    def _complete(self) -> None:
        assert self.state == "matched"
        if self.kind == "recv":
            src = self.partner.buf
            dst = self.buf
            if src.nbytes > dst.nbytes:
                self.state = "inactive"
                raise SimError(
                    f"MPI_ERR_TRUNCATE: message of {src.nbytes} bytes "
                    f"(src={self.peer}, tag={self.tag}) for a receive buffer of "
                    f"{dst.nbytes} bytes on rank {self.owner}")
            flat = dst.reshape(-1).view(np.uint8) if dst.size else None
            if src.nbytes:
                raw = np.frombuffer(src.tobytes(), dtype=np.uint8)
                flat[:raw.size] = raw
            self.world._note_delivery(self)
        self.state = "inactive"

    # -- instance methods
    def Wait(self, status=None) -> bool:
        w, r = self.world, self.owner
        w._enter(r)
        if self.state == "inactive":
            return True
        w._block(r, ("wait", self))
        self._complete()
        w.events.append(("wait", r, self.kind, self.peer, self.tag))
        return True

    wait = Wait

    def Test(self, status=None) -> bool:
        w, r = self.world, self.owner
        w._enter(r)
        if self.state == "inactive":
            return True
        w._block(r, ("test", self))
        if self.state == "matched":
            self._complete()
            w.events.append(("test", r, self.kind, self.peer, self.tag, True))
            return True
        w._spin(r)
        return False

    test = Test

    def Free(self) -> None:
        pass

    # -- class methods
    @classmethod
    def _ctx(cls, requests):
        for q in requests:
            if q is not None:
                return q.world, q.owner
        w = getattr(_tls, "world", None)
        if w is None:
            raise SimError("MPI.Request call outside a simulation")
        return w, _tls.rank

    @classmethod
    def Waitsome(cls, requests, statuses=None):
        reqs = list(requests)
        w, r = cls._ctx(reqs)
        w._enter(r)
        active = [i for i, q in enumerate(reqs)
                  if q is not None and q.state != "inactive"]
        if not active:
            # MPI: no active handles -> outcount = MPI_UNDEFINED -> None
            w._spin(r)
            w.events.append(("waitsome", r, None))
            return None
        for i in active:
            if reqs[i].owner != r:
                raise SimError("request waited on by a foreign rank")
        w._block(r, ("waitsome", [reqs[i] for i in active]))
        ready = [i for i in active if reqs[i].state == "matched"]
        assert ready, "scheduler resumed Waitsome with nothing completable"
        if len(ready) > 1:
            k = w._choose((1 << len(ready)) - 1, "subset",
                          {"rank": r, "ready": [(reqs[i].kind, reqs[i].peer,
                                                 reqs[i].tag) for i in ready]})
            mask = k + 1
        else:
            mask = 1
        chosen = [i for j, i in enumerate(ready) if (mask >> j) & 1]
        if len(chosen) > 1:
            # MPI does not specify the order of array_of_indices: it is a
            # choice too (all permutations up to three completions, beyond
            # that ascending / descending / the rotations)
            import itertools
            if len(chosen) <= 3:
                orders = list(itertools.permutations(chosen))
            else:
                orders = [tuple(chosen), tuple(reversed(chosen))] + [
                    tuple(chosen[j:] + chosen[:j])
                    for j in range(1, len(chosen))]
            k = w._choose(len(orders), "order", {"rank": r})
            chosen = list(orders[k])
        w.events.append(("waitsome", r, tuple((reqs[i].kind, reqs[i].peer,
                                               reqs[i].tag) for i in chosen),
                         len(ready)))
        for i in chosen:
            reqs[i]._complete()
        return chosen

    @classmethod
    def Waitany(cls, requests, status=None):
        reqs = list(requests)
        w, r = cls._ctx(reqs)
        w._enter(r)
        active = [i for i, q in enumerate(reqs)
                  if q is not None and q.state != "inactive"]
        if not active:
            w._spin(r)
            return UNDEFINED
        w._block(r, ("waitsome", [reqs[i] for i in active]))
        ready = [i for i in active if reqs[i].state == "matched"]
        k = w._choose(len(ready), "any", {"rank": r}) if len(ready) > 1 else 0
        reqs[ready[k]]._complete()
        return ready[k]

    @classmethod
    def Waitall(cls, requests, statuses=None) -> bool:
        reqs = [q for q in requests if q is not None]
        if not reqs:
            return True
        w, r = cls._ctx(reqs)
        w._enter(r)
        active = [q for q in reqs if q.state != "inactive"]
        if active:
            w._block(r, ("waitall", active))
            for q in active:
                q._complete()
        return True

    waitall = Waitall
    waitsome = Waitsome
    waitany = Waitany

# }}}


# {{{ communicator

class Comm:
    def __init__(self, world: "World", rank: int):
        self._world = world
        self._rank = rank

    # -- identity
    @property
    def rank(self) -> int:
        return self._rank

    @property
    def size(self) -> int:
        return self._world.size

    def Get_rank(self) -> int:
        return self._rank

    def Get_size(self) -> int:
        return self._world.size

    def __repr__(self):
        return f"<sim Comm rank {self._rank}/{self._world.size}>"

    # -- collectives (pickle based, as the lower-case mpi4py methods)
    def barrier(self) -> None:
        self._world._collective(self._rank, "barrier", 0, None)

    Barrier = barrier

    def bcast(self, obj=None, root: int = 0):
        return self._world._collective(self._rank, "bcast", root, obj)

    def gather(self, sendobj, root: int = 0):
        return self._world._collective(self._rank, "gather", root, sendobj)

    def allgather(self, sendobj):
        return self._world._collective(self._rank, "allgather", 0, sendobj)

    def reduce(self, sendobj, op: Op = SUM, root: int = 0):
        return self._world._collective(self._rank, "reduce", root, sendobj, op)

    def allreduce(self, sendobj, op: Op = SUM):
        return self._world._collective(self._rank, "allreduce", 0, sendobj, op)

    # -- point to point
    def Isend(self, buf, dest: int, tag: int = 0) -> Request:
        return self._world._isend(self._rank, buf, dest, tag)

    def Irecv(self, buf, source: int = ANY_SOURCE, tag: int = ANY_TAG
              ) -> Request:
        return self._world._irecv(self._rank, buf, source, tag)

    def Abort(self, errorcode: int = 0):
        raise SimError(f"MPI_Abort({errorcode}) on rank {self._rank}")


class _WorldProxy:
    """``MPI.COMM_WORLD``: the communicator of the simulation the calling
    thread belongs to."""

    def _get(self) -> Comm:
        w = getattr(_tls, "world", None)
        if w is None:
            raise SimError("MPI.COMM_WORLD used outside a simulation")
        return w.comms[_tls.rank]

    def __getattr__(self, name):
        return getattr(self._get(), name)


COMM_WORLD = _WorldProxy()

# }}}


# {{{ simulation

class FirstChooser:
    """Always option 0 (lowest rank; smallest Waitsome set)."""

    def choose(self, n: int, kind: str, info) -> int:
        return 0


class SimResult:
    def __init__(self, world: "World"):
        self.size = world.size
        self.results = list(world.results)
        self.excs = list(world.excs)
        self.tracebacks = list(world.tbs)
        self.deadlock = world.deadlock
        self.trace = list(world.trace)         # [(kind, n, choice)]
        self.events = list(world.events)
        self.steps = world.steps
        self.deliveries = list(world.deliveries)
        self.leftover = world._leftover()

    @property
    def choices(self) -> list[int]:
        return [c for _, _, c in self.trace]

    @property
    def ok(self) -> bool:
        return self.deadlock is None and all(e is None for e in self.excs)


class World:
    def __init__(self, size: int, chooser=None, *, por: bool = True,
                 max_steps: int = 200_000, max_spins: int = 2_000):
        if size < 1:
            raise ValueError("size")
        self.size = size
        self.chooser = chooser or FirstChooser()
        self.por = por
        self.max_steps = max_steps
        self.max_spins = max_spins
        self.comms = [Comm(self, r) for r in range(size)]
        self.state = ["new"] * size          # new | running | blocked | done
        self.waiting: list[Any] = [None] * size
        self.results: list[Any] = [None] * size
        self.excs: list[BaseException | None] = [None] * size
        self.tbs: list[str | None] = [None] * size
        self.ncoll = [0] * size
        self.colls: dict[int, dict] = {}
        self.unmatched_sends: dict[tuple, list[Request]] = {}
        self.unmatched_recvs: dict[tuple, list[Request]] = {}
        self.all_requests: list[Request] = []
        self.trace: list[tuple] = []
        self.events: list[tuple] = []
        self.deliveries: list[tuple] = []
        self.deadlock: dict | None = None
        self.dead = False
        self.dead_exc: list[BaseException | None] = [None] * size
        self.raise_on_resume: list[BaseException | None] = [None] * size
        self.spins = [0] * size
        self.steps = 0
        # batons: raw locks used as binary semaphores (strict alternation
        # between the scheduler and exactly one rank, so never released twice)
        self._go = [threading.Lock() for _ in range(size)]
        self._back = threading.Lock()
        for lk in (*self._go, self._back):
            lk.acquire()
        self._ran = False
        self.harness_error: BaseException | None = None

    # -- choices
    def _choose(self, n: int, kind: str, info) -> int:
        try:
            c = int(self.chooser.choose(n, kind, info))
            if not (0 <= c < n):
                raise SimError(f"chooser returned {c} for {n} options")
        except BaseException as e:  # noqa: BLE001
            # a failing chooser is a harness fault, not a rank's behaviour
            if self.harness_error is None:
                self.harness_error = e
            raise
        self.trace.append((kind, n, c))
        return c

    # -- rank side
    def _enter(self, r: int) -> None:
        if getattr(_tls, "world", None) is not self or _tls.rank != r:
            raise SimError("MPI call from a thread that is not this rank")
        if self.dead_exc[r] is not None:
            raise self.dead_exc[r]

    def _spin(self, r: int) -> None:
        self.spins[r] += 1
        if self.spins[r] > self.max_spins:
            raise LivelockError(
                f"rank {r}: more than {self.max_spins} MPI calls that cannot "
                "make progress (busy wait)")

    def _block(self, r: int, what) -> None:
        """Return when the operation described by *what* may complete."""
        if self.por:
            kind = what[0]
            if kind in ("wait", "waitall", "coll") and \
                    self._ready(r, what) == "go":
                return
        self.waiting[r] = what
        self.state[r] = "blocked"
        self._back.release()
        self._go[r].acquire()
        self.state[r] = "running"
        self.waiting[r] = None
        if self.dead_exc[r] is not None:
            raise self.dead_exc[r]
        e = self.raise_on_resume[r]
        if e is not None:
            self.raise_on_resume[r] = None
            raise e

    def _thread_main(self, r: int, fn) -> None:
        _tls.world = self
        _tls.rank = r
        self._go[r].acquire()
        self.state[r] = "running"
        try:
            if self.dead_exc[r] is not None:
                raise self.dead_exc[r]
            self.results[r] = fn(self.comms[r])
        except BaseException as e:  # noqa: BLE001
            self.excs[r] = e
            self.tbs[r] = traceback.format_exc()
        finally:
            self.events.append(("done", r, type(self.excs[r]).__name__
                                if self.excs[r] is not None else None))
            self.state[r] = "done"
            _tls.world = None
            self._back.release()

    # -- readiness of a blocked operation: 'go' | 'wait' | exception
    def _ready(self, r: int, what):
        kind = what[0]
        if kind == "coll":
            slot = self.colls[what[1]]
            if len(slot["vals"]) == self.size:
                return "go"
            for q in range(self.size):
                if self.state[q] == "done" and q not in slot["vals"]:
                    if self.excs[q] is not None:
                        return PeerAborted(
                            f"rank {r}: collective #{what[1]} ({slot['kind']}) "
                            f"cannot complete: rank {q} raised "
                            f"{type(self.excs[q]).__name__}", q, self.excs[q])
                    return PeerAborted(
                        f"rank {r}: collective #{what[1]} ({slot['kind']}) "
                        f"cannot complete: rank {q} returned without taking "
                        "part", q, None)
            return "wait"
        if kind == "wait":
            return "go" if what[1].state != "posted" else "wait"
        if kind == "waitall":
            return "go" if all(q.state != "posted" for q in what[1]) else "wait"
        if kind == "waitsome":
            return "go" if any(q.state == "matched" for q in what[1]) else "wait"
        if kind in ("test", "yield"):
            return "go"
        raise SimError(f"unknown wait {kind}")

    @staticmethod
    def _visible(what) -> bool:
        return what is not None and what[0] in ("waitsome", "test")

    # -- scheduler side
    def run(self, fn: Callable[[Comm], Any]) -> SimResult:
        if self._ran:
            raise SimError("a World runs once")
        self._ran = True
        if getattr(_tls, "world", None) is not None:
            raise SimError("nested simulations are not supported")
        threads = [threading.Thread(target=self._thread_main, args=(r, fn),
                                    name=f"pvf-simrank-{r}", daemon=True)
                   for r in range(self.size)]
        for t in threads:
            t.start()
        try:
            self._loop()
        finally:
            # whatever happened, unwind every rank
            self._kill_all(DeadlockError("simulation torn down"))
            for t in threads:
                t.join()
        assert not any(t.is_alive() for t in threads)
        if self.harness_error is not None:
            raise self.harness_error
        return SimResult(self)

    def _resume(self, r: int) -> None:
        self._go[r].release()
        self._back.acquire()

    def _kill_all(self, exc_proto: BaseException) -> None:
        for r in range(self.size):
            while self.state[r] != "done":
                if self.dead_exc[r] is None:
                    self.dead_exc[r] = type(exc_proto)(*exc_proto.args)
                self._resume(r)

    def _loop(self) -> None:
        while True:
            unfinished = [r for r in range(self.size) if self.state[r] != "done"]
            if not unfinished:
                return
            self.steps += 1
            if self.steps > self.max_steps:
                self.deadlock = {"kind": "step-budget", "steps": self.steps}
                self._kill_all(LivelockError("scheduler step budget exhausted"))
                return
            internal, visible = [], []
            for r in unfinished:
                if self.state[r] == "new":
                    internal.append(r)
                    continue
                st = self._ready(r, self.waiting[r])
                if st == "wait":
                    continue
                if isinstance(st, BaseException):
                    self.raise_on_resume[r] = st
                    internal.append(r)
                elif self._visible(self.waiting[r]):
                    visible.append(r)
                else:
                    internal.append(r)
            if not internal and not visible:
                self.deadlock = self._describe_deadlock(unfinished)
                self.dead = True
                self._kill_all(DeadlockError(
                    "deadlock: no rank can proceed; blocked ranks "
                    f"{unfinished}"))
                return
            if self.por:
                if internal:
                    r = internal[0]
                else:
                    k = self._choose(len(visible), "rank",
                                     {"runnable": list(visible)}) \
                        if len(visible) > 1 else 0
                    r = visible[k]
            else:
                cands = sorted(internal + visible)
                k = self._choose(len(cands), "rank", {"runnable": cands}) \
                    if len(cands) > 1 else 0
                r = cands[k]
            self._resume(r)

    def _describe_deadlock(self, unfinished) -> dict:
        ranks = {}
        edges = []
        for r in range(self.size):
            if self.state[r] == "done":
                ranks[r] = {"state": "done",
                            "raised": type(self.excs[r]).__name__
                            if self.excs[r] is not None else None}
                continue
            what = self.waiting[r]
            d: dict[str, Any] = {"state": "blocked", "in": what[0]}
            if what[0] == "coll":
                slot = self.colls[what[1]]
                d["collective"] = slot["kind"]
                d["index"] = what[1]
                d["missing"] = [q for q in range(self.size)
                                if q not in slot["vals"]]
                edges += [(r, q) for q in d["missing"]]
            else:
                reqs = [what[1]] if what[0] in ("wait", "test") else what[1]
                d["pending"] = [q.describe() for q in reqs
                                if q.state == "posted"]
                edges += [(r, q.peer) for q in reqs if q.state == "posted"]
            ranks[r] = d
        return {"kind": "deadlock", "ranks": ranks,
                "wait_for": sorted(set(edges)),
                "unmatched": self._leftover()}

    def _leftover(self) -> dict:
        return {
            "sends": [(q.owner, q.peer, q.tag)
                      for lst in self.unmatched_sends.values() for q in lst],
            "recvs": [(q.peer, q.owner, q.tag)
                      for lst in self.unmatched_recvs.values() for q in lst],
            "matched_uncompleted_recvs": [
                (q.peer, q.owner, q.tag) for q in self.all_requests
                if q.kind == "recv" and q.state == "matched"],
        }

    # -- collectives
    def _collective(self, r: int, kind: str, root: int, obj, op=None):
        self._enter(r)
        if not (0 <= root < self.size):
            raise SimError(f"invalid root {root}")
        n = self.ncoll[r]
        self.ncoll[r] += 1
        slot = self.colls.setdefault(
            n, {"kind": kind, "root": root, "vals": {}, "ops": {}})
        if slot["kind"] != kind or slot["root"] != root:
            raise CollectiveMismatch(
                f"rank {r} calls {kind}(root={root}) as its collective #{n}, "
                f"but others called {slot['kind']}(root={slot['root']})")
        data = pickle.dumps(obj, protocol=pickle.HIGHEST_PROTOCOL)
        slot["vals"][r] = data
        slot["ops"][r] = op
        self._block(r, ("coll", n))
        self.events.append(("coll", r, kind, n))
        vals = slot["vals"]
        if kind == "barrier":
            return None
        if kind == "bcast":
            return obj if r == root else pickle.loads(vals[root])
        if kind == "gather":
            if r != root:
                return None
            return [pickle.loads(vals[q]) for q in range(self.size)]
        if kind == "allgather":
            return [pickle.loads(vals[q]) for q in range(self.size)]
        if kind in ("reduce", "allreduce"):
            if kind == "reduce" and r != root:
                return None
            acc = pickle.loads(vals[0])
            for q in range(1, self.size):
                acc = op(acc, pickle.loads(vals[q]))
            return acc
        raise SimError(kind)

    # -- point to point
    def _check_p2p(self, r: int, peer, tag, what: str) -> None:
        if isinstance(peer, bool) or not isinstance(peer, (int, np.integer)):
            raise TypeError(f"{what}: rank must be an integer, got {peer!r}")
        if isinstance(tag, bool) or not isinstance(tag, (int, np.integer)):
            raise TypeError(f"{what}: tag must be an integer, got "
                            f"{type(tag).__name__} {tag!r}")
        if peer in (ANY_SOURCE, PROC_NULL) or tag == ANY_TAG:
            raise NotImplementedError(
                f"{what}: wildcards / PROC_NULL are not simulated")
        if not (0 <= peer < self.size):
            raise SimError(f"MPI_ERR_RANK: {what} with rank {peer} "
                           f"(size {self.size})")
        if not (0 <= tag <= TAG_UB):
            raise SimError(f"MPI_ERR_TAG: {what} with tag {tag}")

    def _isend(self, r: int, buf, dest, tag) -> Request:
        self._enter(r)
        self._check_p2p(r, dest, tag, "Isend")
        if isinstance(buf, (list, tuple)):
            buf = buf[0]
        data = np.array(buf, copy=True, order="C")
        q = Request(self, r, "send", int(dest), int(tag), data,
                    len(self.all_requests))
        self.all_requests.append(q)
        key = (r, int(dest), int(tag))
        self.events.append(("isend", r, int(dest), int(tag), data.shape,
                            str(data.dtype)))
        waiting = self.unmatched_recvs.get(key)
        if waiting:
            p = waiting.pop(0)
            q.partner, p.partner = p, q
            q.state = p.state = "matched"
        else:
            self.unmatched_sends.setdefault(key, []).append(q)
        return q

    def _irecv(self, r: int, buf, source, tag) -> Request:
        self._enter(r)
        self._check_p2p(r, source, tag, "Irecv")
        if isinstance(buf, (list, tuple)):
            buf = buf[0]
        if not isinstance(buf, np.ndarray) or not buf.flags.writeable \
                or not buf.flags.c_contiguous:
            raise TypeError("Irecv: need a writable C-contiguous ndarray")
        if buf.size:
            # poison: reading the buffer before completion is deterministic
            buf.reshape(-1).view(np.uint8)[:] = 0xA5
        q = Request(self, r, "recv", int(source), int(tag), buf,
                    len(self.all_requests))
        self.all_requests.append(q)
        key = (int(source), r, int(tag))
        self.events.append(("irecv", r, int(source), int(tag), buf.shape,
                            str(buf.dtype)))
        waiting = self.unmatched_sends.get(key)
        if waiting:
            p = waiting.pop(0)
            q.partner, p.partner = p, q
            q.state = p.state = "matched"
        else:
            self.unmatched_recvs.setdefault(key, []).append(q)
        return q

    def _note_delivery(self, q: Request) -> None:
        self.deliveries.append((q.peer, q.owner, q.tag, q.partner.serial,
                                q.serial))

# }}}


def run_world(size: int, fn: Callable[[Comm], Any], chooser=None, *,
              por: bool = True, **kw) -> SimResult:
    """Run ``fn(comm)`` on *size* simulated ranks."""
    return World(size, chooser, por=por, **kw).run(fn)


def Get_processor_name() -> str:
    return "pvf-sim"


def Is_initialized() -> bool:
    return True


def Is_finalized() -> bool:
    return False
