"""Simulated ``mpi4py`` (verification shim, see ``mpi4py.MPI``).

Importable as ``mpi4py`` when ``/verif/pvf/shim`` is first on ``sys.path``.
Ranks are Python threads of ONE process, scheduled one at a time by an explicit
choice sequence; nothing here talks to a real MPI library.
"""

__version__ = "0.pvf-sim"
PVF_SIMULATED = True


def get_include() -> str:  # pragma: no cover - API compatibility only
    raise RuntimeError("simulated mpi4py has no headers")
