"""Hand-parameterised graph families with heavy sharing (C13, C20):
ladders (exponentially many paths), diamonds, and a graph in which shared nodes
are used through every kind of edge.  A case is a small JSON description."""
from __future__ import annotations

import numpy as np


def build(desc):
    """-> (root: DictOfNamedArrays, info dict)"""
    fam = desc["family"]
    if fam == "ladder":
        return _ladder(desc)
    if fam == "diamond":
        return _diamond(desc)
    if fam == "edges":
        return _edges(desc)
    if fam == "merge":
        return _merge(desc)
    raise ValueError(fam)


def _merge(desc):
    """two inputs a, b of one type under identical sub-graphs; the b side is
    shared by several users.  A copying mapper that maps b to a must merge
    the two sides into one set of nodes (no equal-but-distinct results)."""
    import pytato as pt
    k = desc.get("users", 2)
    depth = desc.get("depth", 1)
    a = pt.make_placeholder("a", (3,), np.float64)
    b = a if desc.get("merged") else pt.make_placeholder("b", (3,), np.float64)

    def side(x):
        y = x + 1
        for d in range(depth - 1):
            y = pt.sin(y) * (d + 2)
        return y
    sa, sb = side(a), side(b)
    out = sa
    for j in range(k):
        out = out + sb * (j + 2)
    outs = {"out": out}
    if desc.get("second_output"):
        outs["sb"] = sb * 7
    return pt.make_dict_of_named_arrays(outs), {"dup": False, "merge": (b, a)}


def _step(x, k: int, variant: int):
    """one ladder rung: a node using x twice (kinds cycle)"""
    import pytato as pt
    r = (k + variant) % 7
    if r == 0:
        return x + x
    if r == 1:
        return pt.stack([x, x])[0]
    if r == 2:
        return pt.where(pt.less(x, 0), x, x)
    if r == 3:
        return pt.einsum("i,i->i", x, x)
    if r == 4:
        return pt.concatenate([x, x])[:x.shape[0]]
    if r == 5:
        return pt.maximum(x, x * 1)
    return (x * x).reshape(x.shape[0])


def _ladder(desc):
    import pytato as pt
    depth = desc["depth"]
    variant = desc.get("variant", 0)
    x = pt.make_placeholder("x", (3,), np.float64)
    y = x
    for k in range(depth):
        y = _step(y, k, variant)
    outs = {"out": y}
    if desc.get("dup"):
        x2 = pt.make_placeholder("x", (3,), np.float64)
        z = x2
        for k in range(depth):
            z = _step(z, k, variant)
        outs["dup"] = z + 1
    if desc.get("second_output"):
        outs["half"] = y + 1
    return pt.make_dict_of_named_arrays(outs), {"dup": bool(desc.get("dup"))}


def _diamond(desc):
    import pytato as pt
    n = desc["n"]
    a = pt.make_placeholder("a", (2, 2), np.float64)
    cur = a
    for k in range(n):
        b = cur + 1
        c = cur * 2
        cur = b @ c if k % 3 == 0 else (b - c).T if k % 3 == 1 else \
            pt.roll(b, 1, 0) + c
    outs = {"out": cur}
    if desc.get("dup"):
        a2 = pt.make_placeholder("a", (2, 2), np.float64)
        outs["dup"] = (a2 + 1) - (a + 1)
    return pt.make_dict_of_named_arrays(outs), {"dup": bool(desc.get("dup"))}


EDGE_KINDS = ("operand", "shape", "index", "csr", "send", "call", "dict",
              "loopy", "slice", "stack", "einsum", "named", "nested")


def _edges(desc):
    """two shared nodes, s (an int32 vector expression) and m (an affine
    size expression), each used through several kinds of edge."""
    import pytato as pt
    kinds = desc.get("kinds", list(EDGE_KINDS))
    n = pt.make_size_param("n")
    m = n + 1                                   # shared size expression
    i0 = pt.make_placeholder("i0", (4,), np.int32)
    s = i0 % 4                                  # shared int vector, in [0, 4)
    xf = pt.make_placeholder("xf", (4,), np.float64)
    outs = {}
    if "operand" in kinds:
        outs["operand"] = s + s * 2
        outs["m_operand"] = m * 2
    if "shape" in kinds:
        p = pt.make_placeholder("p", (m, 4), np.float64)   # m as a shape comp
        outs["shape"] = p + xf
        outs["full_shape"] = pt.zeros((m,), np.float64) + 1
        outs["stack_sym"] = pt.stack([p, p * 2])       # derived shape (2, m, 4)
        outs["concat_sym"] = pt.concatenate([p, p], axis=1)
        # Reshape whose newshape holds array-valued components: m itself, and
        # two equal but distinct derived expressions (shape of a slice)
        outs["expand_sym"] = pt.expand_dims(p, 0) * 2
        # a size parameter that is reachable ONLY through the shape of index
        # lambdas that also have operands (no operand carries it)
        kb = pt.make_size_param("kb")
        xb = pt.make_placeholder("xb", (4,), np.float64)
        outs["bcast_sym"] = pt.broadcast_to(xb, (kb, 4))
        # a data wrapper whose shape is symbolic (its shape is a field that
        # copying mappers must map like everyone else's)
        dw = (pt.make_placeholder("dwp", (m,), np.float64)
              if desc.get("no_data")
              else pt.make_data_wrapper(np.arange(4.0), shape=(m,)))
        outs["dw_sym"] = dw * 2
        if not desc.get("dup"):
            # (with deliberate duplicates nodes are identified by equality,
            # and the slice's freshly computed shape would be taken for the
            # equal expressions stored in newshape)
            y3 = pt.make_placeholder("y3", (m, m, 2), np.float64)
            outs["expand_sq"] = pt.expand_dims(y3[:, :, 0], 0)
    if "index" in kinds:
        outs["index"] = xf[s] + xf[s[::-1]]
    if "slice" in kinds:
        q = pt.make_placeholder("q", (m,), np.float64)
        outs["slice"] = q[::-1]        # NormalizedSlice.start is the array m-1
    if "csr" in kinds:
        ev = pt.make_placeholder("ev", (4,), np.float64)
        rs = (pt.make_placeholder("rs", (3,), np.int32) if desc.get("no_data")
              else pt.make_data_wrapper(np.array([0, 2, 4], dtype=np.int32)))
        mat = pt.make_csr_matrix((2, 4), ev, s, rs)
        outs["csr"] = mat @ xf
        mat2 = pt.make_csr_matrix((2, 4), s.astype(np.float64), s, rs)
        outs["csr2"] = mat2 @ xf
    if "send" in kinds:
        outs["send"] = pt.staple_distributed_send(s, dest_rank=1, comm_tag=7,
                                                  stapled_to=xf * 2)
        outs["send2"] = pt.staple_distributed_send(xf, dest_rank=1, comm_tag=8,
                                                   stapled_to=s)
    if "send" in kinds and desc.get("dup"):
        # a duplicate that is reachable only through a send payload
        # (in both orders of traversal)
        outs["send_dup_payload"] = pt.staple_distributed_send(
            (xf + 7) * 1, dest_rank=1, comm_tag=11, stapled_to=xf * 5)
        outs["send_dup_other"] = (xf + 7) * 2
        outs["a_first"] = (xf + 9) * 2
        outs["z_payload_later"] = pt.staple_distributed_send(
            (xf + 9) * 1, dest_rank=1, comm_tag=12, stapled_to=xf * 6)
    if "send" in kinds:
        # payload and pass-through are one and the same node
        xf3 = xf * 3
        outs["send_same"] = pt.staple_distributed_send(
            xf3, dest_rank=1, comm_tag=9, stapled_to=xf3)
    if "send" in kinds and "shape" in kinds:
        # a receive with a symbolic shape: its size parameter is reachable
        # only through the receive's shape
        kr = pt.make_size_param("kr")
        rv = pt.make_distributed_recv(src_rank=0, comm_tag=13,
                                      shape=(kr, 4), dtype=np.float64)
        outs["recv_sym"] = rv.T
    if "nested" in kinds:
        # nested, shared functions: the first function met (f1) calls g,
        # whose body contains a call itself, and g is called again later
        def h(a):
            return a * 2

        def g(a):
            return pt.trace_call(h, a) + 1

        def f1(a):
            return pt.trace_call(g, a) * 3

        def f2(a):
            return pt.trace_call(g, a) - 1
        outs["nested"] = pt.trace_call(f1, xf) + pt.trace_call(f2, xf)
    if "call" in kinds:
        def f(a, b):
            # (the body holds equal but distinct subexpressions: a + 1 twice)
            return (a + 1) * b + (a + 1), a * 2
        r0, r1 = pt.trace_call(f, s, s)
        outs["call0"] = r0
        outs["call1"] = r1 + s
        # a second call site of the very same FunctionDefinition object
        call = r0._container
        again = call.function(**{k: pt.roll(v, 1)
                                 for k, v in call.bindings.items()})
        outs["call_same_def"] = again[1] - again[0]
        if desc.get("call_twice"):
            # a second trace of the same function: an equal but distinct
            # FunctionDefinition (C20: counted as a duplicate)
            q0, q1 = pt.trace_call(f, s, s)
            outs["call2"] = q0 * 3 + q1
    if "dict" in kinds:
        outs["dict"] = s
    if "named" in kinds:
        inner = pt.make_dict_of_named_arrays({"k": s, "l": xf})
        outs["named"] = inner["k"] + 1
    if "loopy" in kinds:
        from pvf.lpkernels import _make
        from pytato.loopy import call_loopy
        x2 = pt.stack([xf, s.astype(np.float64)])        # (2, 4)
        knl = _make("twoout", (2, 4), np.dtype(np.float64))
        lc = call_loopy(knl, {"x": x2, "a": 0.5})
        outs["loopy_rs"] = lc["rs"]
        outs["loopy_cs"] = lc["cs"] + xf
    if "stack" in kinds:
        outs["stack"] = pt.stack([s, s, i0])
        outs["concat"] = pt.concatenate([s, i0, s])
    if "einsum" in kinds:
        outs["einsum"] = pt.einsum("i,i,j->j", s, s, xf)
    if desc.get("dup"):
        s_dup = pt.make_placeholder("i0", (4,), np.int32) % 4
        outs["dup"] = s_dup + 1
    return pt.make_dict_of_named_arrays(outs), {"dup": bool(desc.get("dup")),
                                                "shared": (s, m)}


def env(desc):
    """input values for the reference evaluator"""
    return {"x": np.array([1.0, -2.0, 0.5]), "a": np.array([[1.0, 2], [3, 4]]),
            "n": 3, "i0": np.array([1, 6, 3, 8], dtype=np.int32),
            "xf": np.array([0.5, 1.5, -2.0, 4.0]),
            "p": np.arange(16.0).reshape(4, 4), "q": np.arange(4.0),
            "y3": np.arange(32.0).reshape(4, 4, 2), "dwp": np.arange(4.0),
            "ev": np.array([1.0, 2.0, 3.0, 4.0]),
            "rs": np.array([0, 2, 4], dtype=np.int32)}
