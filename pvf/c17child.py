"""Child interpreter for C17: reads program specs, emits the text of
everything pytato generates for them.  Run with a chosen PYTHONHASHSEED."""
from __future__ import annotations

import hashlib
import json
import re
import sys
import warnings

HEX = re.compile(r"0x[0-9a-fA-F]+")


def norm_exc(e) -> str:
    # (messages print tag sets and the like: only the kind and the place of
    # an exception are compared)
    from pvf.oracle import exc_site
    return f"exception:{type(e).__name__}@{exc_site(e)}"


def describe_kernel(t_unit) -> str:
    """order-preserving description of the kernel pytato built (not loopy's
    own str(), whose set printing is loopy's business)"""
    import loopy as lp
    k = t_unit.default_entrypoint
    lines = []
    for a in k.args:
        shape = getattr(a, "shape", None)
        lines.append(f"arg {a.name} {type(a).__name__} {a.dtype} {shape} "
                     f"out={getattr(a, 'is_output', None)} "
                     f"tags={sorted(map(repr, getattr(a, 'tags', None) or []))}")
    for n, t in k.temporary_variables.items():
        lines.append(f"temp {n} {t.dtype} {t.shape} {t.address_space}")
    for d in k.domains:
        lines.append(f"domain {d}")
    for n, s in k.substitutions.items():
        lines.append(f"subst {n} {s.arguments} {s.expression}")
    for insn in k.instructions:
        if isinstance(insn, lp.Assignment):
            body = f"{insn.assignee} <- {insn.expression}"
        elif isinstance(insn, lp.CallInstruction):
            body = f"{insn.assignees} <- {insn.expression}"
        else:
            body = type(insn).__name__
        lines.append(f"insn {insn.id} {body} within={sorted(insn.within_inames)} "
                     f"deps={sorted(insn.depends_on)}")
    for name in sorted(t_unit.callables_table):
        if name != k.name:
            lines.append(f"callable {name}")
    return "\n".join(lines)


def artefacts(spec, with_tags=True) -> dict[str, str]:
    import pytato as pt
    import loopy as lp
    from pvf.cexec import c_target
    from pvf.ptbuild import build_pt
    out = {}
    try:
        if "sym" in spec:
            # a program with symbolic shapes (pvf/props/c16.py)
            from pvf.props import c16
            env, _ = c16.build_sym(spec["sym"])
            g = pt.transform.deduplicate(pt.make_dict_of_named_arrays(
                {f"out{k}": env[i]
                 for k, i in enumerate(spec["sym"]["outputs"])}))
        else:
            prog = build_pt(spec, with_tags=with_tags)
            g = pt.transform.deduplicate(prog.dict_of_named_arrays())
    except Exception as e:  # noqa: BLE001
        return {"build": norm_exc(e)}
    try:
        bp = pt.generate_loopy(g, target=c_target())
        out["kernel"] = describe_kernel(bp.program)
        out["bound"] = ",".join(bp.bound_arguments)
        try:
            out["c"] = lp.generate_code_v2(bp.program).device_code()
        except Exception as e:  # noqa: BLE001
            out["c"] = norm_exc(e)
    except Exception as e:  # noqa: BLE001
        out["kernel"] = norm_exc(e)
    try:
        from pvf.props.c14 import generate
        bpy = generate(g)
        out["python"] = bpy.program
        out["python_args"] = ",".join(bpy.expected_arguments) if not isinstance(
            bpy.expected_arguments, (set, frozenset)) else ",".join(
                sorted(bpy.expected_arguments))
    except Exception as e:  # noqa: BLE001
        out["python"] = norm_exc(e)
    return out


def dist_artefacts(case) -> dict[str, str]:
    try:
        from pvf.props.c17 import dist_summary
    except ImportError:
        return {}
    try:
        return dist_summary(case)
    except Exception as e:  # noqa: BLE001
        return {"dist": norm_exc(e)}


def churn(specs) -> None:
    """a different allocation history: build and discard other graphs, leave
    garbage of odd sizes behind"""
    import pytato as pt
    import numpy as np
    junk = []
    for i in range(137):
        junk.append(pt.make_placeholder(f"j{i}", (i % 5 + 1,), np.float64) + i)
    for spec in reversed(specs[: max(1, len(specs) // 2)]):
        try:
            artefacts(spec)
        except Exception:  # noqa: BLE001
            pass
    del junk[::2]
    globals()["_keep"] = junk


def main() -> None:
    inp, outp, history = sys.argv[1], sys.argv[2], sys.argv[3]
    warnings.simplefilter("ignore")
    with open(inp) as f:
        cases = json.load(f)
    if history == "churn":
        churn([c["spec"] for c in cases if "spec" in c])
    res = []
    order = list(range(len(cases)))
    if history == "reverse":
        # the same programs in the opposite order: whatever one code
        # generation leaves behind in the process reaches other programs
        order.reverse()
    slots = [None] * len(cases)
    for idx in order:
        c = cases[idx]
        if "spec" in c:
            a = artefacts(c["spec"])
            b = artefacts(c["spec"])
            twice = [k for k in a if a[k] != b.get(k)]
        else:
            a = dist_artefacts(c)
            b = dist_artefacts(c)
            twice = [k for k in a if a[k] != b.get(k)]
        slots[idx] = {"artefacts": a, "twice_differs": twice}
    res = slots
    with open(outp, "w") as f:
        json.dump(res, f)
    print("PVF-CHILD-OK", len(res),
          hashlib.sha256(json.dumps(res, sort_keys=True).encode()).hexdigest())


if __name__ == "__main__":
    main()
