"""Bounded structural minimiser for JSON programs (DESIGN.md 2)."""
from __future__ import annotations

import copy
from typing import Callable

import numpy as np

from pvf.ptbuild import eval_np, gc, node_refs


def _value_to_input(val, name: str):
    """Input node carrying *val* (a Val with ndarray) exactly, or None."""
    a = val.a
    if not isinstance(a, np.ndarray):
        return None
    d = a.dtype
    flat = a.ravel()
    if d.kind == "b":
        values = [bool(x) for x in flat]
        scale = 0
    elif d.kind in "iu":
        values = [int(x) for x in flat]
        scale = 0
    else:
        if not val.exact:
            return None
        scale = val.scale or 0
        m = 2.0 ** scale

        def enc(x):
            if np.isnan(x):
                return "nan"
            if np.isinf(x):
                return "inf" if x > 0 else "-inf"
            return int(round(float(x) * m))
        if d.kind == "c":
            values = [[enc(x.real), enc(x.imag)] for x in flat]
        else:
            values = [enc(x) for x in flat]
    return {"op": "placeholder",
            "p": {"name": name, "shape": list(a.shape), "dtype": str(d),
                  "values": values, "scale": scale}}


def minimize_spec(spec, still_fails: Callable[[dict], bool],
                  budget: int = 80) -> dict:
    """Greedy reduction; *still_fails(spec)* must be True for the result."""
    used = [0]

    def test(s):
        if used[0] >= budget:
            return False
        used[0] += 1
        try:
            return still_fails(s)
        except Exception:  # noqa: BLE001
            return False

    best = gc(copy.deepcopy(spec))

    # 1. single output
    if len(best["outputs"]) > 1:
        for out in list(best["outputs"]):
            cand = dict(best)
            cand["outputs"] = [out]
            cand = gc(cand)
            if test(cand):
                best = cand
                break

    # 2. drop tags
    if any(n.get("tags") for n in best["nodes"]):
        cand = copy.deepcopy(best)
        for n in cand["nodes"]:
            n.pop("tags", None)
        if test(cand):
            best = cand

    # 3. replace op nodes by inputs carrying their reference value
    changed = True
    while changed and used[0] < budget:
        changed = False
        try:
            vals = eval_np(best)
        except Exception:  # noqa: BLE001
            break
        names = {n["p"].get("name") for n in best["nodes"]
                 if n["op"] in ("placeholder", "sizeparam")}
        order = sorted(range(len(best["nodes"])),
                       key=lambda i: -len(_ancestors(best, i)))
        for i in order:
            n = best["nodes"][i]
            if n["op"] in ("placeholder", "data", "sizeparam", "item",
                           "call_loopy"):
                continue
            if not _ancestors(best, i):
                continue
            k = 0
            while f"m{k}" in names:
                k += 1
            repl = _value_to_input(vals[i], f"m{k}")
            if repl is None:
                continue
            cand = copy.deepcopy(best)
            cand["nodes"][i] = repl
            cand = gc(cand)
            if len(cand["nodes"]) < len(best["nodes"]) and test(cand):
                best = cand
                changed = True
                break

    # 4. outputs that are the failing node's ancestors: try promoting an
    #    interior node to be the only output
    if used[0] < budget:
        out_idx = best["outputs"][0][1]
        for i in sorted(_ancestors(best, out_idx), reverse=True):
            if best["nodes"][i]["op"] in ("placeholder", "data", "sizeparam",
                                          "call_loopy"):
                continue
            cand = dict(best)
            cand["outputs"] = [[best["outputs"][0][0], i]]
            cand = gc(cand)
            if test(cand):
                best = cand
                break
    return best


def _ancestors(spec, i: int) -> set[int]:
    seen: set[int] = set()
    stack = list(node_refs(spec["nodes"][i]))
    while stack:
        j = stack.pop()
        if j in seen:
            continue
        seen.add(j)
        stack.extend(node_refs(spec["nodes"][j]))
    return seen
