"""pytato interpretation of the program grammar, and the spec walker shared by
both interpreters.  The JSON program is described in DESIGN.md 4.1."""
from __future__ import annotations

import hashlib
import json
from dataclasses import dataclass
from typing import Any

import numpy as np

from pvf import npref
from pvf.npref import Val, dt

# {{{ spec helpers


def canon(spec) -> str:
    return json.dumps(spec, sort_keys=True, separators=(",", ":"))


def spec_hash(spec) -> str:
    return hashlib.sha256(canon(spec).encode()).hexdigest()[:16]


def decode_arg(a, env):
    tag = a[0]
    if tag == "n":
        return env[a[1]]
    if tag == "py":
        return a[1]
    if tag == "pyc":
        return complex(a[1], a[2])
    if tag == "np":
        return dt(a[1]).type(a[2])
    if tag == "npc":
        return dt(a[1]).type(complex(a[2], a[3]))
    raise ValueError(tag)


def node_refs(node) -> list[int]:
    return [a[1] for a in node.get("args", []) if a[0] == "n"]


def reachable(spec, roots=None) -> list[int]:
    roots = [i for _, i in spec["outputs"]] if roots is None else roots
    seen = set()
    stack = list(roots)
    while stack:
        i = stack.pop()
        if i in seen:
            continue
        seen.add(i)
        stack.extend(node_refs(spec["nodes"][i]))
        for sp in spec["nodes"][i].get("p", {}).get("shape_refs", []) or []:
            stack.append(sp)
    return sorted(seen)


def gc(spec):
    """Drop unreachable nodes, renumber."""
    keep = reachable(spec)
    remap = {old: new for new, old in enumerate(keep)}

    def fix(a):
        return ["n", remap[a[1]]] if a[0] == "n" else a

    nodes = []
    for old in keep:
        n = dict(spec["nodes"][old])
        if "args" in n:
            n["args"] = [fix(a) for a in n["args"]]
        if n.get("p", {}).get("shape_refs"):
            n["p"] = dict(n["p"])
            n["p"]["shape_refs"] = [remap[i] for i in n["p"]["shape_refs"]]
        nodes.append(n)
    out = dict(spec)
    out["nodes"] = nodes
    out["outputs"] = [[k, remap[i]] for k, i in spec["outputs"]]
    return out

# }}}


# {{{ NumPy side

INPUT_OPS = ("placeholder", "data", "sizeparam")


def np_input(node) -> Val:
    p = node["p"]
    if node["op"] == "sizeparam":
        return Val(np.asarray(np.intp(p["value"])), 0.0, 0, False)
    return npref.make_input(p["values"], p["dtype"], p["shape"],
                            p.get("scale", 0))


def _np_fncall(spec, node, args, fns) -> Val:
    """NumPy value of a function call node: the callee's body evaluated with
    its parameters bound to the argument values."""
    fn = fns[node["p"]["fn"]]
    body = fn["spec"]
    params = [n["p"]["name"] for n in body["nodes"] if n["op"] == "placeholder"]
    bind = {}
    names = node["p"].get("kw") or [None] * len(args)
    pos = 0
    for a, nm in zip(args, names):
        if nm is None:
            bind[params[pos]] = a
            pos += 1
        else:
            bind[nm] = a
    for n in body["nodes"]:
        if n["op"] == "placeholder":
            v = bind.get(n["p"]["name"])
            if v is None:
                raise npref.NpReject("missing argument")
            if tuple(v.a.shape) != tuple(n["p"]["shape"]) or str(
                    v.a.dtype) != n["p"]["dtype"]:
                raise npref.NpReject("argument shape/dtype mismatch")
    vals = eval_np(body, bind=bind, fns=fns)
    return Val({k: vals[i] for k, i in body["outputs"]})


def eval_np(spec, force_dtypes=None, upto=None, alt=None, bind=None,
            fns=None) -> list[Val | None]:
    """NumPy value of every node.  *force_dtypes*: index -> dtype the pytato
    expression declares (None entries / missing: model table).  *alt*: index ->
    callable(args) -> Val replacing the semantics of single nodes (used only
    to decide whether a failure is *exactly* a listed known finding)."""
    vals: list[Val | None] = []
    fns = spec.get("fns") if fns is None else fns
    for i, node in enumerate(spec["nodes"]):
        if upto is not None and i > upto:
            break
        op = node["op"]
        if op in INPUT_OPS:
            if bind is not None and op == "placeholder" \
                    and node["p"]["name"] in bind:
                vals.append(bind[node["p"]["name"]])
            else:
                vals.append(np_input(node))
            continue
        args = [decode_arg(a, vals) for a in node.get("args", [])]
        if op == "fncall":
            vals.append(_np_fncall(spec, node, args, fns))
            continue
        fd = None
        if force_dtypes is not None:
            fd = force_dtypes.get(i) if isinstance(force_dtypes, dict) \
                else force_dtypes[i]
        if alt is not None and i in alt:
            v = alt[i](args)
            if fd is not None:
                v = npref.coerce(v, fd)
            vals.append(v)
            continue
        vals.append(npref.apply(op, args, node.get("p"), force_dtype=fd))
    return vals

# }}}


# {{{ pytato side

_user_tag_cache: dict[str, Any] = {}


def user_tag(name: str):
    """A user-defined (unique) tag type instance carrying *name*."""
    from pvf.usertags import PvfTag
    return PvfTag(name)


def make_tag(desc):
    import pytato as pt
    from pytato.target.loopy import ImplSubstitution
    kind = desc[0]
    if kind == "ImplStored":
        return pt.tags.ImplStored()
    if kind == "ImplInlined":
        return pt.tags.ImplInlined()
    if kind == "ImplSubstitution":
        return ImplSubstitution()
    if kind == "Named":
        return pt.tags.Named(desc[1])
    if kind == "PrefixNamed":
        return pt.tags.PrefixNamed(desc[1])
    if kind == "User":
        return user_tag(desc[1])
    if kind == "AssumeNonNegative":
        return pt.tags.AssumeNonNegative()
    if kind == "ForceValueArg":
        return pt.tags.ForceValueArgTag()
    raise ValueError(kind)


def apply_tags(ary, tags):
    """tags: list of descriptors; ["Axis", i, name] tags an axis,
    ["Redn", name] tags every reduction descriptor."""
    import pytato as pt
    for t in tags or []:
        if t[0] == "Axis":
            # (negative axis numbers count from the end, as everywhere else)
            if isinstance(ary, pt.Array) and -ary.ndim <= t[1] < ary.ndim:
                ary = ary.with_tagged_axis(t[1], user_tag(t[2]))
        elif t[0] == "Redn":
            if isinstance(ary, pt.IndexLambda):
                for v in sorted(ary.var_to_reduction_descr):
                    ary = ary.with_tagged_reduction(v, user_tag(t[1]))
            elif isinstance(ary, pt.Einsum):
                for ax in sorted(ary.redn_axis_to_redn_descr,
                                 key=lambda a: a.dim):
                    ary = ary.with_tagged_reduction(ax, user_tag(t[1]))
            elif isinstance(ary, pt.array.CSRMatmul):
                ary = ary.with_tagged_reduction(user_tag(t[1]))
        else:
            if isinstance(ary, pt.Array):
                ary = ary.tagged(make_tag(t))
    return ary


def _shape_from(p, env):
    """Static or symbolic shape: entries are ints or
    ["aff", const, [[node_idx, coeff], ...]]."""
    out = []
    for s in p["shape"]:
        if isinstance(s, list):
            c = s[1]
            e = None
            for idx, coeff in s[2]:
                term = env[idx] * coeff if coeff != 1 else env[idx]
                e = term if e is None else e + term
            if c != 0 or e is None:
                e = c if e is None else e + c
            out.append(e)
        else:
            out.append(int(s))
    return tuple(out)


def pt_input(node, env, data_cache=None):
    import pytato as pt
    p = node["p"]
    op = node["op"]
    if op == "sizeparam":
        return pt.make_size_param(p["name"])
    if op == "placeholder":
        ary = pt.make_placeholder(p["name"], _shape_from(p, env), dt(p["dtype"]))
    else:
        v = npref.make_input(p["values"], p["dtype"], p["shape"],
                             p.get("scale", 0))
        data = v.a.copy()
        view = p.get("view")
        if view is not None and data_cache is not None:
            # several wrappers looking at one buffer through different
            # layouts (C05: deduplicate_data_wrappers must tell them apart)
            base = data_cache.get(("arena", view["arena"]))
            if base is None:
                base = npref.make_input(view["base_values"], p["dtype"],
                                        view["base_shape"], p.get("scale", 0)
                                        ).a.copy()
                data_cache[("arena", view["arena"])] = base
            kind = view["kind"]
            vdata = (base if kind == "plain" else base.T if kind == "T"
                     else base[::2] if kind == "step2"
                     else base[:base.shape[0] // 2] if kind == "prefix"
                     else None)
            assert vdata is not None and vdata.shape == data.shape and \
                np.array_equal(vdata, data, equal_nan=True), "bad view spec"
            data_cache.setdefault("all", []).append(vdata)
            return pt.make_data_wrapper(vdata)
        if data_cache is not None:
            share = p.get("share")
            if share is not None:
                data = data_cache.setdefault(("share", share), data)
            data_cache.setdefault("all", []).append(data)
        ary = pt.make_data_wrapper(data)
    return ary


def _idx(items, args):
    idx = []
    for it in items:
        tag = it[0]
        if tag == "int":
            idx.append(int(it[1]))
        elif tag == "slice":
            idx.append(slice(it[1], it[2], it[3]))
        elif tag == "ellipsis":
            idx.append(Ellipsis)
        elif tag == "arr":
            idx.append(args[it[1]])
        elif tag == "none":
            idx.append(None)
        else:
            raise ValueError(tag)
    return tuple(idx)


def _tup(x):
    if isinstance(x, list):
        return tuple(_tup(i) for i in x)
    return x


def apply_pt(op: str, args, p):
    import operator

    import pytato as pt
    p = p or {}
    binops = {"add": operator.add, "sub": operator.sub, "mul": operator.mul,
              "truediv": operator.truediv, "floordiv": operator.floordiv,
              "mod": operator.mod, "pow": operator.pow, "and": operator.and_,
              "or": operator.or_, "xor": operator.xor}
    if op in binops:
        return binops[op](args[0], args[1])
    if op == "neg":
        return -args[0]
    if op == "abs":
        return abs(args[0]) if p.get("via") == "builtin" else pt.abs(args[0])
    if op in ("real", "imag"):
        if p.get("via") == "attr":
            return getattr(args[0], op)
        return getattr(pt, op)(args[0])
    if op == "conj":
        return args[0].conj() if p.get("via") == "attr" else pt.conj(args[0])
    if op in ("sqrt", "sin", "cos", "tan", "arcsin", "arccos", "arctan", "sinh",
              "cosh", "tanh", "exp", "log", "log10", "isnan", "logical_not"):
        return getattr(pt, op)(args[0])
    if op in npref.COMPARE + npref.LOGICAL + ("maximum", "minimum", "arctan2"):
        return getattr(pt, op)(args[0], args[1])
    if op == "where":
        return pt.where(args[0], args[1], args[2])
    if op == "astype":
        return args[0].astype(dt(p["dtype"]))
    if op in npref.REDUCE:
        ax = p.get("axis")
        ax = tuple(ax) if isinstance(ax, list) else ax
        if op in ("all", "any") and p.get("via") == "attr":
            return getattr(args[0], op)(ax)
        return getattr(pt, op)(args[0], axis=ax)
    if op == "einsum":
        return pt.einsum(p["spec"], *args)
    if op == "matmul":
        return args[0] @ args[1]
    if op == "dot":
        return pt.dot(args[0], args[1])
    if op == "vdot":
        return pt.vdot(args[0], args[1])
    if op == "csr_matmul":
        mat = pt.make_csr_matrix(tuple(p["shape"]), args[0], args[1], args[2])
        return mat @ args[3]
    if op == "stack":
        return pt.stack(list(args), axis=p["axis"])
    if op == "concatenate":
        return pt.concatenate(list(args), axis=p["axis"])
    if op == "roll":
        if p.get("axis") is None:
            return pt.roll(args[0], p["shift"])
        return pt.roll(args[0], p["shift"], axis=p["axis"])
    if op == "transpose":
        ax = p.get("axes")
        return pt.transpose(args[0], None if ax is None else tuple(ax))
    if op == "T":
        return args[0].T
    if op == "reshape":
        shp = p["shape"]
        shp = tuple(shp) if isinstance(shp, list) else shp
        if p.get("via") == "method":
            return args[0].reshape(shp, order=p.get("order", "C"))
        return pt.reshape(args[0], shp, order=p.get("order", "C"))
    if op == "expand_dims":
        ax = p["axis"]
        return pt.expand_dims(args[0], tuple(ax) if isinstance(ax, list) else ax)
    if op == "squeeze":
        ax = p.get("axis")
        return pt.squeeze(args[0], None if ax is None else tuple(ax))
    if op == "broadcast_to":
        return pt.broadcast_to(args[0], tuple(p["shape"]))
    if op == "pad":
        kw = {}
        if p.get("constant_values") is not None:
            kw["constant_values"] = _tup(p["constant_values"])
        return pt.pad(args[0], _tup(p["pad_width"]), **kw)
    if op == "index":
        idx = _idx(p["idx"], args)
        return args[0][idx if len(idx) != 1 or p.get("tuple") else idx[0]]
    if op == "full":
        return pt.full(tuple(p["shape"]), p["value"],
                       dt(p["dtype"]) if p.get("dtype") else None)
    if op in ("zeros", "ones"):
        return getattr(pt, op)(tuple(p["shape"]), dt(p.get("dtype", "float64")))
    if op == "eye":
        return pt.eye(p["N"], p.get("M"), p.get("k", 0),
                      dtype=dt(p.get("dtype", "float64")))
    if op == "arange":
        return pt.arange(p["start"], p["stop"], p["step"], dtype=dt(p["dtype"]))
    if op in ("zeros_like", "ones_like"):
        d = dt(p["dtype"]) if p.get("dtype") else None
        return getattr(pt, op)(args[0], d)
    if op == "call_loopy":
        from pvf.lpkernels import KERNELS
        return KERNELS[p["kernel"]].pt_apply(args, p)
    if op == "item":
        return args[0][p["key"]]
    if op == "named":
        # a NamedArray: entry of a DictOfNamedArrays
        data = {p["key"]: args[0]}
        for k, a in zip(p.get("extra_keys", []), args[1:]):
            data[k] = a
        return pt.make_dict_of_named_arrays(data)[p["key"]]
    if op == "sendhold":
        return pt.staple_distributed_send(
            args[0], dest_rank=p["dest"], comm_tag=comm_tag(p["tag"]),
            stapled_to=args[1])
    if op == "recv":
        return pt.make_distributed_recv(
            src_rank=p["src"], comm_tag=comm_tag(p["tag"]),
            shape=tuple(p["shape"]), dtype=dt(p["dtype"]))
    raise ValueError(f"unknown op {op}")


def comm_tag(t):
    """JSON -> hashable communication tag (lists become tuples)."""
    if isinstance(t, list):
        return tuple(comm_tag(x) for x in t)
    return t


@dataclass
class PtProgram:
    nodes: list[Any]
    outputs: dict[str, Any]
    spec: Any
    data: list[np.ndarray]

    def dict_of_named_arrays(self):
        import pytato as pt
        return pt.make_dict_of_named_arrays(dict(self.outputs))


def make_py_function(fnspec, fns, mode: str):
    """The Python function a user would write for a callee (its body built
    with pytato on whatever arrays it is handed)."""
    body = fnspec["spec"]
    params = [n["p"]["name"] for n in body["nodes"] if n["op"] == "placeholder"]

    def f(*args, **kwargs):
        bound = dict(zip(params, args))
        bound.update(kwargs)
        prog = build_pt(body, bind=bound, fns=fns, mode=mode)
        outs = [(k, prog.outputs[k]) for k, _ in body["outputs"]]
        kind = fnspec.get("ret", "dict")
        if kind == "array":
            return outs[0][1]
        if kind == "tuple":
            return tuple(v for _, v in outs)
        return {k: v for k, v in outs}
    f.__name__ = fnspec.get("ident") or "f"
    f.pvf_params = params
    f.pvf_keys = [k for k, _ in body["outputs"]]
    return f


def _pt_fncall(node, args, fns, mode: str):
    """-> dict key -> array.  mode 'direct': call the Python function;
    'traced': pt.trace_call."""
    import pytato as pt
    fnspec = fns[node["p"]["fn"]]
    f = make_py_function(fnspec, fns, mode)
    names = node["p"].get("kw") or [None] * len(args)
    pos = [a for a, nm in zip(args, names) if nm is None]
    kw = {nm: a for a, nm in zip(args, names) if nm is not None}
    if node["p"].get("kw_reversed"):
        # the caller's keyword order is not the parameter order
        kw = dict(reversed(list(kw.items())))
    if mode == "direct":
        out = f(*pos, **kw)
    else:
        ident = fnspec.get("ident")
        if node["p"].get("identifier", "guess") == "guess":
            out = pt.trace_call(f, *pos, **kw)
        else:
            out = pt.trace_call(f, *pos, identifier=ident, **kw)
    keys = f.pvf_keys
    kind = fnspec.get("ret", "dict")
    if kind == "array":
        return {keys[0]: out}
    if kind == "tuple":
        return dict(zip(keys, out))
    return dict(out)


def build_pt(spec, *, with_tags: bool = True, output_order=None, bind=None,
             fns=None, mode: str = "traced", reuse=None) -> PtProgram:
    """*reuse*: node index -> pytato object to use instead of building the
    node (DataWrappers compare by identity, so an 'independently rebuilt'
    graph must share them)."""
    env: list[Any] = []
    cache: dict = {}
    fns = spec.get("fns") if fns is None else fns
    for inode, node in enumerate(spec["nodes"]):
        op = node["op"]
        if reuse is not None and inode in reuse:
            env.append(reuse[inode])
            continue
        if op in INPUT_OPS:
            if bind is not None and op == "placeholder" \
                    and node["p"]["name"] in bind:
                ary = bind[node["p"]["name"]]
                env.append(ary)
                continue
            ary = pt_input(node, env, cache)
        elif op == "fncall":
            args = [decode_arg(a, env) for a in node.get("args", [])]
            ary = _pt_fncall(node, args, fns, mode)
        else:
            args = [decode_arg(a, env) for a in node.get("args", [])]
            ary = apply_pt(op, args, node.get("p"))
        if with_tags and node.get("tags") and op not in INPUT_OPS:
            # operations that return an input itself (roll by 0, real of a
            # real array, sum over no axes, ...) must not re-tag it: that
            # would create a second, different input of the same name
            # (nor any other operand returned as is: tagging it would make a
            # second array carrying the operand's unique / Named tags)
            import pytato as pt
            if not isinstance(ary, pt.array.InputArgumentBase) and not any(
                    ary is e for e in env):
                ary = apply_tags(ary, node["tags"])
        elif with_tags and node.get("tags"):
            ary = apply_tags(ary, node["tags"])
        env.append(ary)
    outs = list(spec["outputs"])
    if output_order is not None:
        outs = [outs[i] for i in output_order]
    outputs = {k: env[i] for k, i in outs}
    return PtProgram(env, outputs, spec, cache.get("all", []))


def input_values(spec, vals=None) -> dict[str, Any]:
    """name -> ndarray / int for every placeholder and size parameter."""
    res = {}
    for i, node in enumerate(spec["nodes"]):
        if node["op"] == "placeholder":
            v = vals[i] if vals is not None else np_input(node)
            res[node["p"]["name"]] = v.a
        elif node["op"] == "sizeparam":
            res[node["p"]["name"]] = int(node["p"]["value"])
    return res

# }}}
