"""Graphs over *every* node kind (C04, C13, C18, C20): a grammar program with
named arrays, function calls, loopy calls, distributed nodes and CSR products
embedded at drawn positions."""
from __future__ import annotations

import copy

import numpy as np
from hypothesis import strategies as st

from pvf import npref, progen
from pvf.ptbuild import eval_np, gc

TAGS = [1, 7, "halo", ["t", 3], [2, "x"]]


def recv_values(spec) -> dict:
    """(src, tag) -> ndarray for every recv node of the spec."""
    from pvf.ptbuild import comm_tag
    out = {}
    for n in spec["nodes"]:
        if n["op"] == "recv":
            p = n["p"]
            out[(p["src"], comm_tag(p["tag"]))] = npref.make_input(
                p["values"], p["dtype"], p["shape"], p.get("scale", 0)).a
    return out


def recv_model(spec):
    vals = recv_values(spec)
    return lambda node: vals[(node.src_rank, node.comm_tag)]


@st.composite
def zoo_programs(draw, *, max_ops=8, with_functions=True, with_dist=True,
                 with_loopy=True, data_wrappers=True, dtypes=None):
    groups = set(progen.ALL_GROUPS)
    if not with_loopy:
        groups.discard("loopy")
    cfg = progen.GenCfg(min_ops=2, max_ops=max_ops, max_len=3, max_size=48,
                        p_nan=0.0, p_zero=0.08, groups=frozenset(groups),
                        data_wrappers=data_wrappers,
                        dtypes=dtypes or ("bool", "int32", "int64", "float32",
                                          "float64", "complex128"))
    spec, vals = draw(progen.programs(cfg))
    spec = copy.deepcopy(spec)
    nodes = spec["nodes"]
    spec.setdefault("fns", [])

    def arrays():
        try:
            vs = eval_np(spec)
        except (npref.Unsound, npref.NpReject):
            return []
        return [(i, v) for i, v in enumerate(vs)
                if v is not None and isinstance(v.a, np.ndarray)
                and nodes[i]["op"] != "sizeparam"]

    n_special = draw(st.integers(1, 4))
    new_sinks = []
    for _ in range(n_special):
        arr = arrays()
        if not arr:
            break
        kinds = ["named", "named", "roll"]
        if with_loopy:
            kinds += ["loopy"]
        if with_dist:
            kinds += ["sendhold", "recv", "sendhold"]
        if with_functions:
            kinds += ["fncall"]
        kind = draw(st.sampled_from(kinds))
        i, v = draw(st.sampled_from(arr))
        if kind == "roll":
            if v.a.ndim == 0:
                continue
            nodes.append({"op": "roll", "args": [["n", i]],
                          "p": {"shift": draw(st.integers(1, 3)),
                                "axis": draw(st.integers(0, v.a.ndim - 1))}})
        elif kind == "loopy":
            name = f"lx{len(nodes)}"
            nodes.append({"op": "placeholder", "p": {
                "name": name, "shape": [2, 3], "dtype": "float64",
                "values": list(draw(st.lists(st.integers(-4, 4), min_size=6,
                                             max_size=6))), "scale": 1}})
            nodes.append({"op": "call_loopy", "args": [["n", len(nodes) - 1]],
                          "p": {"kernel": draw(st.sampled_from(
                              ["rowsum", "twoout"])), "a": 0.5}})
            nodes.append({"op": "item", "args": [["n", len(nodes) - 1]],
                          "p": {"key": "rs"}})
        elif kind == "named":
            extra = [draw(st.sampled_from(arr))[0]
                     for _ in range(draw(st.integers(0, 2)))]
            nodes.append({"op": "named", "args": [["n", i]] + [
                ["n", e] for e in extra],
                "p": {"key": "k0", "extra_keys": [f"e{q}" for q in range(
                    len(extra))]}})
        elif kind == "sendhold":
            j, _ = draw(st.sampled_from(arr))
            nodes.append({"op": "sendhold", "args": [["n", j], ["n", i]],
                          "p": {"dest": draw(st.integers(0, 3)),
                                "tag": draw(st.sampled_from(TAGS))}})
        elif kind == "recv":
            shape = list(v.a.shape)
            d = v.a.dtype
            if d.kind == "c":
                d = np.dtype(np.float64)
            n = int(np.prod(shape, dtype=np.int64))
            values = ([bool(b) for b in draw(st.lists(st.booleans(), min_size=n,
                                                      max_size=n))]
                      if d.kind == "b" else
                      list(draw(st.lists(st.integers(-5, 5), min_size=n,
                                         max_size=n))))
            nodes.append({"op": "recv", "p": {
                "src": draw(st.integers(0, 3)),
                "tag": draw(st.sampled_from(TAGS)), "shape": shape,
                "dtype": str(d), "values": values, "scale": 0}})
            # combine with the local array so that it is embedded
            r = len(nodes) - 1
            if d.kind != "b" and v.a.dtype.kind != "b":
                nodes.append({"op": "add", "args": [["n", r], ["n", i]]})
        else:
            # a one-parameter function x -> (x*2 + x, -x) applied to node i
            if v.a.dtype.kind == "b":
                continue
            body = {"nodes": [
                {"op": "placeholder", "p": {"name": "x0",
                                            "shape": list(v.a.shape),
                                            "dtype": str(v.a.dtype),
                                            "values": [0] * int(v.a.size) if
                                            v.a.dtype.kind != "c" else
                                            [[0, 0]] * int(v.a.size),
                                            "scale": 0}},
                {"op": "mul", "args": [["n", 0], ["py", 2]]},
                {"op": "add", "args": [["n", 1], ["n", 0]]},
                {"op": "neg", "args": [["n", 0]]}],
                "outputs": [["a", 2], ["b", 3]]}
            spec["fns"].append({"spec": body, "ret": draw(st.sampled_from(
                ["tuple", "dict"])), "ident": f"g{len(spec['fns'])}"})
            nodes.append({"op": "fncall", "args": [["n", i]],
                          "p": {"fn": len(spec["fns"]) - 1,
                                "kw": [draw(st.sampled_from([None, "x0"]))],
                                "identifier": "guess"}})
            c = len(nodes) - 1
            nodes.append({"op": "item", "args": [["n", c]], "p": {"key": "a"}})
            if draw(st.booleans()):
                nodes.append({"op": "item", "args": [["n", c]],
                              "p": {"key": "b"}})
        new_sinks.append(len(nodes) - 1)
        # sometimes build on top of the special node
        if draw(st.booleans()):
            top = len(nodes) - 1
            nodes.append({"op": "roll" if False else "transpose",
                          "args": [["n", top]], "p": {"axes": None}})
            new_sinks.append(len(nodes) - 1)
    # validate; fall back to the plain program if the reference breaks
    try:
        eval_np(spec)
    except (npref.Unsound, npref.NpReject):
        spec["nodes"] = spec["nodes"][:len(vals)]
        new_sinks = []
    outs = list(spec["outputs"])
    for q, s in enumerate(new_sinks[-3:]):
        if s < len(spec["nodes"]):
            outs.append([f"z{q}", s])
    spec["outputs"] = outs[:5]
    return gc(spec)
