"""Independent reference evaluator over pytato graphs.

High-level node kinds are given NumPy semantics directly; an IndexLambda is
evaluated point by point, following the documented index-lambda semantics
literally (and refusing any subscript outside ``[0, len)``).  No pytato mapper
is used: nodes are dispatched on their class and read through their public
dataclass fields.
"""
from __future__ import annotations

import itertools
import math
from typing import Any

import numpy as np

import pymbolic.primitives as p


class RefOutOfBounds(Exception):
    pass


class RefUnsupported(Exception):
    pass


_NP_FUNCS = {
    "abs": np.abs, "sqrt": np.sqrt, "sin": np.sin, "cos": np.cos, "tan": np.tan,
    "asin": np.arcsin, "acos": np.arccos, "atan": np.arctan, "atan2": np.arctan2,
    "sinh": np.sinh, "cosh": np.cosh, "tanh": np.tanh, "exp": np.exp,
    "log": np.log, "log10": np.log10, "isnan": np.isnan, "real": np.real,
    "imag": np.imag, "conj": np.conj,
}


def _neutral(op, dtype: np.dtype):
    from pytato import reductions as red
    if isinstance(op, red.SumReductionOperation):
        return dtype.type(0)
    if isinstance(op, red.ProductReductionOperation):
        return dtype.type(1)
    if isinstance(op, (red.MaxReductionOperation, red.MinReductionOperation)):
        if dtype.kind not in "fiu":
            raise RefUnsupported(f"max/min reduction of {dtype}")
        if isinstance(op, red.MaxReductionOperation):
            return (dtype.type(-np.inf) if dtype.kind == "f"
                    else np.iinfo(dtype).min)
        return (dtype.type(np.inf) if dtype.kind == "f"
                else np.iinfo(dtype).max)
    if isinstance(op, red.AllReductionOperation):
        return np.bool_(True)
    if isinstance(op, red.AnyReductionOperation):
        return np.bool_(False)
    raise RefUnsupported(f"reduction {op}")


def _combine(op, acc, val):
    from pytato import reductions as red
    if isinstance(op, red.SumReductionOperation):
        return acc + val
    if isinstance(op, red.ProductReductionOperation):
        return acc * val
    if isinstance(op, red.MaxReductionOperation):
        return max(acc, val) if not (isinstance(val, float) and math.isnan(val)) \
            else val
    if isinstance(op, red.MinReductionOperation):
        return min(acc, val) if not (isinstance(val, float) and math.isnan(val)) \
            else val
    if isinstance(op, red.AllReductionOperation):
        return np.bool_(bool(acc) and bool(val))
    if isinstance(op, red.AnyReductionOperation):
        return np.bool_(bool(acc) or bool(val))
    raise RefUnsupported(f"reduction {op}")


class _Scalar:
    """Pointwise interpreter of an index lambda's scalar expression."""

    def __init__(self, bindings: dict[str, np.ndarray]):
        self.b = bindings

    def ev(self, e, env: dict[str, Any]):
        with np.errstate(all="ignore"):
            return self._ev(e, env)

    def _ev(self, e, env):
        from pytato.scalar_expr import Reduce, TypeCast
        if isinstance(e, (bool, np.bool_, int, float, complex, np.generic)):
            return e
        if isinstance(e, p.Variable):
            if e.name in env:
                return env[e.name]
            if e.name in self.b:
                a = self.b[e.name]
                if a.shape != ():
                    raise RefUnsupported(
                        f"bare reference to non-scalar binding {e.name}")
                return a[()]
            raise RefUnsupported(f"unknown variable {e.name}")
        if isinstance(e, p.Subscript):
            if not isinstance(e.aggregate, p.Variable):
                raise RefUnsupported("subscript of non-variable")
            a = self.b[e.aggregate.name]
            idx = tuple(self._ev(i, env) for i in e.index_tuple)
            if len(idx) != a.ndim:
                raise RefOutOfBounds(
                    f"{e.aggregate.name}: {len(idx)} indices for {a.ndim}-d array")
            cidx = []
            for k, (i, n) in enumerate(zip(idx, a.shape)):
                if isinstance(i, (float, np.floating, complex,
                                  np.complexfloating)):
                    raise RefUnsupported("non-integer subscript")
                i = int(i)
                if not (0 <= i < n):
                    raise RefOutOfBounds(
                        f"{e.aggregate.name}[axis {k}]: index {i} outside "
                        f"[0, {n})")
                cidx.append(i)
            return a[tuple(cidx)]
        if isinstance(e, p.Sum):
            it = iter(e.children)
            r = self._ev(next(it), env)
            for c in it:
                r = r + self._ev(c, env)
            return r
        if isinstance(e, p.Product):
            it = iter(e.children)
            r = self._ev(next(it), env)
            for c in it:
                r = r * self._ev(c, env)
            return r
        if isinstance(e, p.Quotient):
            n, d = self._ev(e.numerator, env), self._ev(e.denominator, env)
            return np.true_divide(n, d)
        if isinstance(e, p.FloorDiv):
            return np.floor_divide(self._ev(e.numerator, env),
                                   self._ev(e.denominator, env))
        if isinstance(e, p.Remainder):
            return np.remainder(self._ev(e.numerator, env),
                                self._ev(e.denominator, env))
        if isinstance(e, p.Power):
            return np.power(self._ev(e.base, env), self._ev(e.exponent, env))
        if isinstance(e, p.Comparison):
            l, r = self._ev(e.left, env), self._ev(e.right, env)
            import operator as o
            return np.bool_({"==": o.eq, "!=": o.ne, "<": o.lt, "<=": o.le,
                             ">": o.gt, ">=": o.ge}[e.operator](l, r))
        if isinstance(e, p.LogicalAnd):
            return np.bool_(all(bool(self._ev(c, env)) for c in e.children))
        if isinstance(e, p.LogicalOr):
            return np.bool_(any(bool(self._ev(c, env)) for c in e.children))
        if isinstance(e, p.LogicalNot):
            return np.bool_(not bool(self._ev(e.child, env)))
        if isinstance(e, p.BitwiseAnd):
            it = iter(e.children)
            r = self._ev(next(it), env)
            for c in it:
                r = r & self._ev(c, env)
            return r
        if isinstance(e, p.BitwiseOr):
            it = iter(e.children)
            r = self._ev(next(it), env)
            for c in it:
                r = r | self._ev(c, env)
            return r
        if isinstance(e, p.BitwiseXor):
            it = iter(e.children)
            r = self._ev(next(it), env)
            for c in it:
                r = r ^ self._ev(c, env)
            return r
        if isinstance(e, p.If):
            # the taken branch only
            if bool(self._ev(e.condition, env)):
                return self._ev(e.then, env)
            return self._ev(e.else_, env)
        if isinstance(e, p.NaN):
            return (e.data_type or np.float64)(math.nan)
        if isinstance(e, TypeCast):
            return np.dtype(e.dtype).type(self._ev(e.inner_expr, env))
        if isinstance(e, p.Call):
            name = e.function.name
            if name == "pytato.zero":
                return 0
            if name.startswith("pytato.c99."):
                fn = _NP_FUNCS[name[len("pytato.c99."):]]
                return fn(*[self._ev(a, env) for a in e.parameters])
            raise RefUnsupported(f"call to {name}")
        if isinstance(e, Reduce):
            names = list(e.bounds)
            ranges = []
            for nm in names:
                lb, ub = e.bounds[nm]
                ranges.append(range(int(self._ev(lb, env)),
                                    int(self._ev(ub, env))))
            acc = None
            for vals in itertools.product(*ranges):
                env2 = dict(env)
                env2.update(zip(names, vals))
                v = self._ev(e.inner_expr, env2)
                if acc is None:
                    acc = _combine(e.op, _neutral(
                        e.op, np.asarray(v).dtype), v)
                else:
                    acc = _combine(e.op, acc, v)
            return ("empty", e.op) if acc is None else acc
        raise RefUnsupported(f"scalar expression {type(e).__name__}")


def _ishape(shape, rec) -> tuple[int, ...]:
    out = []
    for s in shape:
        if isinstance(s, (int, np.integer)):
            out.append(int(s))
        else:
            out.append(int(rec(s)))
    return tuple(out)


class RefEval:
    """refeval(node) with memoisation by object identity."""

    def __init__(self, env: dict[str, Any] | None = None, recv=None,
                 loopy_models=None):
        self.env = env or {}
        self.recv = recv            # callable(DistributedRecv) -> ndarray
        self.memo: dict[int, Any] = {}
        self.keep: list[Any] = []
        self.loopy_models = loopy_models

    def __call__(self, node):
        k = id(node)
        if k in self.memo:
            return self.memo[k]
        r = self._eval(node)
        self.memo[k] = r
        self.keep.append(node)
        return r

    def shape(self, node) -> tuple[int, ...]:
        return _ishape(node.shape, self)

    def _eval(self, n):
        import pytato as pt
        from pytato import array as A
        from pytato.distributed.nodes import (
            DistributedRecv,
            DistributedSendRefHolder,
        )
        from pytato.function import Call, NamedCallResult
        from pytato.loopy import LoopyCall, LoopyCallResult
        if isinstance(n, (int, float, complex, np.generic, bool)):
            return np.asarray(n)
        if isinstance(n, A.SizeParam):
            return np.asarray(np.intp(self.env[n.name]))
        if isinstance(n, A.Placeholder):
            v = np.asarray(self.env[n.name])
            return v
        if isinstance(n, A.DataWrapper):
            return np.asarray(n.data)
        if isinstance(n, A.IndexLambda):
            return self._index_lambda(n)
        if isinstance(n, A.Stack):
            return np.stack([self(a) for a in n.arrays], axis=n.axis).astype(
                n.dtype)
        if isinstance(n, A.Concatenate):
            return np.concatenate([self(a) for a in n.arrays],
                                  axis=n.axis).astype(n.dtype)
        if isinstance(n, A.Roll):
            return np.roll(self(n.array), n.shift, axis=n.axis)
        if isinstance(n, A.AxisPermutation):
            return np.transpose(self(n.array), n.axis_permutation)
        if isinstance(n, A.Reshape):
            return np.reshape(self(n.array), _ishape(n.newshape, self),
                              order=n.order)
        if isinstance(n, A.IndexBase):
            return self._index(n)
        if isinstance(n, A.Einsum):
            return self._einsum(n)
        if isinstance(n, A.CSRMatmul):
            return self._csr(n)
        if isinstance(n, LoopyCallResult):
            return self(n._container)[n.name]
        if isinstance(n, NamedCallResult):
            return self(n._container)[n.name]
        if isinstance(n, A.NamedArray):
            return self(n._container)[n.name]
        if isinstance(n, A.DictOfNamedArrays):
            return {k: self(v) for k, v in n._data.items()}
        if isinstance(n, LoopyCall):
            return self._loopy_call(n)
        if isinstance(n, Call):
            sub = RefEval({k: self(v) for k, v in n.bindings.items()},
                          self.recv, self.loopy_models)
            return {k: sub(v) for k, v in n.function.returns.items()}
        if isinstance(n, DistributedSendRefHolder):
            return self(n.passthrough_data)
        if isinstance(n, DistributedRecv):
            if self.recv is None:
                raise RefUnsupported("DistributedRecv without a model")
            return np.asarray(self.recv(n))
        raise RefUnsupported(f"node {type(n).__name__}")

    def _index_lambda(self, n):
        shape = self.shape(n)
        bnd = {k: np.asarray(self(v)) for k, v in n.bindings.items()}
        sc = _Scalar(bnd)
        out = np.empty(shape, dtype=n.dtype)
        for pt_ in np.ndindex(*shape):
            env = {f"_{i}": int(v) for i, v in enumerate(pt_)}
            v = sc.ev(n.expr, env)
            if isinstance(v, tuple) and v and v[0] == "empty":
                v = _neutral(v[1], np.dtype(n.dtype))
            with np.errstate(all="ignore"):
                if np.dtype(n.dtype).kind not in "c" and isinstance(
                        v, (complex, np.complexfloating)):
                    raise RefUnsupported("complex value for real dtype")
                out[pt_] = v
        return out

    def _index(self, n):
        from pytato import array as A
        a = self(n.array)
        idx = []
        for i in n.indices:
            if isinstance(i, A.NormalizedSlice):
                start = int(self(i.start)) if not isinstance(
                    i.start, (int, np.integer)) else int(i.start)
                stop = int(self(i.stop)) if not isinstance(
                    i.stop, (int, np.integer)) else int(i.stop)
                step = int(i.step)
                # the normalised slice means: start, start+step, ... while
                # before stop (step>0) / beyond stop (step<0)
                idx.append(np.arange(start, stop, step, dtype=np.int64))
            elif isinstance(i, A.Array):
                iv = np.asarray(self(i)).astype(np.int64)
                idx.append(("adv", iv))
            else:
                idx.append(("adv", np.asarray(int(i), dtype=np.int64)))
        # emulate NumPy's mixed basic/advanced indexing through explicit
        # index arrays: slices become aranges on their own broadcast axes
        adv_pos = [k for k, i in enumerate(idx) if isinstance(i, tuple)]
        if not adv_pos:
            for k, (i, ln) in enumerate(zip(idx, a.shape)):
                if i.size and (i.min() < 0 or i.max() >= ln):
                    raise RefOutOfBounds(f"slice axis {k} reaches {i.min()}.."
                                         f"{i.max()} outside [0, {ln})")
            return a[np.ix_(*idx)] if idx else a[()]
        adv_arrays = [idx[k][1] for k in adv_pos]
        for k, iv in zip(adv_pos, adv_arrays):
            ln = a.shape[k]
            if iv.size and (iv.min() < -ln or iv.max() >= ln):
                raise RefOutOfBounds("advanced index out of range")
        bshape = np.broadcast_shapes(*[v.shape for v in adv_arrays])
        contiguous = adv_pos == list(range(adv_pos[0], adv_pos[-1] + 1))
        slice_pos = [k for k in range(len(idx)) if k not in adv_pos]
        slice_lens = [idx[k].size for k in slice_pos]
        if contiguous:
            pre = [k for k in slice_pos if k < adv_pos[0]]
            post = [k for k in slice_pos if k > adv_pos[-1]]
            out_shape = ([idx[k].size for k in pre] + list(bshape)
                         + [idx[k].size for k in post])
        else:
            pre, post = [], slice_pos
            out_shape = list(bshape) + slice_lens
        out = np.empty(out_shape, dtype=a.dtype)
        for o in np.ndindex(*out_shape):
            if contiguous:
                po = o[:len(pre)]
                bo = o[len(pre):len(pre) + len(bshape)]
                so = o[len(pre) + len(bshape):]
                sl = dict(zip(pre, po))
                sl.update(zip(post, so))
            else:
                bo = o[:len(bshape)]
                sl = dict(zip(slice_pos, o[len(bshape):]))
            src = []
            for k in range(len(idx)):
                if k in sl:
                    v = int(idx[k][sl[k]])
                    if not (0 <= v < a.shape[k]):
                        raise RefOutOfBounds("slice out of range")
                else:
                    iv = np.broadcast_to(idx[k][1], bshape)
                    v = int(iv[bo])
                    if v < 0:
                        v += a.shape[k]
                src.append(v)
            out[o] = a[tuple(src)]
        return out

    def _einsum(self, n):
        from pytato import array as A
        args = [np.asarray(self(a)) for a in n.args]
        shape = self.shape(n)
        # lengths per descriptor (broadcast: the non-unit length wins)
        ln: dict[Any, int] = {}
        for descrs, a in zip(n.access_descriptors, args):
            for d, s in zip(descrs, a.shape):
                if d not in ln or ln[d] == 1:
                    ln[d] = s
        red = sorted([d for d in ln if isinstance(d, A.EinsumReductionAxis)],
                     key=lambda d: d.dim)
        out = np.zeros(shape, dtype=n.dtype)
        for o in np.ndindex(*shape):
            acc = np.dtype(n.dtype).type(0)
            for r in itertools.product(*[range(ln[d]) for d in red]):
                rv = dict(zip(red, r))
                term = np.dtype(n.dtype).type(1)
                for descrs, a in zip(n.access_descriptors, args):
                    ix = []
                    for d, s in zip(descrs, a.shape):
                        v = o[d.dim] if isinstance(
                            d, A.EinsumElementwiseAxis) else rv[d]
                        ix.append(0 if (s == 1 and ln[d] != 1) else v)
                    term = term * a[tuple(ix)]
                acc = acc + term
            out[o] = acc
        return out

    def _csr(self, n):
        ev = np.asarray(self(n.matrix.elem_values))
        ci = np.asarray(self(n.matrix.elem_col_indices))
        rs = np.asarray(self(n.matrix.row_starts))
        x = np.asarray(self(n.array))
        shape = self.shape(n)
        out = np.zeros(shape, dtype=n.dtype)
        for i in range(shape[0]):
            for k in range(int(rs[i]), int(rs[i + 1])):
                out[i] = out[i] + ev[k] * x[int(ci[k])]
        return out

    def _loopy_call(self, n):
        name = n._entry_kernel.name
        b = {k: (self(v) if not isinstance(v, (int, float, complex, np.generic))
                 else v) for k, v in n.bindings.items()}
        if name.startswith("pvf_scale_shift"):
            x, y, a = b["x"], b["y"], b["a"]
            return {"out": (x.dtype.type(a) * x + y).astype(x.dtype)}
        if name.startswith("pvf_rowsum"):
            return {"rs": b["x"].sum(axis=1).astype(b["x"].dtype)}
        if name.startswith("pvf_twoout"):
            x, a = b["x"], b["a"]
            return {"rs": x.sum(axis=1).astype(x.dtype),
                    "cs": (x.sum(axis=0) * x.dtype.type(a)).astype(x.dtype)}
        if self.loopy_models and name in self.loopy_models:
            return self.loopy_models[name](b)
        raise RefUnsupported(f"loopy kernel {name}")


def refeval(node, env=None, **kw):
    return RefEval(env, **kw)(node)
