"""Multi-rank programs as JSON (C08, C09, C10): Hypothesis strategy, pytato
builder, NumPy interpretation, classification.

A *case* is::

    {"nranks": n, "pattern": "<what the generator aimed at>",
     "ranks": [{"nodes": [...], "outputs": [[name, idx], ...]}, ...]}

Every rank is a program of the grammar of DESIGN.md 4.1 (``pvf.progen`` /
``pvf.ptbuild``) over a reduced operation set, plus two node kinds:

``{"op": "recv", "p": {"src": r, "tag": T, "shape": [...], "dtype": d}}``
    ``pt.make_distributed_recv``; its value is the payload of the send with
    the same (source, destination, tag).
``{"op": "sendhold", "args": [["n", data], ["n", passthrough]],
  "p": {"dest": r, "tag": T}}``
    ``pt.staple_distributed_send(data, dest, tag, stapled_to=passthrough)``.

Communication tags ``T`` are encoded as tagged lists and decode to ints,
strings, (nested) tuples, frozensets, frozen dataclasses and bare classes.

The generator draws a *global* sequence of steps - "rank r computes a little",
"message k: rank a sends an existing node to rank b" - so that a receive node
is only ever created after the node whose value it carries: the global data
flow is acyclic by construction.  The JSON is all that is needed to rebuild
the graphs, the inputs and the reference values.
"""
from __future__ import annotations

import copy
import dataclasses
from dataclasses import dataclass
from typing import Any

import numpy as np
from hypothesis import strategies as st

from pvf import npref, progen
from pvf.npref import Val
from pvf.ptbuild import (
    INPUT_OPS,
    apply_pt,
    apply_tags,
    canon,
    decode_arg,
    node_refs,
    np_input,
    pt_input,
    spec_hash,
)


class ModelError(Exception):
    """The case has no meaning under the reference model (unmatched or
    duplicate message, cyclic data flow)."""


# {{{ communication tags

@dataclass(frozen=True)
class TagA:
    k: int


@dataclass(frozen=True)
class TagB:
    name: str
    k: int


class BareTag1:
    pass


class BareTag2:
    pass


class BareTag3:
    pass


_BARE = {"BareTag1": BareTag1, "BareTag2": BareTag2, "BareTag3": BareTag3}


def decode_tag(t):
    kind = t[0]
    if kind == "int":
        return int(t[1])
    if kind == "str":
        return str(t[1])
    if kind == "tuple":
        return tuple(decode_tag(x) for x in t[1])
    if kind == "fset":
        return frozenset(decode_tag(x) for x in t[1])
    if kind == "dcA":
        return TagA(int(t[1]))
    if kind == "dcB":
        return TagB(str(t[1]), int(t[2]))
    if kind == "cls":
        return _BARE[t[1]]
    raise ValueError(f"comm tag encoding {t!r}")


def tag_kind(t) -> str:
    return {"dcA": "dataclass", "dcB": "dataclass", "cls": "class",
            "fset": "frozenset"}.get(t[0], t[0])


def _draw_simple_tag(draw):
    k = progen._w(draw, [(3, "int"), (2, "str"), (2, "dcA"), (1, "dcB"),
                         (1, "cls")])
    if k == "int":
        return ["int", draw(st.sampled_from([0, 1, 2, 3, 5, 7, 42, 43, 1000,
                                             -1, 2 ** 40]))]
    if k == "str":
        return ["str", draw(st.sampled_from(["a", "b", "halo", "flux", ""]))]
    if k == "dcA":
        return ["dcA", draw(st.integers(0, 3))]
    if k == "dcB":
        return ["dcB", draw(st.sampled_from(["u", "v"])), draw(st.integers(0, 2))]
    return ["cls", draw(st.sampled_from(sorted(_BARE)))]


def draw_tag(draw):
    k = progen._w(draw, [(6, "simple"), (3, "tuple"), (1, "fset")])
    if k == "simple":
        return _draw_simple_tag(draw)
    if k == "tuple":
        n = draw(st.integers(1, 3))
        items = [_draw_simple_tag(draw) for _ in range(n)]
        if draw(st.integers(0, 3)) == 0:
            items.append(["tuple", [_draw_simple_tag(draw)]])
        return ["tuple", items]
    items = []
    for _ in range(draw(st.integers(1, 3))):
        t = _draw_simple_tag(draw)
        if all(decode_tag(t) != decode_tag(u) for u in items):
            items.append(t)
    return ["fset", items]

# }}}


# {{{ JSON helpers

def rank_spec(case, r: int) -> dict:
    return case["ranks"][r]


def data_children(node) -> list[int]:
    """operands whose *value* flows into the node (a send holder's value is
    its pass-through operand only)."""
    if node["op"] == "sendhold":
        return [node["args"][1][1]]
    return node_refs(node)


def reachable_nodes(spec, roots=None) -> list[int]:
    roots = [i for _, i in spec["outputs"]] if roots is None else list(roots)
    seen: set[int] = set()
    stack = list(roots)
    while stack:
        i = stack.pop()
        if i in seen:
            continue
        seen.add(i)
        stack.extend(node_refs(spec["nodes"][i]))
    return sorted(seen)


def gc_rank(spec) -> dict:
    keep = reachable_nodes(spec)
    remap = {old: new for new, old in enumerate(keep)}
    nodes = []
    for old in keep:
        n = copy.deepcopy(spec["nodes"][old])
        if "args" in n:
            n["args"] = [["n", remap[a[1]]] if a[0] == "n" else a
                         for a in n["args"]]
        nodes.append(n)
    return {"nodes": nodes,
            "outputs": [[k, remap[i]] for k, i in spec["outputs"]]}


def gc_case(case) -> dict:
    out = {k: v for k, v in case.items() if k != "ranks"}
    out["ranks"] = [gc_rank(s) for s in case["ranks"]]
    return out


def case_hash(case) -> str:
    return spec_hash(case)


def recv_deps(spec) -> list[frozenset[int]]:
    """per node: the receive nodes its value depends on (rank-local)."""
    deps: list[frozenset[int]] = []
    for i, n in enumerate(spec["nodes"]):
        if n["op"] == "recv":
            deps.append(frozenset([i]))
        else:
            d: frozenset[int] = frozenset()
            for c in data_children(n):
                d |= deps[c]
            deps.append(d)
    return deps


def messages(case) -> list[dict]:
    """Every send that is reachable from its rank's outputs, with the matching
    receive (index on the destination rank) or None."""
    sends = []
    recvs: dict[tuple, list[int]] = {}
    live = [set(reachable_nodes(s)) for s in case["ranks"]]
    for r, s in enumerate(case["ranks"]):
        for i, n in enumerate(s["nodes"]):
            if i not in live[r]:
                continue
            if n["op"] == "recv":
                recvs.setdefault((n["p"]["src"], r, decode_tag(n["p"]["tag"])),
                                 []).append(i)
    for r, s in enumerate(case["ranks"]):
        for i, n in enumerate(s["nodes"]):
            if i in live[r] and n["op"] == "sendhold":
                key = (r, n["p"]["dest"], decode_tag(n["p"]["tag"]))
                got = recvs.get(key, [])
                sends.append({"src": r, "dst": n["p"]["dest"],
                              "tag": n["p"]["tag"], "hold": i,
                              "data": n["args"][0][1],
                              "recv": got[0] if len(got) == 1 else None,
                              "nrecv": len(got)})
    return sends


def message_graph(case) -> dict[int, set[int]]:
    """message k -> messages whose receive the payload of k depends on."""
    ms = messages(case)
    deps = [recv_deps(s) for s in case["ranks"]]
    by_recv = {(m["dst"], m["recv"]): k for k, m in enumerate(ms)
               if m["recv"] is not None}
    g: dict[int, set[int]] = {}
    for k, m in enumerate(ms):
        g[k] = {by_recv[(m["src"], ri)] for ri in deps[m["src"]][m["data"]]
                if (m["src"], ri) in by_recv}
    return g


def message_levels(case) -> list[int]:
    g = message_graph(case)
    lvl: dict[int, int] = {}

    def rec(k, path=()):
        if k in lvl:
            return lvl[k]
        if k in path:
            raise ModelError("cyclic message dependencies")
        v = 1 + max([rec(d, (*path, k)) for d in g[k]] or [-1])
        lvl[k] = v
        return v
    return [rec(k) for k in sorted(g)]

# }}}


# {{{ features for the evidence distribution

def features(case) -> dict[str, Any]:
    ms = messages(case)
    n = case["nranks"]
    f: dict[str, Any] = {"ranks": n, "messages": len(ms)}
    deps = [recv_deps(s) for s in case["ranks"]]
    pairs = [(m["src"], m["dst"]) for m in ms]
    # rank-level cycle (ring / exchange)
    adj: dict[int, set[int]] = {}
    for a, b in pairs:
        adj.setdefault(a, set()).add(b)

    def reach(a, b, seen=None):
        seen = seen or set()
        for c in adj.get(a, ()):
            if c == b:
                return True
            if c not in seen:
                seen.add(c)
                if reach(c, b, seen):
                    return True
        return False
    f["ring"] = any(reach(a, a) for a in adj)
    f["ring3"] = n >= 3 and any(
        b != a and c not in (a, b) and a in adj.get(c, ())
        for a in adj for b in adj[a] for c in adj.get(b, ()))
    f["star"] = any(len({b for a2, b in pairs if a2 == a}) >= 2 for a in range(n)) \
        or any(len({a for a, b2 in pairs if b2 == b}) >= 2 for b in range(n))
    f["two_sends_one_peer"] = len(pairs) != len(set(pairs))
    f["send_depends_on_recv"] = any(deps[m["src"]][m["data"]] for m in ms)
    f["chain3"] = False
    g = message_graph(case)
    for k, ds in g.items():
        for d in ds:
            if len({ms[d]["src"], ms[d]["dst"], ms[k]["dst"]}) == 3:
                f["chain3"] = True
    f["forward_bare_recv"] = any(
        case["ranks"][m["src"]]["nodes"][m["data"]]["op"] == "recv" for m in ms)
    # a receive that reaches the outputs only through the payload of a send
    only_via = False
    for r, s in enumerate(case["ranks"]):
        roots = [i for _, i in s["outputs"]]
        seen: set[int] = set()
        stack = list(roots)
        while stack:
            i = stack.pop()
            if i in seen:
                continue
            seen.add(i)
            stack.extend(data_children(s["nodes"][i]))
        live = set(reachable_nodes(s))
        if any(s["nodes"][i]["op"] == "recv" and i not in seen for i in live):
            only_via = True
    f["recv_only_via_send"] = only_via
    f["output_is_input"] = any(
        s["nodes"][i]["op"] in ("placeholder", "data")
        for s in case["ranks"] for _, i in s["outputs"])
    f["output_is_recv"] = any(
        s["nodes"][i]["op"] == "recv"
        for s in case["ranks"] for _, i in s["outputs"])
    f["same_array_sent_twice"] = any(
        len([m for m in ms if m["src"] == r and m["data"] == d]) >= 2
        for r in range(n) for d in {m["data"] for m in ms if m["src"] == r})
    f["send_of_input"] = any(
        case["ranks"][m["src"]]["nodes"][m["data"]]["op"] in ("placeholder",
                                                             "data")
        for m in ms)
    via_holder = False
    for m in ms:
        s = case["ranks"][m["src"]]
        seen: set[int] = set()
        stack = [m["data"]]
        while stack:
            i = stack.pop()
            if i in seen:
                continue
            seen.add(i)
            if s["nodes"][i]["op"] == "sendhold":
                via_holder = True
            stack.extend(data_children(s["nodes"][i]))
    f["payload_via_holder_value"] = via_holder
    f["impl_stored"] = any(["ImplStored"] in (nd.get("tags") or [])
                           for s in case["ranks"] for nd in s["nodes"])
    f["impl_stored_recv"] = any(
        nd["op"] == "recv" and ["ImplStored"] in (nd.get("tags") or [])
        for s in case["ranks"] for nd in s["nodes"])
    f["zero_size_message"] = any(
        0 in nd["p"]["shape"] for s in case["ranks"] for nd in s["nodes"]
        if nd["op"] == "recv")
    f["tag_kinds"] = sorted({tag_kind(m["tag"]) for m in ms})
    f["same_tag_two_pairs"] = any(
        decode_tag(a["tag"]) == decode_tag(b["tag"])
        and (a["src"], a["dst"]) != (b["src"], b["dst"])
        for i, a in enumerate(ms) for b in ms[i + 1:])
    try:
        lv = message_levels(case)
        f["rounds"] = (max(lv) + 1) if lv else 0
    except ModelError:
        f["rounds"] = -1
    return f

# }}}


# {{{ NumPy interpretation

def eval_np_case(case) -> list[list[Val | None]]:
    """NumPy value of every *live* node on every rank (demand driven across
    ranks: a receive takes the value of the matching send's payload)."""
    n = case["nranks"]
    vals: list[list[Val | None]] = [[None] * len(s["nodes"])
                                    for s in case["ranks"]]
    busy: set[tuple[int, int]] = set()
    sends: dict[tuple, list[tuple[int, int]]] = {}
    for r, s in enumerate(case["ranks"]):
        live = set(reachable_nodes(s))
        for i, nd in enumerate(s["nodes"]):
            if nd["op"] == "sendhold" and i in live:
                sends.setdefault((r, nd["p"]["dest"],
                                  decode_tag(nd["p"]["tag"])), []).append(
                    (r, nd["args"][0][1]))

    def value(r: int, i: int) -> Val:
        v = vals[r][i]
        if v is not None:
            return v
        if (r, i) in busy:
            raise ModelError("cyclic data flow")
        busy.add((r, i))
        nd = case["ranks"][r]["nodes"][i]
        op = nd["op"]
        if op in INPUT_OPS:
            v = np_input(nd)
        elif op == "recv":
            key = (nd["p"]["src"], r, decode_tag(nd["p"]["tag"]))
            got = sends.get(key, [])
            if len({g for g in got}) != 1:
                raise ModelError(f"{len(got)} sends for receive {key}")
            sv = value(*got[0])
            if list(sv.a.shape) != list(nd["p"]["shape"]) \
                    or str(sv.a.dtype) != nd["p"]["dtype"]:
                raise ModelError(f"shape/dtype mismatch on {key}")
            v = dataclasses.replace(sv, a=sv.a.copy())
        elif op == "sendhold":
            v = value(r, nd["args"][1][1])
        else:
            env = _Lazy(lambda j, r=r: value(r, j))
            args = [decode_arg(a, env) for a in nd.get("args", [])]
            v = npref.apply(op, args, nd.get("p"))
        busy.discard((r, i))
        vals[r][i] = v
        return v

    for r, s in enumerate(case["ranks"]):
        for i in reachable_nodes(s):
            if s["nodes"][i]["op"] == "sendhold":
                value(r, s["nodes"][i]["args"][0][1])
            value(r, i)
    assert len(vals) == n
    return vals


class _Lazy:
    def __init__(self, fn):
        self.fn = fn

    def __getitem__(self, j):
        return self.fn(j)

# }}}


# {{{ pytato side

@dataclass
class RankBuild:
    rank: int
    nodes: list[Any]
    outputs: Any                     # DictOfNamedArrays
    inputs: dict[str, np.ndarray]    # placeholder name -> value


def build_rank(case, r: int) -> RankBuild:
    import pytato as pt
    from pytato.array import InputArgumentBase
    from pytato.distributed.nodes import DistributedRecv, DistributedSendRefHolder
    spec = case["ranks"][r]
    env: list[Any] = []
    cache: dict = {}
    inputs: dict[str, np.ndarray] = {}
    for node in spec["nodes"]:
        op = node["op"]
        p = node.get("p") or {}
        if op in INPUT_OPS:
            ary = pt_input(node, env, cache)
            if op == "placeholder":
                inputs[p["name"]] = np_input(node).a
            if node.get("tags"):
                ary = apply_tags(ary, node["tags"])
        elif op == "recv":
            ary = pt.make_distributed_recv(
                src_rank=p["src"], comm_tag=decode_tag(p["tag"]),
                shape=tuple(p["shape"]), dtype=npref.dt(p["dtype"]))
            if node.get("tags"):
                ary = apply_tags(ary, node["tags"])
        elif op == "sendhold":
            a = [decode_arg(x, env) for x in node["args"]]
            send_tags = frozenset()
            if node.get("send_tags"):
                from pvf.ptbuild import make_tag
                send_tags = frozenset(make_tag(t) for t in node["send_tags"])
            ary = pt.staple_distributed_send(
                a[0], dest_rank=p["dest"], comm_tag=decode_tag(p["tag"]),
                stapled_to=a[1], send_tags=send_tags)
        else:
            args = [decode_arg(a, env) for a in node.get("args", [])]
            ary = apply_pt(op, args, node.get("p"))
            if node.get("tags") and not any(ary is a for a in args) \
                    and not isinstance(ary, (InputArgumentBase, DistributedRecv,
                                             DistributedSendRefHolder)):
                ary = apply_tags(ary, node["tags"])
        env.append(ary)
    outs = {k: env[i] for k, i in spec["outputs"]}
    # structurally equal nodes built twice are merged first: mappers refuse
    # ("cache collision") graphs with duplicates - the documented precondition
    # every property of this framework works under
    g = pt.transform.deduplicate(pt.make_dict_of_named_arrays(outs))
    return RankBuild(r, env, g, inputs)


def build_case(case) -> list[RankBuild]:
    return [build_rank(case, r) for r in range(case["nranks"])]

# }}}


# {{{ generator

@dataclass
class DistCfg:
    max_ranks: int = 4
    max_messages: int = 6
    max_len: int = 3
    max_size: int = 36
    p_zero: float = 0.04
    dtypes: tuple[str, ...] = ("int32", "int64", "float64")
    p_impl_stored: float = 0.10
    patterns: tuple[str, ...] | None = None
    min_ranks: int = 1


GROUPS = (
    (8, "arith", "g_arith"), (2, "maxmin", "g_maxmin"),
    (4, "reduce", "g_reduce"), (1, "stack", "g_stack"),
    (1, "concat", "g_concat"), (1, "roll", "g_roll"),
    (2, "transpose", "g_transpose"), (2, "reshape", "g_reshape"),
    (1, "expand", "g_expand"), (1, "squeeze", "g_squeeze"),
    (1, "broadcast", "g_broadcast"), (3, "index", "g_index"),
    # (a sparse product is one of the node kinds the partitioner's dependency
    # mappers treat by a method of their own)
    (1, "csr", "g_csr"),
)

PATTERNS = ("none", "random", "ring", "ringdep", "star_out", "star_in",
            "star_both", "chain", "double", "pingpong", "forward", "exchange2",
            "fanin")


class _RankGen(progen.Gen):
    """progen's value-directed generator, driven a few operations at a time."""

    def __init__(self, draw, cfg: progen.GenCfg, dims: list[int], rank: int):
        super().__init__(draw, cfg)
        self.nan_mode = False
        self.use_complex = False
        self.dims = list(dims)
        self.rank = rank
        self.pairs = [(w, (name, getattr(self, meth)))
                      for w, name, meth in GROUPS]
        self.last_recv: int | None = None
        self.recvs: list[int] = []
        self.deferred: list[dict] = []     # sends still to be stapled
        self.holders: list[int] = []

    def ops(self, k: int) -> None:
        if k > 0:
            self._phase(self.pairs, k)

    def deps(self) -> list[frozenset[int]]:
        return recv_deps({"nodes": self.nodes})

    def is_array(self, i: int) -> bool:
        v = self.vals[i]
        return isinstance(v.a, np.ndarray) and self.nodes[i]["op"] != "sizeparam"


class _Builder:
    def __init__(self, draw, cfg: DistCfg):
        self.draw = draw
        self.cfg = cfg
        self.used_tags: dict[tuple[int, int], list[Any]] = {}
        self.all_tags: list[Any] = []
        self.nmsg = 0

    def integers(self, lo, hi):
        return self.draw(st.integers(lo, hi))

    def boolean(self, num=1, den=2):
        return self.draw(st.integers(0, den - 1)) < num

    # -- plan
    def make_plan(self, pattern: str, n: int) -> list[tuple[int, int, str]]:
        d = self.draw
        if n == 1 or pattern == "none":
            return []
        plan: list[tuple[int, int, str]] = []
        perm = list(d(st.permutations(list(range(n)))))
        if pattern == "ring":
            plan = [(perm[k], perm[(k + 1) % n], "fresh") for k in range(n)]
            if 2 * n <= self.cfg.max_messages and self.boolean():
                plan += [(perm[k], perm[(k + 1) % n], "recv") for k in range(n)]
        elif pattern == "exchange2":
            a, b = perm[0], perm[1]
            plan = [(a, b, "fresh"), (b, a, "fresh")]
            if self.boolean():
                plan += [(a, b, "recv"), (b, a, "recv")]
        elif pattern == "ringdep":
            plan = [(perm[k], perm[(k + 1) % n], "recv" if k else "any")
                    for k in range(n)]
        elif pattern == "star_out":
            plan = [(perm[0], q, self.draw(st.sampled_from(["fresh", "any"])))
                    for q in perm[1:]]
        elif pattern == "star_in":
            plan = [(q, perm[0], "any") for q in perm[1:]]
        elif pattern == "star_both":
            plan = [(perm[0], q, "fresh") for q in perm[1:]]
            plan += [(q, perm[0], "recv") for q in perm[1:]]
        elif pattern == "chain":
            plan = [(perm[k], perm[k + 1], "recv" if k else "any")
                    for k in range(n - 1)]
            if n == 2:
                plan.append((perm[1], perm[0], "recv"))
        elif pattern == "double":
            a, b = perm[0], perm[1]
            plan = [(a, b, "any"), (a, b, self.draw(st.sampled_from(
                ["any", "same", "same"])))]
            if self.boolean():
                plan.append((b, a, "recv"))
        elif pattern == "pingpong":
            a, b = perm[0], perm[1]
            k = self.integers(2, 4)
            plan = [((a, b) if q % 2 == 0 else (b, a)) + ("recv" if q else "any",)
                    for q in range(k)]
        elif pattern == "fanin":
            # several messages one way, then a reply computed from ALL of
            # them (a send that depends on two or more receives)
            a, b = perm[0], perm[1]
            k = self.integers(2, 3)
            plan = [(a, b, "fresh") for _ in range(k)]
            if n >= 3 and self.boolean():
                plan[-1] = (perm[2], b, "fresh")
            plan.append((b, a, "allrecv"))
        elif pattern == "forward":
            a, b = perm[0], perm[1]
            c = perm[2] if n >= 3 else a
            plan = [(a, b, "any"), (b, c, "forward")]
            if self.boolean(1, 3) and n >= 3:
                plan.append((c, a, self.draw(st.sampled_from(["forward",
                                                              "recv"]))))
        else:   # random
            k = self.integers(1, self.cfg.max_messages)
            for _ in range(k):
                a = self.integers(0, n - 1)
                b = self.integers(0, n - 2)
                if b >= a:
                    b += 1
                plan.append((a, b, self.draw(st.sampled_from(
                    ["any", "any", "any", "recv", "recv", "fresh", "fresh",
                     "forward", "holderdep"]))))
        # a few more random messages on top of a pattern
        room = self.cfg.max_messages - len(plan)
        if pattern != "random" and room > 0 and self.boolean(1, 3):
            for _ in range(self.integers(1, min(2, room))):
                a = self.integers(0, n - 1)
                b = self.integers(0, n - 2)
                if b >= a:
                    b += 1
                plan.append((a, b, self.draw(st.sampled_from(
                    ["any", "any", "recv", "recv", "fresh", "forward",
                     "holderdep"]))))
        return plan[:self.cfg.max_messages]

    # -- tags
    def fresh_tag(self, src: int, dst: int):
        used = self.used_tags.setdefault((src, dst), [])
        for attempt in range(6):
            if self.all_tags and attempt == 0 and self.boolean(1, 3):
                t = self.draw(st.sampled_from(self.all_tags))
            else:
                t = draw_tag(self.draw)
            v = decode_tag(t)
            if all(v != decode_tag(u) for u in used):
                break
        else:
            t = ["tuple", [["int", 900 + len(used)], ["str", "uniq"]]]
        used.append(t)
        if all(decode_tag(t) != decode_tag(u) for u in self.all_tags):
            self.all_tags.append(t)
        return t

    # -- choosing what to send
    def choose_data(self, g: _RankGen, mode: str, prev: int | None) -> int:
        arrays = [i for i in range(len(g.nodes)) if g.is_array(i)
                  and g.nodes[i]["op"] != "sendhold"]
        deps = g.deps()
        if mode == "same" and prev is not None:
            return prev
        if mode == "forward" and g.last_recv is not None:
            return g.last_recv
        cands: list[int] = []
        if mode == "recv" and g.last_recv is not None:
            cands = [i for i in arrays if g.last_recv in deps[i]
                     and i != g.last_recv]
            if not cands:
                v = g.vals[g.last_recv]
                if v.kind != "b":
                    r = g.try_op("add", [["n", g.last_recv],
                                         ["py", self.integers(1, 3)]])
                    if r is not None:
                        cands = [r]
            if not cands:
                cands = [g.last_recv]
        elif mode == "allrecv" and len(g.recvs) >= 2:
            acc = g.recvs[0]
            for r in g.recvs[1:]:
                if g.vals[acc].kind != "b" and g.vals[r].kind != "b":
                    t = g.try_op("add", [["n", acc], ["n", r]])
                    if t is not None:
                        acc = t
            cands = [acc]
        elif mode == "fresh":
            cands = [i for i in arrays if not deps[i]]
        elif mode == "holderdep" and g.holders:
            # computed from the *value* of a send holder
            via: set[int] = set()
            for i, nd in enumerate(g.nodes):
                if nd["op"] != "sendhold" and any(
                        c in via or g.nodes[c]["op"] == "sendhold"
                        for c in data_children(nd)):
                    via.add(i)
            cands = [i for i in arrays if i in via]
            if not cands:
                h = g.holders[-1]
                if g.vals[h].kind != "b":
                    r = g.try_op("add", [["n", h], ["py", self.integers(1, 3)]])
                    if r is not None:
                        cands = [r]
        if not cands:
            cands = arrays
        pool = []
        n = len(g.nodes)
        for i in cands:
            w = 1
            if g.nodes[i]["op"] not in ("placeholder", "data", "recv"):
                w += 2
            if i >= n - 3:
                w += 1
            pool.extend([i] * w)
        return self.draw(st.sampled_from(pool))

    def emit(self, gens, src: int, dst: int, mode: str, prev):
        gs, gd = gens[src], gens[dst]
        gs.ops(self.integers(0, 2))
        x = self.choose_data(gs, mode, prev)
        v = gs.vals[x]
        tag = self.fresh_tag(src, dst)
        rnode = {"op": "recv", "p": {"src": src, "tag": tag,
                                     "shape": [int(s) for s in v.a.shape],
                                     "dtype": str(v.a.dtype)}}
        ri = gd.push(rnode, dataclasses.replace(v, a=v.a.copy()))
        gd.last_recv = ri
        gd.recvs.append(ri)
        send = {"data": x, "dest": dst, "tag": tag}
        if self.boolean():
            cands = [i for i in range(len(gs.nodes)) if gs.is_array(i)]
            y = gs.pick() if cands else None
            if y is None:
                gs.deferred.append(send)
            else:
                h = gs.push({"op": "sendhold", "args": [["n", x], ["n", y]],
                             "p": {"dest": dst, "tag": tag}}, gs.vals[y])
                gs.holders.append(h)
        else:
            gs.deferred.append(send)
        gd.ops(self.integers(0, 2))
        self.nmsg += 1
        return x

    # -- finishing one rank
    def finish(self, g: _RankGen) -> dict:
        d = self.draw
        g.ops(self.integers(0, 3))
        arrays = [i for i in range(len(g.nodes)) if g.is_array(i)]
        inputs = [i for i in arrays if g.nodes[i]["op"] in ("placeholder", "data")]
        opsn = [i for i in arrays if g.nodes[i]["op"] not in (
            "placeholder", "data", "recv")]
        sinks = [i for i in opsn if g.uses[i] == 0]
        outs: list[int] = []
        for k in range(self.integers(1, 3)):
            pool = sinks * 6 + opsn * 2 + arrays
            if k > 0 and outs and self.boolean(1, 8):
                outs.append(outs[0])
                continue
            c = d(st.sampled_from(pool))
            outs.append(c)
            sinks = [s for s in sinks if s != c] or sinks
        if inputs and self.boolean(1, 6):
            outs.append(d(st.sampled_from(inputs)))
        if g.recvs and self.boolean(1, 5):
            outs.append(d(st.sampled_from(g.recvs)))
        # deferred sends are stapled onto outputs
        for send in g.deferred:
            k = self.integers(0, len(outs) - 1)
            h = g.push({"op": "sendhold",
                        "args": [["n", send["data"]], ["n", outs[k]]],
                        "p": {"dest": send["dest"], "tag": send["tag"]}},
                       g.vals[outs[k]])
            g.holders.append(h)
            outs[k] = h
        # everything that communicates must be part of the graph
        spec = {"nodes": g.nodes, "outputs": [[f"out{k}", i]
                                              for k, i in enumerate(outs)]}
        while True:
            live = set(reachable_nodes(spec))
            dead = [i for i in g.holders + g.recvs if i not in live]
            if not dead:
                break
            # holders first (they may make receives live)
            i = dead[0]
            tgt = i
            if g.nodes[i]["op"] == "recv":
                # prefer an array computed from the receive over the bare one
                users = [j for j in range(i + 1, len(g.nodes))
                         if i in node_refs(g.nodes[j])]
                if users:
                    tgt = users[-1]
                    more = True
                    while more:
                        more = False
                        for j in range(tgt + 1, len(g.nodes)):
                            if tgt in node_refs(g.nodes[j]):
                                tgt = j
                                more = True
                                break
                elif g.vals[i].kind != "b" and not self.boolean(1, 3):
                    r = g.try_op("add", [["n", i], g.partner(i)])
                    if r is not None:
                        tgt = r
            spec["outputs"].append([f"out{len(spec['outputs'])}", tgt])
        # materialisation tags anywhere
        pst = int(self.cfg.p_impl_stored * 100) if self.stored else 0
        for i in sorted(set(reachable_nodes(spec))):
            nd = g.nodes[i]
            if nd["op"] == "sendhold":
                continue
            p = pst
            if nd["op"] in ("placeholder", "data"):
                p = pst // 3
            if self.integers(0, 99) < p:
                nd.setdefault("tags", []).append(["ImplStored"])
            elif self.integers(0, 99) < 4 and nd["op"] not in (
                    "placeholder", "data"):
                nd.setdefault("tags", []).append(["User", f"u{i % 2}"])
        return spec

    def run(self):
        cfg, d = self.cfg, self.draw
        # (Hypothesis favours the first entry of a pool in its earliest, simplest
        # examples: the interesting choices come first)
        n = progen._w(d, [(w, k) for w, k in ((5, 3), (5, 2), (3, 4), (1, 1))
                          if cfg.min_ranks <= k <= cfg.max_ranks])
        pats = list(cfg.patterns or PATTERNS)
        weights = {"none": 1, "random": 5, "ring": 3, "ringdep": 2,
                   "star_out": 2, "star_in": 2, "star_both": 2, "chain": 3,
                   "double": 3, "pingpong": 3, "forward": 2, "exchange2": 2,
                   "fanin": 3}
        pats.sort(key=lambda p: (p == "none", p != "pingpong"))
        pattern = "none" if n == 1 else progen._w(
            d, [(weights[p], p) for p in pats])
        dims = [self.integers(1, cfg.max_len)
                for _ in range(self.integers(2, 3))]
        if self.integers(0, 99) < int(cfg.p_zero * 100):
            dims.append(0)
        gcfg = progen.GenCfg(
            min_ops=0, max_ops=3, max_inputs=2, max_outputs=3,
            dtypes=cfg.dtypes, p_nan=0.0, p_zero=0.0, p_complex=0.0,
            max_ndim=3, max_len=cfg.max_len, max_size=cfg.max_size,
            data_wrappers=True)
        gens = [_RankGen(d, gcfg, dims, r) for r in range(n)]
        self.stored = not self.boolean(1, 4)
        for g in gens:
            for _ in range(self.integers(1, 2)):
                g.new_input()
            g.ops(self.integers(0, 2))
        plan = self.make_plan(pattern, n)
        prev = None
        for src, dst, mode in plan:
            prev = self.emit(gens, src, dst, mode, prev if mode == "same"
                             else None)
        ranks = [self.finish(g) for g in gens]
        ranks = [self.hoist_holder(r) for r in ranks]
        case = {"nranks": n, "pattern": pattern,
                "ranks": copy.deepcopy(ranks)}
        return gc_case(case)

    def hoist_holder(self, spec):
        """Sometimes make an EARLIER consumer of a holder's pass-through
        operand use the holder instead (x -> staple_send(data, ..., x)): the
        value is the same and, a holder's value being its pass-through only,
        so are the message dependencies - but the holder of a later message
        now sits inside the payload of an earlier one."""
        if not self.boolean(1, 3):
            return spec
        nodes = spec["nodes"]
        holders = [i for i, n in enumerate(nodes) if n["op"] == "sendhold"]
        cands = []
        for h in holders:
            y = nodes[h]["args"][1][1]
            for j in range(len(nodes)):
                if j == h or nodes[j]["op"] == "sendhold":
                    continue
                for pos, a in enumerate(nodes[j].get("args", [])):
                    if a[0] == "n" and a[1] == y and j < h:
                        cands.append((h, j, pos))
        if not cands:
            return spec
        h, j, pos = self.draw(st.sampled_from(cands))
        new = copy.deepcopy(spec)
        new["nodes"][j]["args"][pos] = ["n", h]
        try:
            return toposort_rank(new)
        except ModelError:
            return spec           # (the holder's data depends on that consumer)


@st.composite
def cases(draw, cfg: DistCfg | None = None):
    """-> JSON case (see module docstring)."""
    return _Builder(draw, cfg or DistCfg()).run()

# }}}


def pretty(case) -> str:
    """Human-readable listing (for reports)."""
    lines = [f"{case['nranks']} rank(s), pattern {case.get('pattern')}"]
    for r, s in enumerate(case["ranks"]):
        lines.append(f" rank {r}:")
        for i, n in enumerate(s["nodes"]):
            op = n["op"]
            p = n.get("p") or {}
            if op in ("placeholder", "data"):
                d = f"{op} {p.get('name', '')} {p['dtype']}{p['shape']}"
            elif op == "recv":
                d = (f"recv(src={p['src']}, tag={decode_tag(p['tag'])!r}) "
                     f"{p['dtype']}{p['shape']}")
            elif op == "sendhold":
                d = (f"hold(send(%{n['args'][0][1]} -> rank {p['dest']}, "
                     f"tag={decode_tag(p['tag'])!r}), passthrough=%"
                     f"{n['args'][1][1]})")
            else:
                a = ", ".join(f"%{x[1]}" if x[0] == "n" else repr(x[-1])
                              for x in n.get("args", []))
                d = f"{op}({a}) {canon(p) if p else ''}"
            t = f"  tags={n['tags']}" if n.get("tags") else ""
            lines.append(f"   %{i} = {d}{t}")
        lines.append("   outputs: " + ", ".join(f"{k}=%{i}"
                                                 for k, i in s["outputs"]))
    return "\n".join(lines)


# {{{ structural minimiser for multi-rank cases

def _ncomm(case) -> int:
    n = 0
    for s in case["ranks"]:
        live = set(reachable_nodes(s))
        n += sum(1 for i in live if s["nodes"][i]["op"] in ("recv", "sendhold"))
    return n


def _redirect(spec, i: int, j: int) -> dict:
    """references to node i (operands and outputs) become references to j."""
    out = copy.deepcopy(spec)
    for n in out["nodes"]:
        if "args" in n:
            n["args"] = [["n", j] if (a[0] == "n" and a[1] == i) else a
                         for a in n["args"]]
    out["outputs"] = [[k, j if q == i else q] for k, q in out["outputs"]]
    return out


def drop_message(case, m: dict, vals) -> dict | None:
    """remove one matched send/receive pair: the holder is replaced by its
    pass-through operand, the receive by an input carrying its value."""
    from pvf.minimize import _value_to_input
    if m["recv"] is None:
        return None
    out = copy.deepcopy(case)
    src, dst = m["src"], m["dst"]
    hold = out["ranks"][src]["nodes"][m["hold"]]
    out["ranks"][src] = _redirect(out["ranks"][src], m["hold"],
                                  hold["args"][1][1])
    v = vals[dst][m["recv"]]
    if v is None:
        return None
    names = {n["p"].get("name") for n in out["ranks"][dst]["nodes"]
             if n["op"] == "placeholder"}
    k = 0
    while f"m{k}" in names:
        k += 1
    repl = _value_to_input(v, f"m{k}")
    if repl is None:
        return None
    out["ranks"][dst]["nodes"][m["recv"]] = repl
    return gc_case(out)


def drop_rank(case, r: int) -> dict | None:
    if case["nranks"] <= 1:
        return None
    for q, s in enumerate(case["ranks"]):
        for n in s["nodes"]:
            if n["op"] == "recv" and (q == r or n["p"]["src"] == r):
                return None
            if n["op"] == "sendhold" and (q == r or n["p"]["dest"] == r):
                return None
    out = copy.deepcopy(case)
    del out["ranks"][r]
    out["nranks"] -= 1
    for s in out["ranks"]:
        for n in s["nodes"]:
            if n["op"] == "recv" and n["p"]["src"] > r:
                n["p"]["src"] -= 1
            if n["op"] == "sendhold" and n["p"]["dest"] > r:
                n["p"]["dest"] -= 1
    return out


def minimize_case(case, still_fails, budget: int = 70) -> dict:
    """Greedy reduction of a *valid* multi-rank case that keeps it valid
    (messages are only removed in matched pairs; nothing that communicates
    becomes dead)."""
    from pvf.minimize import _value_to_input
    used = [0]

    def test(c) -> bool:
        if used[0] >= budget:
            return False
        used[0] += 1
        try:
            return bool(still_fails(c))
        except Exception:  # noqa: BLE001
            return False

    best = gc_case(copy.deepcopy(case))

    def values(c):
        try:
            return eval_np_case(c)
        except Exception:  # noqa: BLE001
            return None

    # 1. messages, last first
    changed = True
    while changed and used[0] < budget:
        changed = False
        vals = values(best)
        if vals is None:
            break
        for m in reversed(messages(best)):
            cand = drop_message(best, m, vals)
            if cand is not None and test(cand):
                best = cand
                changed = True
                break
    # 2. idle ranks
    r = best["nranks"] - 1
    while r >= 0 and used[0] < budget:
        cand = drop_rank(best, r)
        if cand is not None and test(cand):
            best = cand
        r -= 1
    # 3. tags
    if any(n.get("tags") for s in best["ranks"] for n in s["nodes"]):
        cand = copy.deepcopy(best)
        for s in cand["ranks"]:
            for n in s["nodes"]:
                n.pop("tags", None)
        if test(cand):
            best = cand
        else:
            for ri, s in enumerate(best["ranks"]):
                for i, n in enumerate(s["nodes"]):
                    if n.get("tags") and used[0] < budget:
                        cand = copy.deepcopy(best)
                        cand["ranks"][ri]["nodes"][i].pop("tags")
                        if test(cand):
                            best = cand
    # 4. outputs that nothing communicating hangs on
    for ri in range(best["nranks"]):
        k = len(best["ranks"][ri]["outputs"]) - 1
        while k >= 0 and used[0] < budget:
            s = best["ranks"][ri]
            if len(s["outputs"]) > 1:
                cand = copy.deepcopy(best)
                del cand["ranks"][ri]["outputs"][k]
                cand = gc_case(cand)
                if _ncomm(cand) == _ncomm(best) and test(cand):
                    best = cand
            k -= 1
    # 5. operation nodes -> inputs carrying their value
    changed = True
    while changed and used[0] < budget:
        changed = False
        vals = values(best)
        if vals is None:
            break
        for ri, s in enumerate(best["ranks"]):
            order = sorted(range(len(s["nodes"])), reverse=True)
            for i in order:
                n = s["nodes"][i]
                if n["op"] in INPUT_OPS + ("recv", "sendhold") or not node_refs(n):
                    continue
                if vals[ri][i] is None:
                    continue
                names = {q["p"].get("name") for q in s["nodes"]
                         if q["op"] == "placeholder"}
                k = 0
                while f"m{k}" in names:
                    k += 1
                repl = _value_to_input(vals[ri][i], f"m{k}")
                if repl is None:
                    continue
                cand = copy.deepcopy(best)
                cand["ranks"][ri]["nodes"][i] = repl
                cand = gc_case(cand)
                if _ncomm(cand) == _ncomm(best) and sum(
                        len(q["nodes"]) for q in cand["ranks"]) < sum(
                        len(q["nodes"]) for q in best["ranks"]) and test(cand):
                    best = cand
                    changed = True
                    break
            if changed:
                break
    # 6. plain integer tags
    tags: list = []
    for s in best["ranks"]:
        for n in s["nodes"]:
            if n["op"] in ("recv", "sendhold"):
                v = decode_tag(n["p"]["tag"])
                if all(v != u for u in tags):
                    tags.append(v)
    if any(not isinstance(t, int) for t in tags) and used[0] < budget:
        cand = copy.deepcopy(best)
        for s in cand["ranks"]:
            for n in s["nodes"]:
                if n["op"] in ("recv", "sendhold"):
                    v = decode_tag(n["p"]["tag"])
                    n["p"]["tag"] = ["int", 10 + [k for k, u in enumerate(tags)
                                                  if u == v][0]]
        if test(cand):
            best = cand
    return best

# }}}


def toposort_rank(spec) -> dict:
    """Reorder the nodes of one rank so that operands precede their users
    (fault injection appends nodes that earlier nodes are then made to use)."""
    nodes = spec["nodes"]
    order: list[int] = []
    state = [0] * len(nodes)

    def visit(i: int) -> None:
        if state[i] == 2:
            return
        if state[i] == 1:
            raise ModelError("rank-local cycle")
        state[i] = 1
        for j in node_refs(nodes[i]):
            visit(j)
        state[i] = 2
        order.append(i)
    for i in range(len(nodes)):
        visit(i)
    remap = {old: new for new, old in enumerate(order)}
    out_nodes = []
    for old in order:
        n = copy.deepcopy(nodes[old])
        if "args" in n:
            n["args"] = [["n", remap[a[1]]] if a[0] == "n" else a
                         for a in n["args"]]
        out_nodes.append(n)
    return {"nodes": out_nodes,
            "outputs": [[k, remap[i]] for k, i in spec["outputs"]]}
