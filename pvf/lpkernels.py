"""Hand-written loopy kernels for ``call_loopy`` nodes, with NumPy models.

Shapes are static (the installed islpy lacks ``BasicSet.dim_max``, which
pytato's callee shape inference needs; that is why the repository's own
``test_call_loopy_shape_inference`` is not in the baseline).
"""
from __future__ import annotations

from dataclasses import dataclass
from typing import Any, Callable

import numpy as np

from pvf import npref
from pvf.npref import Unsound, Val

_knl_cache: dict[Any, Any] = {}


def _target():
    from pvf.cexec import loopy_c_target
    return loopy_c_target()


def _dom(names_and_sizes) -> str:
    names = ",".join(n for n, _ in names_and_sizes)
    cons = " and ".join(f"0<={n}<{s}" for n, s in names_and_sizes)
    return f"{{[{names}]: {cons}}}"


def _make(name: str, shape: tuple[int, ...], dtype: np.dtype):
    import loopy as lp
    key = (name, shape, dtype)
    if key in _knl_cache:
        return _knl_cache[key]
    n, m = shape
    if name == "scale_shift":
        knl = lp.make_kernel(
            _dom([("i", n), ("j", m)]),
            "out[i,j] = a*x[i,j] + y[j]",
            [lp.GlobalArg("x", shape=(n, m), dtype=dtype),
             lp.GlobalArg("y", shape=(m,), dtype=dtype),
             lp.ValueArg("a", dtype=dtype),
             lp.GlobalArg("out", shape=(n, m), dtype=dtype, is_input=False),
             ...],
            target=_target(), name="pvf_scale_shift",
            lang_version=(2018, 2))
    elif name == "rowsum":
        knl = lp.make_kernel(
            _dom([("i", n), ("j", m)]),
            "rs[i] = sum(j, x[i,j])",
            [lp.GlobalArg("x", shape=(n, m), dtype=dtype),
             lp.GlobalArg("rs", shape=(n,), dtype=dtype, is_input=False),
             ...],
            target=_target(), name="pvf_rowsum", lang_version=(2018, 2))
    elif name == "twoout":
        knl = lp.make_kernel(
            _dom([("i", n), ("j", m), ("i2", n), ("j2", m)]),
            ["rs[i] = sum(j, x[i,j])",
             "cs[j2] = sum(i2, x[i2,j2])*a"],
            [lp.GlobalArg("x", shape=(n, m), dtype=dtype),
             lp.ValueArg("a", dtype=dtype),
             lp.GlobalArg("rs", shape=(n,), dtype=dtype, is_input=False),
             lp.GlobalArg("cs", shape=(m,), dtype=dtype, is_input=False),
             ...],
            target=_target(), name="pvf_twoout", lang_version=(2018, 2))
    else:
        raise ValueError(name)
    _knl_cache[key] = knl
    return knl


@dataclass
class LpKernel:
    name: str
    outputs: tuple[str, ...]
    np_apply: Callable[[list, dict], Val]
    pt_apply: Callable[[list, dict], Any]


def _check_x(x: Val) -> None:
    if x.a.ndim != 2 or 0 in x.a.shape:
        raise Unsound("loopy-call kernels take non-empty 2-D arrays")
    if x.a.dtype not in (np.dtype(np.float64), np.dtype(np.float32)):
        raise Unsound("loopy-call kernels are float32/float64")
    if x.nonfinite:
        raise Unsound("loopy call in NaN mode")


def _np_scale_shift(args, p) -> Val:
    x, y = args
    _check_x(x)
    if y.a.shape != (x.a.shape[1],) or y.a.dtype != x.a.dtype or y.nonfinite:
        raise Unsound("scale_shift: y mismatch")
    a = x.a.dtype.type(p["a"])
    ax = npref.apply("mul", [x, a])
    out = npref.apply("add", [ax, y])
    return Val({"out": out})


def _np_rowsum(args, p) -> Val:
    (x,) = args
    _check_x(x)
    return Val({"rs": npref.apply("sum", [x], {"axis": 1})})


def _np_twoout(args, p) -> Val:
    (x,) = args
    _check_x(x)
    a = x.a.dtype.type(p["a"])
    rs = npref.apply("sum", [x], {"axis": 1})
    cs = npref.apply("mul", [npref.apply("sum", [x], {"axis": 0}), a])
    return Val({"rs": rs, "cs": cs})


def _dedup(**arrays):
    """call_loopy walks all bindings with one cached mapper, which (as every
    pytato mapper) expects a duplicate-free graph: deduplicate them jointly,
    as a user has to."""
    import pytato as pt
    d = pt.transform.deduplicate(pt.make_dict_of_named_arrays(arrays))
    return {k: d[k].expr for k in arrays}


def _pt_scale_shift(args, p):
    from pytato.loopy import call_loopy
    x, y = args
    dd = _dedup(x=x, y=y)
    x, y = dd["x"], dd["y"]
    knl = _make("scale_shift", tuple(x.shape), x.dtype)
    return call_loopy(knl, {"x": x, "y": y, "a": x.dtype.type(p["a"])})


def _pt_rowsum(args, p):
    from pytato.loopy import call_loopy
    (x,) = args
    x = _dedup(x=x)["x"]
    knl = _make("rowsum", tuple(x.shape), x.dtype)
    return call_loopy(knl, {"x": x})


def _pt_twoout(args, p):
    from pytato.loopy import call_loopy
    (x,) = args
    x = _dedup(x=x)["x"]
    knl = _make("twoout", tuple(x.shape), x.dtype)
    return call_loopy(knl, {"x": x, "a": x.dtype.type(p["a"])})


KERNELS = {
    "scale_shift": LpKernel("scale_shift", ("out",), _np_scale_shift,
                            _pt_scale_shift),
    "rowsum": LpKernel("rowsum", ("rs",), _np_rowsum, _pt_rowsum),
    "twoout": LpKernel("twoout", ("rs", "cs"), _np_twoout, _pt_twoout),
}
