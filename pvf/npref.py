"""NumPy interpretation of the program grammar, with soundness bookkeeping.

``apply(op, args, params)`` evaluates one grammar operation with NumPy and
returns a :class:`Val` carrying, besides the array,

* ``err``   - a bound on the absolute rounding error of every finite entry
              (forward error analysis; 0.0 means *computed exactly*),
* ``scale`` - if not None: every finite entry is an integer multiple of
              ``2**-scale`` and was computed without rounding,
* ``nonfinite`` - the value may contain NaN/inf (NaN-mode programs).

It raises :class:`Unsound` whenever the operation would leave the fragment in
which NumPy, C99 and the documented pytato semantics provably agree (division
by something close to zero, a comparison whose operands are closer than their
error bounds, integer overflow, ...).  The generator uses that to choose
another operation; the checks use it to skip (and count) a case.  Nothing in
this module imports pytato.
"""
from __future__ import annotations

import math
from dataclasses import dataclass
from typing import Any

import numpy as np


class Unsound(Exception):
    """Outside the fragment where the oracle is sound."""


class NpReject(Exception):
    """NumPy itself rejects the operation (shape/axis/index error)."""


INT_BOUND = 1 << 20

DTYPES = {
    "bool": np.dtype(np.bool_), "int8": np.dtype(np.int8),
    "int16": np.dtype(np.int16), "int32": np.dtype(np.int32),
    "int64": np.dtype(np.int64), "uint8": np.dtype(np.uint8),
    "uint16": np.dtype(np.uint16), "uint32": np.dtype(np.uint32),
    "uint64": np.dtype(np.uint64), "float32": np.dtype(np.float32),
    "float64": np.dtype(np.float64), "complex64": np.dtype(np.complex64),
    "complex128": np.dtype(np.complex128),
}


def dt(name) -> np.dtype:
    if isinstance(name, np.dtype):
        return name
    return DTYPES[name]


@dataclass
class Val:
    a: Any                      # ndarray, or dict[str, Val] for multi-results
    err: float = 0.0
    scale: int | None = 0
    nonfinite: bool = False

    @property
    def exact(self) -> bool:
        return self.scale is not None and self.err == 0.0

    @property
    def dtype(self) -> np.dtype:
        return self.a.dtype

    @property
    def shape(self) -> tuple[int, ...]:
        return self.a.shape

    @property
    def kind(self) -> str:
        return self.a.dtype.kind


# {{{ helpers

def is_val(x) -> bool:
    return isinstance(x, Val)


def raw(x):
    return x.a if isinstance(x, Val) else x


def _lit_scale(x) -> int | None:
    """Scale of a scalar literal (python or numpy scalar)."""
    if isinstance(x, (bool, np.bool_, int, np.integer)):
        return 0
    if isinstance(x, (complex, np.complexfloating)):
        a = _lit_scale(float(x.real))
        b = _lit_scale(float(x.imag))
        if a is None or b is None:
            return None
        return max(a, b)
    x = float(x)
    if not math.isfinite(x):
        return 0
    num, den = x.as_integer_ratio()
    s = den.bit_length() - 1
    if s > 40:
        return None
    return s


def meta(x) -> Val:
    """Metadata view of an operand (Val or literal)."""
    if isinstance(x, Val):
        return x
    a = np.asarray(x)
    nonfinite = bool(a.dtype.kind in "fc" and not np.isfinite(a).all())
    sc = _lit_scale(x)
    return Val(a, 0.0, sc, nonfinite)


def _finite(a: np.ndarray) -> np.ndarray:
    if a.dtype.kind in "fc":
        return a[np.isfinite(a)]
    return a.ravel()


def maxabs(a) -> float:
    a = np.asarray(a)
    if a.size == 0:
        return 0.0
    f = _finite(a)
    if f.size == 0:
        return 0.0
    if a.dtype.kind == "b":
        return float(f.any())
    if a.dtype.kind == "c":
        return float(np.max(np.abs(f)))
    return float(np.max(np.abs(f.astype(np.float64) if a.dtype.kind in "iu"
                               else f)))


def minabs(a) -> float:
    a = np.asarray(a)
    f = _finite(a)
    if f.size == 0:
        return math.inf
    return float(np.min(np.abs(f.astype(np.float64) if a.dtype.kind in "iu"
                               else f)))


def mant(dtype: np.dtype) -> int:
    dtype = np.dtype(dtype)
    if dtype in (np.dtype(np.float32), np.dtype(np.complex64)):
        return 24
    if dtype in (np.dtype(np.float64), np.dtype(np.complex128)):
        return 53
    return 63


def eps(dtype: np.dtype) -> float:
    dtype = np.dtype(dtype)
    if dtype.kind == "c":
        return 4 * float(np.finfo(dtype).eps)
    if dtype.kind == "f":
        return float(np.finfo(dtype).eps)
    return 0.0


def fits(a: np.ndarray, scale: int | None, dtype=None) -> bool:
    """Is every finite entry (an integer multiple of 2**-scale) exactly
    representable in *dtype*?"""
    if scale is None:
        return False
    dtype = np.dtype(dtype if dtype is not None else a.dtype)
    if dtype.kind not in "fc":
        return True
    if a.dtype.kind == "c":
        m = max(maxabs(a.real), maxabs(a.imag))
    else:
        m = maxabs(a)
    if m == 0.0:
        return True
    return m * (2.0 ** scale) < 2.0 ** mant(dtype) and scale < 60


def _check_int(r: np.ndarray) -> None:
    if r.dtype.kind in "iu" and r.size and maxabs(r) > INT_BOUND:
        raise Unsound("integer magnitude bound exceeded")


def _has_nonfinite(r: np.ndarray) -> bool:
    return bool(r.dtype.kind in "fc" and r.size and not np.isfinite(r).all())


def _cond_limit(r: np.ndarray, err: float) -> None:
    """Keep programs in a well-conditioned regime so that the tolerance stays
    far below the effect of any real defect."""
    if err == 0.0:
        return
    if not math.isfinite(err):
        raise Unsound("unbounded error")
    lim = 1e-9 if mant(r.dtype) == 53 else 2e-3
    if err > lim * max(1.0, maxabs(r)):
        raise Unsound("ill-conditioned")
    if maxabs(r) > 1e12:
        raise Unsound("magnitude too large")


def _mk(r, err: float, scale, nonfinite: bool) -> Val:
    r = np.asarray(r)
    if r.dtype.kind in "biu":
        _check_int(r)
        return Val(r, 0.0, 0, False)
    nf = _has_nonfinite(r)
    if nf and not nonfinite:
        raise Unsound("non-finite value in finite-mode program")
    if err == 0.0 and scale is not None and fits(r, scale):
        return Val(r, 0.0, scale, nf)
    if nonfinite or nf:
        # NaN-mode programs must stay exact (comparisons follow)
        raise Unsound("inexact value in NaN-mode program")
    if err == 0.0:
        err = eps(r.dtype) * maxabs(r)
    _cond_limit(r, err)
    return Val(r, float(err), None, False)


def _common_scale(*vs: Val) -> int | None:
    if all(v.exact for v in vs):
        return max(v.scale for v in vs)
    return None


def _np(fn, *a, **kw):
    try:
        with np.errstate(all="ignore"):
            return fn(*a, **kw)
    except (ValueError, IndexError, np.exceptions.AxisError) as e:
        raise NpReject(f"{type(e).__name__}: {e}") from e
    except TypeError as e:
        raise NpReject(f"TypeError: {e}") from e

# }}}


# {{{ elementwise arithmetic

def _res_dtype(x, y) -> np.dtype:
    return np.result_type(raw(x), raw(y))


def _arith(op: str, x, y) -> Val:
    fn = {"add": np.add, "sub": np.subtract, "mul": np.multiply,
          "truediv": np.true_divide, "floordiv": np.floor_divide,
          "mod": np.remainder, "pow": np.power}[op]
    vx, vy = meta(x), meta(y)
    kx, ky = vx.kind, vy.kind
    if op in ("truediv", "floordiv", "mod", "pow") and kx == "b" and ky == "b":
        raise Unsound("bool-bool division/power is outside the fragment")
    if op == "sub" and _res_dtype(x, y).kind == "b":
        raise Unsound("boolean subtract")
    nonfinite = vx.nonfinite or vy.nonfinite
    if nonfinite and op not in ("add", "sub", "mul"):
        raise Unsound("NaN-mode restricts arithmetic to + - *")

    if op in ("floordiv", "mod"):
        rd = _res_dtype(x, y)
        if rd.kind not in "iu":
            raise Unsound("floor division/remainder only on integers")
        if vy.a.size and minabs(vy.a) == 0:
            raise Unsound("integer division by zero")
    if op == "truediv":
        if kx in "biu" and ky in "biu":
            if vy.a.size and minabs(vy.a) == 0:
                raise Unsound("division by zero")
    if op == "pow":
        return _pow(x, y, vx, vy)

    r = np.asarray(_np(fn, raw(x), raw(y)))
    if r.dtype.kind in "biu":
        return _mk(r, 0.0, 0, False)

    ex, ey = vx.err, vy.err
    ax, ay = maxabs(vx.a), maxabs(vy.a)
    u = eps(r.dtype)
    if op in ("add", "sub"):
        sc = _common_scale(vx, vy)
        if sc is not None and fits(r, sc):
            return _mk(r, 0.0, sc, nonfinite)
        err = ex + ey + u * maxabs(r)
        return _mk(r, err, None, nonfinite)
    if op == "mul":
        if vx.exact and vy.exact:
            sc = vx.scale + vy.scale
            if fits(r, sc):
                return _mk(r, 0.0, sc, nonfinite)
        err = ax * ey + ay * ex + ex * ey + u * maxabs(r)
        return _mk(r, err, None, nonfinite)
    if op == "truediv":
        my = minabs(vy.a)
        if vy.a.size and (my < 2.0 ** -5 or ey > my / 8):
            raise Unsound("divisor too close to zero")
        if not vy.a.size or not r.size:
            return _mk(r, 0.0, 0, False)
        err = (ex + maxabs(r) * ey) / (my - ey) + 2 * u * maxabs(r)
        return _mk(r, err, None, False)
    raise AssertionError(op)


def _pow(x, y, vx: Val, vy: Val) -> Val:
    kx, ky = vx.kind, vy.kind
    rd = _res_dtype(x, y)
    if rd.kind in "iu":
        # integer ** integer: non-negative small exponents only
        if vy.a.size and (np.min(vy.a) < 0 or np.max(vy.a) > 3):
            raise Unsound("integer power: exponent outside 0..3")
        if maxabs(vx.a) > 64:
            raise Unsound("integer power: base too large")
        r = np.asarray(_np(np.power, raw(x), raw(y)))
        return _mk(r, 0.0, 0, False)
    if rd.kind == "b":
        raise Unsound("bool power")
    # float / complex result
    small_int_exp = (not is_val(y) and isinstance(y, (int, np.integer))
                     and not isinstance(y, (bool, np.bool_)) and 0 <= int(y) <= 3)
    r = np.asarray(_np(np.power, raw(x), raw(y)))
    u = eps(r.dtype)
    if small_int_exp:
        k = int(y)
        if kx in "biu":
            return _mk(r, 0.0, 0, False)
        ax = maxabs(vx.a) + vx.err
        if vx.exact and fits(r, vx.scale * k if k else 0):
            # x**k computed by repeated multiplication or libm pow: both exact
            return _mk(r, 0.0, vx.scale * k if k else 0, False)
        err = k * (ax ** max(k - 1, 0)) * vx.err + 8 * u * maxabs(r)
        return _mk(r, err, None, False)
    # general power: need a positive real base / base in right half plane
    if kx == "c" or ky == "c":
        if kx != "c":
            raise Unsound("real ** complex")
        if not vx.a.size:
            return _mk(r, 0.0, 0, False)
        if float(np.min(vx.a.real)) - vx.err < 2.0 ** -3:
            raise Unsound("complex power: base not in right half plane")
        if ky == "c" or maxabs(vy.a) > 3:
            raise Unsound("complex power: exponent")
        mb = minabs(vx.a)
        err = maxabs(r) * (maxabs(vy.a) * vx.err / (mb - vx.err)
                           + (abs(math.log(mb)) + abs(math.log(maxabs(vx.a))) + 4)
                           * vy.err) + 32 * u * maxabs(r)
        return _mk(r, err, None, False)
    if not vx.a.size or not r.size:
        return _mk(r, 0.0, 0, False)
    lo = float(np.min(vx.a)) - vx.err
    if lo < 2.0 ** -3:
        raise Unsound("power: base not safely positive")
    if maxabs(vy.a) > 4:
        raise Unsound("power: exponent too large")
    hi = maxabs(vx.a) + vx.err
    lg = max(abs(math.log(lo)), abs(math.log(hi)))
    err = maxabs(r) * (maxabs(vy.a) * vx.err / lo + lg * vy.err) \
        + 16 * u * maxabs(r) * (1 + lg * maxabs(vy.a))
    return _mk(r, err, None, False)


def _bitwise(op: str, x, y) -> Val:
    fn = {"and": np.bitwise_and, "or": np.bitwise_or, "xor": np.bitwise_xor}[op]
    vx, vy = meta(x), meta(y)
    if vx.kind not in "biu" or vy.kind not in "biu":
        raise Unsound("bitwise on non-integers")
    r = np.asarray(_np(fn, raw(x), raw(y)))
    return _mk(r, 0.0, 0, False)


def _separated(vx: Val, vy: Val) -> None:
    if vx.exact and vy.exact:
        return
    if vx.nonfinite or vy.nonfinite:
        raise Unsound("NaN-mode comparison of inexact operands")
    a, b = np.broadcast_arrays(vx.a, vy.a)
    if a.size == 0:
        return
    d = float(np.min(np.abs(a.astype(np.result_type(a, b))
                            - b.astype(np.result_type(a, b)))))
    if d <= 8 * (vx.err + vy.err) + 1e-300 or d < 1e-6 * max(
            1.0, maxabs(a), maxabs(b)):
        raise Unsound("comparison operands not separated")


def _compare(op: str, x, y) -> Val:
    fn = {"equal": np.equal, "not_equal": np.not_equal, "less": np.less,
          "less_equal": np.less_equal, "greater": np.greater,
          "greater_equal": np.greater_equal}[op]
    vx, vy = meta(x), meta(y)
    if (vx.kind == "c" or vy.kind == "c") and op not in ("equal", "not_equal"):
        raise Unsound("ordering of complex numbers")
    _separated(vx, vy)
    r = np.asarray(_np(fn, raw(x), raw(y)))
    return Val(r, 0.0, 0, False)


def _truth_stable(v: Val) -> None:
    if v.exact or v.kind in "biu":
        return
    if v.nonfinite:
        raise Unsound("truth value of inexact NaN-mode operand")
    a = np.abs(v.a)
    if a.size and float(np.min(a)) <= 8 * v.err:
        raise Unsound("truth value of a value indistinguishable from zero")


def _logical(op: str, x, y) -> Val:
    fn = {"logical_and": np.logical_and, "logical_or": np.logical_or}[op]
    vx, vy = meta(x), meta(y)
    _truth_stable(vx)
    _truth_stable(vy)
    r = np.asarray(_np(fn, raw(x), raw(y)))
    return Val(r, 0.0, 0, False)


def _py_strong_dtype(x) -> np.dtype:
    """dtype pytato's ``where`` assigns to an operand."""
    if is_val(x):
        return x.a.dtype
    if isinstance(x, np.generic):
        return x.dtype
    return np.dtype(type(x))


def _where(c, x, y) -> Val:
    vc, vx, vy = meta(c), meta(x), meta(y)
    _truth_stable(vc)
    if vc.nonfinite:
        # NaN is truthy in C and NumPy alike, fine
        pass
    r = np.asarray(_np(np.where, raw(c), raw(x), raw(y)))
    nonfinite = vx.nonfinite or vy.nonfinite
    if r.dtype.kind in "biu":
        return _mk(r, 0.0, 0, False)
    sc = _common_scale(vx, vy)
    if sc is not None and fits(r, sc):
        return _mk(r, 0.0, sc, nonfinite)
    err = max(vx.err, vy.err)
    if err == 0.0:
        err = eps(r.dtype) * maxabs(r)
    return _mk(r, err, None, nonfinite)


def _maxmin(op: str, x, y) -> Val:
    fn = {"maximum": np.maximum, "minimum": np.minimum}[op]
    vx, vy = meta(x), meta(y)
    if vx.kind == "c" or vy.kind == "c":
        raise Unsound("maximum/minimum of complex numbers")
    rd = _res_dtype(x, y)
    if rd.kind == "f":
        for v, o in ((vx, x), (vy, y)):
            if is_val(o) and v.kind in "biu":
                raise Unsound("maximum/minimum mixing integer arrays into floats")
    if rd.kind == "b":
        raise Unsound("maximum/minimum of booleans")
    r = np.asarray(_np(fn, raw(x), raw(y)))
    nonfinite = vx.nonfinite or vy.nonfinite
    if r.dtype.kind in "iu":
        return _mk(r, 0.0, 0, False)
    sc = _common_scale(vx, vy)
    if sc is not None and fits(r, sc):
        return _mk(r, 0.0, sc, nonfinite)
    if nonfinite:
        raise Unsound("inexact NaN-mode maximum")
    # max/min are 1-Lipschitz in each operand
    err = max(vx.err, vy.err)
    if err == 0.0:
        err = eps(r.dtype) * maxabs(r)
    return _mk(r, err, None, False)

# }}}


# {{{ unary

_FUN_ULP = 16.0   # |libm - NumPy SIMD| allowance, in units of eps*|f|


def _unary(op: str, x) -> Val:
    v = meta(x)
    a = v.a
    k = a.dtype.kind
    if op == "neg":
        if k == "b":
            raise Unsound("negative of boolean")
        r = np.asarray(_np(np.negative, a))
        return _mk(r, v.err, v.scale if v.exact else None, v.nonfinite)
    if op == "logical_not":
        _truth_stable(v)
        return Val(np.asarray(np.logical_not(a)), 0.0, 0, False)
    if op == "isnan":
        if k != "f":
            raise Unsound("isnan on non-real-float")
        return Val(np.asarray(np.isnan(a)), 0.0, 0, False)
    if op in ("real", "imag", "conj"):
        if op == "real":
            r = np.asarray(np.real(a)).copy()
        elif op == "imag":
            r = np.asarray(np.imag(a)).copy()
        else:
            r = np.asarray(np.conj(a))
        if r.dtype.kind in "biu":
            return _mk(r, 0.0, 0, False)
        return _mk(r, v.err, v.scale if v.exact else None, v.nonfinite)
    # everything below needs float / complex input
    if k not in "fc":
        raise Unsound(f"{op} on non-floating input")
    if op == "abs":
        r = np.asarray(np.abs(a))
        if k == "f":
            return _mk(r, v.err, v.scale if v.exact else None, v.nonfinite)
        if v.nonfinite:
            raise Unsound("complex abs in NaN mode")
        return _mk(r, v.err + 4 * eps(r.dtype) * maxabs(r), None, False)
    if v.nonfinite:
        raise Unsound("math function in NaN mode")
    if a.size == 0:
        r = np.asarray(_np(getattr(np, op), a))
        return _mk(r, 0.0, 0, False)
    e = v.err
    m = maxabs(a) + e
    if k == "c":
        return _unary_complex(op, v, a, e, m)
    lo = float(np.min(a)) - e
    hi = float(np.max(a)) + e
    if op == "sqrt":
        if lo < 2.0 ** -6:
            if not (v.exact and lo >= 0.0):
                raise Unsound("sqrt near/below zero")
            L = 0.0
        else:
            L = 0.5 / math.sqrt(lo)
    elif op in ("sin", "cos", "arctan", "tanh"):
        if m > 64:
            raise Unsound("argument reduction range")
        L = 1.0
    elif op == "tan":
        if m > 64:
            raise Unsound("argument reduction range")
        c = float(np.min(np.abs(np.cos(a))))
        if c < 0.25 or e > 0.05:
            raise Unsound("tan near pole")
        L = 1.0 / (c - e) ** 2
    elif op in ("arcsin", "arccos"):
        if m > 0.9:
            raise Unsound("arcsin/arccos near the ends")
        L = 1.0 / math.sqrt(1 - m * m)
    elif op in ("sinh", "cosh", "exp"):
        if m > 20:
            raise Unsound("exp-like overflow range")
        L = math.cosh(m) if op != "exp" else math.exp(hi)
    elif op in ("log", "log10"):
        if lo < 2.0 ** -4:
            raise Unsound("log near/below zero")
        L = 1.0 / lo
        if op == "log10":
            L /= math.log(10)
    else:
        raise AssertionError(op)
    r = np.asarray(_np(getattr(np, op), a))
    err = L * e + _FUN_ULP * eps(r.dtype) * max(maxabs(r), 2.0 ** -10)
    if op in ("sin", "cos", "tan"):
        # argument rounding relative to the period
        err += _FUN_ULP * eps(r.dtype) * (1 + m) * (L if op == "tan" else 1.0)
    return _mk(r, err, None, False)


def _unary_complex(op: str, v: Val, a, e, m) -> Val:
    if op in ("exp", "sin", "cos", "sinh", "cosh"):
        if m > 8:
            raise Unsound("complex exp-like range")
        L = math.exp(m)
    elif op in ("sqrt", "log"):
        if float(np.min(a.real)) - e < 2.0 ** -4:
            raise Unsound("complex sqrt/log: not in right half plane")
        mb = minabs(a) - e
        L = 0.5 / math.sqrt(mb) if op == "sqrt" else 1.0 / mb
    else:
        raise Unsound(f"complex {op} outside the fragment")
    r = np.asarray(_np(getattr(np, op), a))
    err = L * e + 2 * _FUN_ULP * eps(r.dtype) * max(maxabs(r), L * (1 + m),
                                                    2.0 ** -10)
    return _mk(r, err, None, False)

# }}}


# {{{ casts, reductions, contractions

def _astype(x: Val, dtype) -> Val:
    dtype = dt(dtype)
    a = x.a
    if a.dtype.kind in "fc" and dtype.kind in "iub":
        raise Unsound("float -> integer cast")
    if a.dtype.kind == "c" and dtype.kind == "f":
        raise Unsound("complex -> real cast")
    if dtype.kind == "b":
        raise Unsound("cast to bool")
    if dtype.kind in "iu":
        if a.dtype.kind in "iu" and a.size and (
                maxabs(a) > INT_BOUND or
                (dtype.kind == "u" and np.min(a) < 0)):
            raise Unsound("integer cast changes value")
        r = a.astype(dtype)
        if a.size and not np.array_equal(r.astype(a.dtype), a):
            raise Unsound("integer cast changes value")
        return _mk(r, 0.0, 0, False)
    with np.errstate(all="ignore"):
        r = a.astype(dtype)
    if a.dtype.kind in "biu":
        return _mk(r, 0.0, 0, False)
    if x.exact and fits(r, x.scale, dtype) and np.array_equal(
            r.astype(a.dtype), a, equal_nan=True):
        return _mk(r, 0.0, x.scale, x.nonfinite)
    if x.nonfinite:
        raise Unsound("rounding cast in NaN mode")
    narrowing = mant(dtype) < mant(a.dtype)
    err = x.err + (eps(dtype) * maxabs(r) if narrowing else 0.0)
    if err == 0.0:
        return _mk(r, 0.0, x.scale, False)
    return _mk(r, err, None, False)


def _norm_axes(axis, ndim: int) -> tuple[int, ...]:
    if axis is None:
        return tuple(range(ndim))
    if isinstance(axis, (int, np.integer)):
        return (int(axis),)
    return tuple(int(i) for i in axis)


def _reduce(op: str, x: Val, axis) -> Val:
    a = x.a
    k = a.dtype.kind
    np_axis = None if axis is None else (
        int(axis) if isinstance(axis, (int, np.integer)) else tuple(axis))
    axes = _norm_axes(axis, a.ndim)
    for i in axes:
        if not (-a.ndim <= i < a.ndim):
            raise NpReject("axis out of range")
    n = 1
    for i in axes:
        n *= a.shape[i]
    if op in ("all", "any"):
        _truth_stable(x)
        r = np.asarray(_np(getattr(np, op), a, axis=np_axis))
        return Val(r, 0.0, 0, False)
    if op in ("amax", "amin"):
        if k in "bc":
            raise Unsound("max/min reduction of bool/complex")
        if n == 0:
            raise NpReject("zero-size reduction without identity")
        if x.nonfinite:
            raise Unsound("max/min reduction in NaN mode")
        r = np.asarray(_np(getattr(np, op), a, axis=np_axis))
        return _mk(r, x.err, x.scale if x.exact else None, False)
    if k == "b":
        raise Unsound("sum/prod of booleans (count vs. saturating bool)")
    if op == "sum":
        r = np.asarray(_np(np.sum, a, axis=np_axis))
        if r.dtype.kind in "iu":
            if a.size and float(np.sum(np.abs(a.astype(np.int64)))) > INT_BOUND:
                raise Unsound("integer sum magnitude")
            return _mk(r, 0.0, 0, False)
        tot = np.asarray(_np(np.sum, np.abs(np.where(np.isfinite(a), a, 0)),
                             axis=np_axis))
        tmax = maxabs(tot)
        if x.exact and fits(np.asarray(tmax), x.scale, r.dtype):
            return _mk(r, 0.0, x.scale, x.nonfinite)
        if x.nonfinite:
            raise Unsound("inexact NaN-mode sum")
        err = n * x.err + (n + 1) * eps(r.dtype) * tmax
        return _mk(r, err, None, False)
    if op == "prod":
        if x.nonfinite:
            raise Unsound("prod in NaN mode")
        if k in "iu":
            big = np.asarray(_np(np.prod, np.maximum(np.abs(a.astype(np.float64)),
                                                     1.0), axis=np_axis))
            if big.size and float(np.max(big)) > INT_BOUND:
                raise Unsound("integer product magnitude")
            r = np.asarray(_np(np.prod, a, axis=np_axis))
            return _mk(r, 0.0, 0, False)
        if n > 12:
            raise Unsound("product over too many factors")
        r = np.asarray(_np(np.prod, a, axis=np_axis))
        big = np.asarray(_np(np.prod, np.maximum(np.abs(a), 1.0), axis=np_axis))
        bmax = float(np.max(big)) if big.size else 1.0
        if x.exact and n * x.scale < 60 and fits(np.asarray(bmax), n * x.scale,
                                                  r.dtype):
            return _mk(r, 0.0, n * x.scale if n else 0, False)
        M = max(maxabs(a) + x.err, 1.0)
        err = n * (M ** max(n - 1, 0)) * (x.err + 2 * eps(r.dtype) * M)
        return _mk(r, err, None, False)
    raise AssertionError(op)


def _contract_meta(r: np.ndarray, ops: list[Val], R: int) -> Val:
    """Error/scale bookkeeping for a sum over R terms of products of ops."""
    if r.dtype.kind in "biu":
        P = 1.0
        for o in ops:
            P *= max(maxabs(o.a), 1.0)
        if R * P > INT_BOUND:
            raise Unsound("integer contraction magnitude")
        return _mk(r, 0.0, 0, False)
    if any(o.nonfinite for o in ops):
        raise Unsound("contraction in NaN mode")
    P = 1.0
    for o in ops:
        P *= (maxabs(o.a) + o.err)
    R = max(R, 1)
    if all(o.exact for o in ops):
        sc = sum(o.scale for o in ops)
        if sc < 60 and fits(np.asarray(R * P), sc, r.dtype):
            return _mk(r, 0.0, sc, False)
    et = 0.0
    for i, o in enumerate(ops):
        rest = 1.0
        for j, q in enumerate(ops):
            if j != i:
                rest *= (maxabs(q.a) + q.err)
        et += o.err * rest
    u = eps(r.dtype)
    err = R * et + (R + len(ops) + 1) * u * R * P
    return _mk(r, err, None, False)


def parse_einsum(spec: str):
    ins, out = spec.replace(" ", "").split("->")
    return ins.split(","), out


def _einsum(spec: str, ops: list[Val]) -> Val:
    ins, out = parse_einsum(spec)
    if len(ins) != len(ops):
        raise NpReject("operand count")
    sizes: dict[str, int] = {}
    for s, o in zip(ins, ops):
        if len(s) != o.a.ndim:
            raise NpReject("subscript/ndim mismatch")
        for ch, n in zip(s, o.a.shape):
            if ch in sizes and sizes[ch] != n:
                if sizes[ch] == 1:
                    sizes[ch] = n
                elif n != 1:
                    raise NpReject("conflicting lengths")
            else:
                sizes.setdefault(ch, n)
    R = 1
    for ch, n in sizes.items():
        if ch not in out:
            R *= n
    arrays = [o.a for o in ops]
    if all(a.dtype.kind == "b" for a in arrays):
        raise Unsound("boolean einsum (count vs. saturating bool)")
    # NumPy's einsum does not broadcast a length-1 axis against a longer axis
    # carrying the same letter; do it by hand (this is the semantics pytato
    # documents for unit axes).
    barrays = []
    for s, a in zip(ins, arrays):
        shape = tuple(sizes[ch] for ch in s)
        barrays.append(np.broadcast_to(a, shape) if a.shape != shape else a)
    # repeated letters within one operand after broadcasting are fine
    r = np.asarray(_np(np.einsum, ",".join(ins) + "->" + out, *barrays))
    return _contract_meta(r, ops, R)


def _matmul(x: Val, y: Val) -> Val:
    if x.a.ndim == 0 or y.a.ndim == 0:
        raise NpReject("matmul of scalar")
    if x.kind == "b" and y.kind == "b":
        raise Unsound("boolean matmul")
    r = np.asarray(_np(np.matmul, x.a, y.a))
    R = x.a.shape[-1]
    return _contract_meta(r, [x, y], R)


def _dot(x, y) -> Val:
    vx, vy = meta(x), meta(y)
    if vx.kind == "b" and vy.kind == "b":
        raise Unsound("boolean dot")
    if not is_val(x) or not is_val(y) or vx.a.ndim == 0 or vy.a.ndim == 0:
        return _arith("mul", x, y)
    r = np.asarray(_np(np.dot, vx.a, vy.a))
    R = vx.a.shape[-1]
    return _contract_meta(r, [vx, vy], R)


def _vdot(x: Val, y: Val) -> Val:
    if x.kind == "b" and y.kind == "b":
        raise Unsound("boolean vdot")
    if x.a.ndim == 0 or y.a.ndim == 0:
        raise Unsound("vdot of 0-d arrays")
    r = np.asarray(_np(np.vdot, x.a, y.a))
    return _contract_meta(r, [x, y], x.a.size)


def _csr_matmul(shape, ev: Val, ci: Val, rs: Val, arr: Val) -> Val:
    nrows, ncols = shape
    if ev.a.ndim != 1 or ci.a.ndim != 1 or rs.a.ndim != 1:
        raise NpReject("CSR parts must be 1-D")
    if rs.a.shape != (nrows + 1,) or ev.a.shape != ci.a.shape:
        raise NpReject("CSR part shapes")
    if arr.a.ndim == 0 or arr.a.shape[0] != ncols:
        raise NpReject("CSR operand shape")
    if ci.kind not in "iu" or rs.kind not in "iu":
        raise NpReject("CSR index dtype")
    rsv = rs.a.astype(np.int64)
    civ = ci.a.astype(np.int64)
    nnz = ev.a.shape[0]
    if rsv[0] != 0 or rsv[-1] != nnz or (np.diff(rsv) < 0).any():
        raise Unsound("CSR row_starts not monotone / not covering")
    if nnz and (civ.min() < 0 or civ.max() >= ncols):
        raise Unsound("CSR column index out of range")
    rdt = np.result_type(ev.a.dtype, arr.a.dtype)
    if rdt.kind == "b":
        raise Unsound("boolean sparse matmul")
    out = np.zeros((nrows, *arr.a.shape[1:]), rdt)
    for i in range(nrows):
        for k in range(int(rsv[i]), int(rsv[i+1])):
            out[i] = out[i] + ev.a[k] * arr.a[civ[k]]
    R = int(np.max(np.diff(rsv))) if nrows else 0
    return _contract_meta(out, [ev, arr], R)

# }}}


# {{{ data movement

def _passthrough(r, *srcs: Val) -> Val:
    r = np.asarray(r)
    if r.dtype.kind in "biu":
        return _mk(r, 0.0, 0, False)
    nonfinite = any(s.nonfinite for s in srcs)
    sc = _common_scale(*srcs)
    if sc is not None and fits(r, sc):
        return _mk(r, 0.0, sc, nonfinite)
    if nonfinite:
        raise Unsound("inexact NaN-mode data movement")
    err = max((s.err for s in srcs), default=0.0)
    if err == 0.0:
        # promotion of exact values into a narrower-mantissa type cannot
        # happen with result_type; reaching here means a scale overflow
        err = eps(r.dtype) * maxabs(r)
    return _mk(r, err, None, False)


def decode_index(items, args):
    """Turn the JSON index description into a Python index tuple of raw
    values; array entries are looked up in *args* (list of operands)."""
    idx = []
    for it in items:
        tag = it[0]
        if tag == "int":
            idx.append(int(it[1]))
        elif tag == "slice":
            idx.append(slice(it[1], it[2], it[3]))
        elif tag == "ellipsis":
            idx.append(Ellipsis)
        elif tag == "arr":
            idx.append(args[it[1]])
        elif tag == "none":
            idx.append(None)
        else:
            raise ValueError(tag)
    return tuple(idx)


def _index(x: Val, items, args) -> Val:
    idx = decode_index(items, args)
    np_idx = []
    for i in idx:
        if is_val(i):
            if i.kind not in "iu":
                raise NpReject("non-integer index array")
            np_idx.append(i.a)
        else:
            np_idx.append(i)
    # out-of-range advanced indices are undefined behaviour in pytato
    r = np.asarray(_np(lambda: x.a[tuple(np_idx)]))
    return _passthrough(r, x)


def _pad(x: Val, pad_width, constant_values) -> Val:
    a = x.a
    kw = {}
    cvals = []
    if constant_values is not None:
        cv = constant_values
        if isinstance(cv, list):
            cv = tuple(tuple(c) if isinstance(c, list) else c for c in cv)
        kw["constant_values"] = cv

        def flat(c):
            if isinstance(c, (tuple, list)):
                for q in c:
                    yield from flat(q)
            else:
                yield c
        cvals = list(flat(cv))
    for c in cvals:
        # constants must be exactly representable in the array's dtype
        with np.errstate(all="ignore"):
            cc = np.asarray(c).astype(a.dtype)
        if cc != c or (a.dtype.kind in "iub" and not isinstance(
                c, (int, np.integer, bool, np.bool_))):
            raise Unsound("pad constant not representable in array dtype")
        if a.dtype.kind == "b":
            raise Unsound("pad of boolean array")
    pw = pad_width
    if isinstance(pw, list):
        pw = tuple(tuple(p) if isinstance(p, list) else p for p in pw)
    r = np.asarray(_np(np.pad, a, pw, mode="constant", **kw))
    lits = [meta(c) for c in cvals]
    return _passthrough(r, x, *[v for v in lits if r.dtype.kind in "fc"])


def pad_corner_mask(shape, pad_width, constant_values) -> np.ndarray | None:
    """True where np.pad's value is formally undefined (padding w.r.t. more
    than one axis while the constants differ)."""
    if constant_values is None or not isinstance(constant_values, (list, tuple)):
        return None
    nd = len(shape)
    pw = pad_width
    if isinstance(pw, (int, np.integer)):
        pw = [(pw, pw)] * nd
    elif len(pw) == 2 and all(isinstance(p, (int, np.integer)) for p in pw):
        pw = [tuple(pw)] * nd
    cnt = np.zeros([s + p[0] + p[1] for s, p in zip(shape, pw)], dtype=np.int64)
    for ax, (s, p) in enumerate(zip(shape, pw)):
        ar = np.arange(s + p[0] + p[1])
        m = (ar < p[0]) | (ar >= p[0] + s)
        sh = [1] * nd
        sh[ax] = -1
        cnt = cnt + m.reshape(sh)
    return cnt >= 2

# }}}


# {{{ constructors

def _full(shape, value, dtype) -> Val:
    shape = tuple(shape)
    if dtype is None:
        r = np.full(shape, value)
    else:
        d = dt(dtype)
        with np.errstate(all="ignore"):
            r = np.full(shape, value, dtype=d)
        if not (isinstance(value, float) and math.isnan(value)):
            if r.size and not np.array_equal(r.ravel()[:1],
                                             np.asarray([value])):
                raise Unsound("fill value not representable in dtype")
            if d.kind in "iub" and not isinstance(
                    value, (int, bool, np.integer, np.bool_)):
                raise Unsound("non-integer fill value for integer dtype")
    v = meta(value)
    return _mk(r, 0.0, v.scale, v.nonfinite or _has_nonfinite(r))


def _arange(start, stop, step, dtype) -> Val:
    d = dt(dtype)
    if d.kind in "bc":
        raise Unsound("arange dtype")
    if step == 0:
        raise NpReject("zero step")
    for q in (start, stop, step):
        if d.kind in "iu" and not isinstance(q, (int, np.integer)):
            raise Unsound("non-integer arange parameter for integer dtype")
    r = np.asarray(_np(np.arange, start, stop, step, dtype=d))
    sc = max(_lit_scale(start) or 0, _lit_scale(step) or 0)
    if _lit_scale(start) is None or _lit_scale(step) is None \
            or _lit_scale(stop) is None:
        raise Unsound("non-dyadic arange parameter")
    if not fits(r, sc):
        raise Unsound("arange not exactly representable")
    return _mk(r, 0.0, sc, False)

# }}}


# {{{ model dtypes (documented pytato deviations from NumPy's result dtype)

def model_dtype(op: str, args, params, native: np.dtype) -> np.dtype:
    """The dtype the *documented* pytato semantics give the result.  Only the
    cases where that is not NumPy's dtype need an entry; C03 reports them."""
    if op in ("sum", "prod", "amax", "amin", "all", "any"):
        return meta(args[0]).a.dtype
    if op == "isnan":
        return np.dtype(np.int32)
    if op == "where":
        return np.promote_types(_py_strong_dtype(args[1]),
                                _py_strong_dtype(args[2]))
    if op in ("maximum", "minimum"):
        inner = np.promote_types(_py_strong_dtype(args[0]),
                                 _py_strong_dtype(args[1]))
        common = np.result_type(raw(args[0]), raw(args[1]))
        if common.kind in "fc":
            return np.promote_types(common, inner)
        return inner
    return native


def coerce(v: Val, dtype: np.dtype) -> Val:
    """Re-type a value to the dtype the expression declares (value kept)."""
    dtype = np.dtype(dtype)
    if not isinstance(v.a, np.ndarray) or v.a.dtype == dtype:
        return v
    a = v.a
    with np.errstate(all="ignore"):
        r = a.astype(dtype)
    if dtype.kind in "biu" or a.dtype.kind in "biu":
        back = r.astype(a.dtype)
        if not np.array_equal(back, a, equal_nan=a.dtype.kind in "fc"):
            raise Unsound("declared dtype cannot hold the NumPy value")
        if dtype.kind in "fc":
            return _mk(r, 0.0, 0, False)
        return _mk(r, 0.0, 0, False)
    if a.dtype.kind == "c" and dtype.kind == "f":
        raise Unsound("declared dtype cannot hold the NumPy value")
    return _astype(v, dtype)

# }}}


# {{{ dispatcher

UNARY = ("neg", "abs", "sqrt", "sin", "cos", "tan", "arcsin", "arccos", "arctan",
         "sinh", "cosh", "tanh", "exp", "log", "log10", "isnan", "real", "imag",
         "conj", "logical_not")
ARITH = ("add", "sub", "mul", "truediv", "floordiv", "mod", "pow")
BITWISE = ("and", "or", "xor")
COMPARE = ("equal", "not_equal", "less", "less_equal", "greater", "greater_equal")
LOGICAL = ("logical_and", "logical_or")
REDUCE = ("sum", "prod", "amax", "amin", "all", "any")


def _native(op: str, args, params) -> Val:
    p = params or {}
    if op in UNARY:
        return _unary(op, args[0])
    if op in ARITH:
        return _arith(op, args[0], args[1])
    if op in BITWISE:
        return _bitwise(op, args[0], args[1])
    if op in COMPARE:
        return _compare(op, args[0], args[1])
    if op in LOGICAL:
        return _logical(op, args[0], args[1])
    if op in ("maximum", "minimum"):
        return _maxmin(op, args[0], args[1])
    if op == "arctan2":
        vy, vx = meta(args[0]), meta(args[1])
        if vy.kind != "f" or vx.kind != "f" or not is_val(args[0]) \
                or not is_val(args[1]):
            raise Unsound("arctan2 needs two real float arrays")
        if vy.a.shape != vx.a.shape:
            raise Unsound("arctan2 without broadcasting only")
        if vy.nonfinite or vx.nonfinite:
            raise Unsound("math function in NaN mode")
        r = np.asarray(_np(np.arctan2, vy.a, vx.a))
        if r.size == 0:
            return _mk(r, 0.0, 0, False)
        rad = float(np.min(np.hypot(vy.a.astype(np.float64),
                                    vx.a.astype(np.float64))))
        e = vy.err + vx.err
        if rad - e < 2.0 ** -4:
            raise Unsound("arctan2 near the origin")
        # stay away from the branch cut (negative real axis)
        cut = (vx.a < 0) & (np.abs(vy.a) <= 8 * e + 1e-300)
        if cut.any() and not (vy.exact and vx.exact):
            raise Unsound("arctan2 near the branch cut")
        err = e / (rad - e) + _FUN_ULP * eps(r.dtype) * 4
        return _mk(r, err, None, False)
    if op == "where":
        return _where(args[0], args[1], args[2])
    if op == "astype":
        return _astype(args[0], p["dtype"])
    if op in REDUCE:
        return _reduce(op, args[0], p.get("axis"))
    if op == "einsum":
        return _einsum(p["spec"], list(args))
    if op == "matmul":
        return _matmul(args[0], args[1])
    if op == "dot":
        return _dot(args[0], args[1])
    if op == "vdot":
        return _vdot(args[0], args[1])
    if op == "csr_matmul":
        return _csr_matmul(tuple(p["shape"]), *args)
    if op == "stack":
        r = _np(np.stack, [a.a for a in args], axis=p["axis"])
        return _passthrough(r, *args)
    if op == "concatenate":
        r = _np(np.concatenate, [a.a for a in args], axis=p["axis"])
        return _passthrough(r, *args)
    if op == "roll":
        r = _np(np.roll, args[0].a, p["shift"], axis=p.get("axis"))
        return _passthrough(r, args[0])
    if op == "transpose":
        ax = p.get("axes")
        r = _np(np.transpose, args[0].a, None if ax is None else tuple(ax))
        return _passthrough(r, args[0])
    if op == "T":
        return _passthrough(args[0].a.T, args[0])
    if op == "reshape":
        shp = p["shape"]
        shp = tuple(shp) if isinstance(shp, (list, tuple)) else int(shp)
        r = _np(np.reshape, args[0].a, shp, order=p.get("order", "C"))
        return _passthrough(r, args[0])
    if op == "expand_dims":
        ax = p["axis"]
        r = _np(np.expand_dims, args[0].a, tuple(ax) if isinstance(ax, list)
                else ax)
        return _passthrough(r, args[0])
    if op == "squeeze":
        ax = p.get("axis")
        r = _np(np.squeeze, args[0].a, None if ax is None else tuple(ax))
        return _passthrough(r, args[0])
    if op == "broadcast_to":
        r = _np(np.broadcast_to, args[0].a, tuple(p["shape"]))
        return _passthrough(np.array(r), args[0])
    if op == "pad":
        return _pad(args[0], p["pad_width"], p.get("constant_values"))
    if op == "index":
        return _index(args[0], p["idx"], args)
    if op == "full":
        return _full(p["shape"], p["value"], p.get("dtype"))
    if op == "zeros":
        return _full(p["shape"], 0, p.get("dtype", "float64"))
    if op == "ones":
        return _full(p["shape"], 1, p.get("dtype", "float64"))
    if op == "eye":
        r = _np(np.eye, p["N"], p.get("M"), p.get("k", 0),
                dtype=dt(p.get("dtype", "float64")))
        return _mk(r, 0.0, 0, False)
    if op == "arange":
        return _arange(p["start"], p["stop"], p["step"], p["dtype"])
    if op in ("zeros_like", "ones_like"):
        v = args[0]
        if v.kind not in "fc":
            raise Unsound("zeros_like/ones_like on non-floating input")
        d = dt(p["dtype"]) if p.get("dtype") else v.a.dtype
        r = np.zeros(v.a.shape, d) if op == "zeros_like" else np.ones(
            v.a.shape, d)
        return _mk(r, 0.0, 0, False)
    if op == "call_loopy":
        from pvf.lpkernels import KERNELS
        return KERNELS[p["kernel"]].np_apply(args, p)
    if op == "item":
        d = args[0].a
        return d[p["key"]]
    if op == "named":
        return args[0]
    if op == "sendhold":
        return args[1]
    if op == "recv":
        return make_input(p["values"], p["dtype"], p["shape"], p.get("scale", 0))
    raise ValueError(f"unknown op {op}")


def apply(op: str, args, params=None, force_dtype=None) -> Val:
    """Evaluate one grammar operation.  *force_dtype*: the dtype the pytato
    expression declares (None: use the model table)."""
    v = _native(op, args, params)
    if isinstance(v.a, dict):
        return v
    want = force_dtype if force_dtype is not None else model_dtype(
        op, args, params, v.a.dtype)
    if want is not None and np.dtype(want) != v.a.dtype:
        v = coerce(v, np.dtype(want))
    return v


def make_input(values, dtype, shape, scale: int = 0) -> Val:
    """Input array from the JSON value description: integers times 2**-scale
    (complex: pairs), or explicit float specials as strings."""
    d = dt(dtype)
    flat = []
    nonfinite = False

    def conv(x):
        nonlocal nonfinite
        if isinstance(x, str):
            nonfinite = True
            return {"nan": math.nan, "inf": math.inf, "-inf": -math.inf}[x]
        return x * (2.0 ** -scale) if d.kind in "fc" else x

    for x in values:
        if d.kind == "c":
            flat.append(complex(conv(x[0]), conv(x[1])))
        else:
            flat.append(conv(x))
    a = np.array(flat, dtype=d).reshape(tuple(shape))
    if d.kind in "iu" and a.size and maxabs(a) > INT_BOUND:
        raise Unsound("input integer magnitude")
    sc = scale if d.kind in "fc" else 0
    if not fits(a, sc):
        raise Unsound("input not exactly representable")
    return Val(a, 0.0, sc, nonfinite)

# }}}
