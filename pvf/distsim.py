"""Running multi-rank pytato programs under the simulated MPI (pvf/shim).

* :func:`install` puts the shim ``mpi4py`` first on ``sys.path`` and replaces
  ``pyopencl.array.to_device`` (the only pyopencl entry point the executor
  touches for host data) by a host copy.  Nothing under /repo is modified.
* :func:`partition_all` runs ``find_distributed_partition`` ->
  ``verify_distributed_partition`` -> ``number_distributed_tags`` on every
  rank of one simulation.
* :func:`execute_all` runs ``execute_distributed_partition`` on every rank
  under a given choice sequence.  The per-part "compiled programs" are closures
  that evaluate the part's output expressions with the reference evaluator,
  called exactly as the executor calls a BoundProgram:
  ``prg(queue, allocator=..., **inputs) -> (evt, {name: value})``.
* :class:`Explorer` enumerates schedules: DFS over the choice tree with
  re-execution (exhaustive if the tree has at most ``max_leaves`` leaves), then
  seeded random and fixed adversarial choosers.
* :func:`model_outputs` is the reference: the reference evaluator on the
  unpartitioned graphs of all ranks, a receive taking the value of the payload
  of the matching send.
* :func:`classify` decides from the graphs alone (reflective walk, no pytato
  mapper) whether a multi-rank program is well-formed.
"""
from __future__ import annotations

import hashlib
import os
import random
import sys
from dataclasses import dataclass
from typing import Any, Callable

import numpy as np

from pvf import reflect
from pvf.refeval import RefEval, RefUnsupported

SHIM = os.path.join(os.path.dirname(os.path.abspath(__file__)), "shim")
BASE_TAG = 100


class SimHarnessError(Exception):
    pass


def install():
    """-> the simulated ``mpi4py.MPI`` module."""
    if not sys.path or sys.path[0] != SHIM:
        while SHIM in sys.path:
            sys.path.remove(SHIM)
        sys.path.insert(0, SHIM)
    import mpi4py
    if not getattr(mpi4py, "PVF_SIMULATED", False):
        raise SimHarnessError(
            f"'mpi4py' resolves to {getattr(mpi4py, '__file__', '?')}, not to "
            "the simulation shim")
    from mpi4py import MPI
    import pyopencl.array as cla
    if not getattr(cla.to_device, "_pvf_stub", False):
        def to_device(queue, ary, allocator=None, async_=None,
                      array_queue=None, **kwargs):
            return np.array(ary, copy=True)
        to_device._pvf_stub = True
        cla.to_device = to_device
    return MPI


# {{{ choosers and schedule exploration

class ReplayMismatch(Exception):
    """A recorded choice does not fit the choice point met on replay: the
    simulation is not a function of its choice sequence."""


class ListChooser:
    def __init__(self, seq=(), expect=None):
        self.seq = list(seq)
        self.expect = list(expect) if expect is not None else None
        self.i = 0

    def choose(self, n: int, kind: str, info) -> int:
        i = self.i
        self.i += 1
        if i < len(self.seq):
            c = self.seq[i]
            if self.expect is not None and i < len(self.expect) \
                    and self.expect[i] != n:
                raise ReplayMismatch(
                    f"choice point {i}: {n} options now, {self.expect[i]} when "
                    "recorded")
            if c >= n:
                raise ReplayMismatch(f"choice point {i}: recorded choice {c} "
                                     f"but only {n} options")
            return c
        return 0


class RandomChooser:
    def __init__(self, seed: int):
        self.rng = random.Random(seed)
        self.mode = self.rng.choice(["uniform", "uniform", "single", "all"])

    def choose(self, n: int, kind: str, info) -> int:
        if kind == "subset" and self.mode != "uniform" \
                and self.rng.random() < 0.7:
            if self.mode == "all":
                return n - 1
            # a single request: masks 1, 2, 4, ...
            k = (n + 1).bit_length() - 1
            return (1 << self.rng.randrange(k)) - 1
        return self.rng.randrange(n)


class PolicyChooser:
    """rank: 'low' | 'high'; subset: 'first' | 'last' | 'all'."""

    def __init__(self, rank: str, subset: str):
        self.rank = rank
        self.subset = subset

    def choose(self, n: int, kind: str, info) -> int:
        if kind == "subset":
            if self.subset == "all":
                return n - 1
            if self.subset == "first":
                return 0
            k = (n + 1).bit_length() - 1
            return (1 << (k - 1)) - 1
        return 0 if self.rank == "low" else n - 1


POLICIES = (("low", "first"), ("high", "all"), ("low", "all"), ("high", "last"))


def schedule_identity(sim) -> str:
    ev = [e for e in sim.events if e[0] in ("isend", "waitsome", "wait", "done")]
    return hashlib.sha256(repr(ev).encode()).hexdigest()[:16]


class Explorer:
    """Iterate over ``(schedule, result)``; ``run_once(chooser, por)`` must
    return an object with ``.sim`` (a SimResult)."""

    def __init__(self, run_once: Callable[[Any, bool], Any], *, max_leaves: int,
                 n_random: int, seed: int, policies: bool = True):
        self.run_once = run_once
        self.max_leaves = max_leaves
        self.n_random = n_random
        self.seed = seed
        self.policies = policies
        self.exhaustive = False
        self.leaves = 0
        self.runs = 0
        self.identities: set[str] = set()
        self.max_depth = 0

    def _emit(self, res, por: bool):
        self.runs += 1
        self.identities.add(schedule_identity(res.sim))
        sched = {"por": por, "choices": res.sim.choices}
        return sched, res

    def __iter__(self):
        prefix: list[int] = []
        expect: list[int] = []
        while True:
            res = self.run_once(ListChooser(prefix, expect), True)
            tr = res.sim.trace
            if [c for _, _, c in tr[:len(prefix)]] != prefix:
                raise ReplayMismatch("prefix not reproduced")
            self.leaves += 1
            self.max_depth = max(self.max_depth, len(tr))
            yield self._emit(res, True)
            k = len(tr) - 1
            while k >= 0 and tr[k][2] + 1 >= tr[k][1]:
                k -= 1
            if k < 0:
                self.exhaustive = True
                break
            if self.leaves >= self.max_leaves:
                break
            prefix = [c for _, _, c in tr[:k]] + [tr[k][2] + 1]
            expect = [n for _, n, _ in tr[:k + 1]]
        if not self.exhaustive:
            for i in range(self.n_random):
                ch = RandomChooser(self.seed * 1000003 + i)
                yield self._emit(self.run_once(ch, i % 2 == 0), i % 2 == 0)
        if self.policies:
            for rank, subset in POLICIES:
                yield self._emit(self.run_once(PolicyChooser(rank, subset),
                                               False), False)

# }}}


# {{{ partitioning phase

@dataclass
class RankPart:
    rank: int
    stage: str = "init"        # find | verify | number | done
    partition: Any = None
    numbered: Any = None
    next_tag: int | None = None


@dataclass
class PartitionOutcome:
    ranks: list[RankPart]
    sim: Any

    @property
    def excs(self):
        return self.sim.excs

    def all_done(self) -> bool:
        return self.sim.deadlock is None and all(
            e is None for e in self.sim.excs) and all(
            r.stage == "done" for r in self.ranks)


def partition_all(builds, *, do_verify: bool = True, do_number: bool = True,
                  base_tag: int = BASE_TAG, chooser=None, por: bool = True
                  ) -> PartitionOutcome:
    MPI = install()
    import pytato as pt
    states = [RankPart(b.rank) for b in builds]

    def rank_fn(comm):
        st = states[comm.rank]
        b = builds[comm.rank]
        st.stage = "find"
        part = pt.find_distributed_partition(comm, b.outputs)
        st.partition = part
        if do_verify:
            st.stage = "verify"
            pt.verify_distributed_partition(comm, part)
        if do_number:
            st.stage = "number"
            st.numbered, st.next_tag = pt.number_distributed_tags(
                comm, part, base_tag=base_tag)
        st.stage = "done"
        return None

    sim = MPI.run_world(len(builds), rank_fn, chooser, por=por)
    return PartitionOutcome(states, sim)



def verify_all(partitions, *, chooser=None, por: bool = True):
    """verify_distributed_partition on every rank -> SimResult."""
    MPI = install()
    import pytato as pt

    def rank_fn(comm):
        pt.verify_distributed_partition(comm, partitions[comm.rank])

    return MPI.run_world(len(partitions), rank_fn, chooser, por=por)

# }}}


# {{{ execution phase

class PartInputMissing(Exception):
    """A part's expressions use a placeholder the executor did not pass."""


class PartInputMismatch(Exception):
    """A value passed for a placeholder has another shape/dtype than the
    placeholder declares."""


class PartHasCommNode(Exception):
    pass


class TracedContext(dict):
    """The executor's ``context`` (it is created as ``input_args.copy()``):
    records reads of absent names and deletions."""

    def __init__(self, *a, **kw):
        super().__init__(*a, **kw)
        self.log: list[tuple] = []
        self.deleted: set[str] = set()
        self.child: TracedContext | None = None

    def copy(self):
        c = TracedContext(self)
        c.log = self.log
        c.deleted = self.deleted
        self.child = c
        return c

    def __getitem__(self, k):
        try:
            return dict.__getitem__(self, k)
        except KeyError:
            self.log.append(("missing-read", k,
                             "after-release" if k in self.deleted
                             else "never-produced"))
            raise

    def __delitem__(self, k):
        self.deleted.add(k)
        dict.__delitem__(self, k)


def _placeholders(exprs) -> dict[str, Any]:
    from pytato.array import Placeholder
    out = {}
    for n in reflect.walk(list(exprs)).values():
        if isinstance(n, Placeholder):
            out[n.name] = n
    return out


class PartPrograms:
    """pid -> callable for one rank; evaluation results are memoised on the
    exact input bytes, so that thousands of schedules of one program cost one
    evaluation per distinct (part, inputs)."""

    def __init__(self, rank: int, partition, cache: dict):
        self.rank = rank
        self.partition = partition
        self.cache = cache
        self.calls: list[tuple] = []
        self._ph: dict[Any, dict] = {}

    def __getitem__(self, pid):
        part = self.partition.parts[pid]

        def prg(queue, allocator=None, **inputs):
            return None, self.run_part(part, inputs)
        return prg

    def __contains__(self, pid):
        return pid in self.partition.parts

    def run_part(self, part, inputs: dict) -> dict:
        names = sorted(part.output_names)
        exprs = [self.partition.name_to_output[nm] for nm in names]
        ph = self.cache.get(("placeholders", self.rank, part.pid))
        if ph is None:
            ph = self.cache[("placeholders", self.rank, part.pid)] = \
                _placeholders(exprs)
        for nm, p in ph.items():
            if nm not in inputs:
                raise PartInputMissing(
                    f"rank {self.rank} part {part.pid}: expression reads "
                    f"placeholder '{nm}' which the executor did not pass "
                    f"(passed: {sorted(inputs)})")
            v = np.asarray(inputs[nm])
            if tuple(v.shape) != tuple(int(s) for s in p.shape) \
                    or v.dtype != p.dtype:
                raise PartInputMismatch(
                    f"rank {self.rank} part {part.pid}: '{nm}' is "
                    f"{v.dtype}{v.shape}, placeholder declares "
                    f"{p.dtype}{tuple(p.shape)}")
        key = (self.rank, part.pid, tuple(
            (nm, np.asarray(inputs[nm]).dtype.str, np.asarray(inputs[nm]).shape,
             np.ascontiguousarray(inputs[nm]).tobytes()) for nm in sorted(ph)))
        self.calls.append((part.pid, tuple(sorted(inputs))))
        hit = self.cache.get(key)
        if hit is None:
            ev = RefEval({nm: np.asarray(inputs[nm]) for nm in ph})
            try:
                hit = {nm: np.array(ev(e), copy=True)
                       for nm, e in zip(names, exprs)}
            except RefUnsupported as e:
                if "DistributedRecv" in str(e):
                    raise PartHasCommNode(
                        f"rank {self.rank} part {part.pid}: {e}") from e
                raise
            self.cache[key] = hit
        return {nm: v.copy() for nm, v in hit.items()}


@dataclass
class ExecOutcome:
    sim: Any
    outputs: list[Any]                 # per rank: dict | None
    contexts: list[TracedContext]
    programs: list[PartPrograms]


def execute_all(builds, partitions, chooser=None, *, por: bool = True,
                cache: dict | None = None) -> ExecOutcome:
    """*partitions*: per rank, the numbered DistributedGraphPartition."""
    MPI = install()
    import pytato as pt
    cache = cache if cache is not None else {}
    ctxs = [TracedContext({k: v.copy() for k, v in b.inputs.items()})
            for b in builds]
    prgs = [PartPrograms(b.rank, p, cache) for b, p in zip(builds, partitions)]

    def rank_fn(comm):
        r = comm.rank
        return pt.execute_distributed_partition(
            partitions[r], prgs[r], None, comm, input_args=ctxs[r])

    sim = MPI.run_world(len(builds), rank_fn, chooser, por=por)
    return ExecOutcome(sim, list(sim.results), ctxs, prgs)

# }}}


# {{{ reference model

class ModelError(Exception):
    pass


def comm_nodes(b):
    """(sends, recvs, holders) reachable from the outputs of one rank, by a
    reflective walk; structurally equal nodes are counted once."""
    from pytato.distributed.nodes import (
        DistributedRecv,
        DistributedSend,
        DistributedSendRefHolder,
    )
    sends, recvs, holders = [], [], []
    seen_s: set = set()
    seen_r: set = set()
    for n in reflect.walk(b.outputs).values():
        if isinstance(n, DistributedSend):
            # (DistributedSend.__eq__ is pytools' Taggable.__eq__, which does
            # not look at data/dest_rank/comm_tag: compare by content here)
            key = (reflect.structure(n.data), n.dest_rank, n.comm_tag,
                   frozenset(n.tags))
            if key not in seen_s:
                seen_s.add(key)
                sends.append(n)
        elif isinstance(n, DistributedRecv):
            key = (n.src_rank, n.comm_tag, tuple(n.shape), str(n.dtype),
                   frozenset(n.tags), n.axes)
            if key not in seen_r:
                seen_r.add(key)
                recvs.append(n)
        elif isinstance(n, DistributedSendRefHolder):
            holders.append(n)
    return sends, recvs, holders


def forwards_bare_recv(case) -> bool:
    """Some send's payload *is* a DistributedRecv node (also when the JSON
    interposes an operation that returns its operand, e.g. a reduction over
    no axes)."""
    from pytato.distributed.nodes import DistributedRecv

    from pvf import distgen
    try:
        builds = distgen.build_case(case)
    except Exception:  # noqa: BLE001
        return False
    return any(isinstance(s.data, DistributedRecv)
               for b in builds for s in comm_nodes(b)[0])


def holder_payload_dep_leak(case) -> bool:
    """Some array is computed *from the value of* a send holder whose payload
    depends on a receive (the array itself need not depend on that receive:
    a holder's value is its pass-through operand)."""
    from pytato.distributed.nodes import DistributedSendRefHolder

    from pvf import distgen
    try:
        builds = distgen.build_case(case)
    except Exception:  # noqa: BLE001
        return False
    for b in builds:
        for n in reflect.walk(b.outputs).values():
            if isinstance(n, DistributedSendRefHolder) or not reflect.is_node(n):
                continue
            if type(n).__name__ in ("DictOfNamedArrays", "DistributedSend"):
                continue
            for _, ch in reflect.children(n):
                if isinstance(ch, DistributedSendRefHolder) \
                        and _recvs_under(ch.send.data):
                    return True
    return False


def nested_duplicate_send(case) -> bool:
    """Two holders with the same (destination, tag) on one rank, one of them
    reachable from the *payload* of the other."""
    from pytato.distributed.nodes import DistributedSendRefHolder

    from pvf import distgen
    try:
        builds = distgen.build_case(case)
    except Exception:  # noqa: BLE001
        return False
    for b in builds:
        hs = [n for n in reflect.walk(b.outputs).values()
              if isinstance(n, DistributedSendRefHolder)]
        for h2 in hs:
            below = reflect.walk(h2.send.data)
            for h1 in hs:
                if h1 is not h2 and id(h1) in below \
                        and h1.send.dest_rank == h2.send.dest_rank \
                        and h1.send.comm_tag == h2.send.comm_tag:
                    return True
    return False


def model_outputs(builds) -> list[dict[str, np.ndarray]]:
    """Reference value of every output of every rank."""
    index: dict[tuple, list] = {}
    for b in builds:
        sends, _, _ = comm_nodes(b)
        for s in sends:
            index.setdefault((b.rank, s.dest_rank, s.comm_tag), []).append(s)
    busy: set[tuple] = set()
    evs: list[RefEval] = []

    def make_recv(rank):
        def recv(node):
            key = (node.src_rank, rank, node.comm_tag)
            got = index.get(key, [])
            if len(got) != 1:
                raise ModelError(f"{len(got)} sends match receive {key}")
            if key in busy:
                raise ModelError("cyclic data flow")
            busy.add(key)
            try:
                v = np.asarray(evs[node.src_rank](got[0].data))
            finally:
                busy.discard(key)
            if tuple(v.shape) != tuple(node.shape) or v.dtype != node.dtype:
                raise ModelError(f"shape/dtype mismatch on {key}")
            return v.copy()
        return recv

    for b in builds:
        evs.append(RefEval(dict(b.inputs), recv=make_recv(b.rank)))
    res = []
    for b in builds:
        res.append({k: np.asarray(evs[b.rank](v))
                    for k, v in b.outputs._data.items()})
    return res


def _data_children(n):
    from pytato.distributed.nodes import DistributedSendRefHolder
    if isinstance(n, DistributedSendRefHolder):
        return [n.passthrough_data]
    return [c for _, c in reflect.children(n)]


def _recvs_under(root) -> list:
    """receive nodes the *value* of root depends on (rank-local)."""
    from pytato.distributed.nodes import DistributedRecv
    seen: dict[int, Any] = {}
    stack = [root]
    out = []
    while stack:
        n = stack.pop()
        if id(n) in seen:
            continue
        seen[id(n)] = n
        if isinstance(n, DistributedRecv):
            out.append(n)
            continue
        stack.extend(_data_children(n))
    return out


def classify(builds) -> dict:
    """Well-formedness of a multi-rank program, from the graphs alone.

    -> {"valid": bool, "unspecified": bool, "reasons": [...],
        "expected": set of diagnostic family names}
    """
    reasons: list[str] = []
    expected: set[str] = set()
    unspecified = False
    per_rank = {b.rank: comm_nodes(b) for b in builds}
    n = len(builds)
    send_ids: dict[tuple, Any] = {}
    recv_ids: dict[tuple, Any] = {}
    for r, (sends, recvs, holders) in per_rank.items():
        seen_s: dict[tuple, Any] = {}
        for s in sends:
            if s.dest_rank == r:
                reasons.append(f"self-send on rank {r}")
                expected.add("self")
                continue
            if not (0 <= s.dest_rank < n):
                # a send nobody can receive
                reasons.append(f"send to nonexistent rank {s.dest_rank}")
                expected.add("missing")
                continue
            key = (r, s.dest_rank, s.comm_tag)
            if key in seen_s:
                reasons.append(f"duplicate send {key}")
                expected.add("dup-send")
            seen_s[key] = s
        # one (equal) send held by several distinct holders: upstream's tests
        # expect DuplicateSendError; a reader of the docs may not - no verdict
        for s in sends:
            hs = [h for h in holders if h.send is s or (
                h.send.dest_rank == s.dest_rank and h.send.comm_tag == s.comm_tag
                and h.send.tags == s.tags and reflect.structure(h.send.data)
                == reflect.structure(s.data))]
            if len({id(h) for h in hs}) > 1 and len(
                    {reflect.structure(h) for h in hs}) > 1:
                unspecified = True
                reasons.append("one send held by several holders")
        seen_r: dict[tuple, Any] = {}
        for q in recvs:
            if q.src_rank == r:
                reasons.append(f"self-receive on rank {r}")
                expected.add("self")
                continue
            if not (0 <= q.src_rank < n):
                reasons.append(f"receive from nonexistent rank {q.src_rank}")
                expected.add("missing")
                continue
            key = (q.src_rank, r, q.comm_tag)
            if key in seen_r:
                reasons.append(f"duplicate receive {key}")
                expected.add("dup-recv")
            seen_r[key] = q
        send_ids.update(seen_s)
        recv_ids.update(seen_r)
    for key in send_ids:
        if key not in recv_ids:
            reasons.append(f"send {key} without receive")
            expected.add("missing")
    for key in recv_ids:
        if key not in send_ids:
            reasons.append(f"receive {key} without send")
            expected.add("missing")
    for key in send_ids:
        if key in recv_ids:
            s, q = send_ids[key], recv_ids[key]
            if tuple(s.data.shape) != tuple(q.shape) or s.data.dtype != q.dtype:
                unspecified = True
                reasons.append(f"shape/dtype mismatch on {key}")
    # cyclic data flow among messages
    graph: dict[tuple, set[tuple]] = {}
    for key, s in send_ids.items():
        graph[key] = set()
        for q in _recvs_under(s.data):
            k2 = (q.src_rank, key[0], q.comm_tag)
            if k2 in send_ids:
                graph[key].add(k2)
    state: dict[tuple, int] = {}

    def cyc(k) -> bool:
        state[k] = 1
        for d in graph[k]:
            if state.get(d) == 1 or (state.get(d) is None and cyc(d)):
                return True
        state[k] = 2
        return False
    if any(state.get(k) is None and cyc(k) for k in list(graph)):
        reasons.append("cyclic dependency among messages")
        expected.add("cycle")
    # the no-verdict conditions only matter for otherwise well-formed programs
    return {"valid": not reasons, "unspecified": unspecified and not expected,
            "reasons": reasons, "expected": expected,
            "messages": len(send_ids)}

# }}}


# {{{ process-independent summaries (C09 hash-seed agreement)

def stable_digest(root) -> str:
    """Digest of the unfolding of a graph that does not depend on addresses or
    hash seeds (DataWrappers by content)."""
    import dataclasses as dc
    from collections.abc import Mapping

    from pytato.array import NormalizedSlice
    memo: dict[int, str] = {}
    keep = []

    def enc(value) -> str:
        if reflect.is_node(value):
            return "N" + visit(value)
        if isinstance(value, (tuple, list)):
            return "(" + ",".join(enc(v) for v in value) + ")"
        if isinstance(value, frozenset):
            return "{" + ",".join(sorted(enc(v) for v in value)) + "}"
        if isinstance(value, Mapping):
            return "<" + ",".join(sorted(f"{k!r}:{enc(value[k])}"
                                         for k in value)) + ">"
        if isinstance(value, NormalizedSlice):
            return f"S[{enc(value.start)}:{enc(value.stop)}:{enc(value.step)}]"
        if isinstance(value, np.ndarray):
            return "A" + hashlib.sha256(
                str(value.dtype).encode() + repr(value.shape).encode()
                + np.ascontiguousarray(value).tobytes()).hexdigest()[:16]
        if isinstance(value, type):
            return f"T{value.__module__}.{value.__qualname__}"
        if dc.is_dataclass(value) and not isinstance(value, type):
            return type(value).__name__ + "(" + ",".join(
                f.name + "=" + enc(getattr(value, f.name))
                for f in dc.fields(value)) + ")"
        return reflect.canon(value)

    def visit(n) -> str:
        if id(n) in memo:
            return memo[id(n)]
        keep.append(n)
        parts = [type(n).__name__]
        for name, value in reflect.fields_of(n):
            if name == "non_equality_tags":
                continue
            parts.append(name + "=" + enc(value))
        d = hashlib.sha256("|".join(parts).encode()).hexdigest()[:24]
        memo[id(n)] = d
        return d

    old = sys.getrecursionlimit()
    sys.setrecursionlimit(max(old, 20000))
    try:
        return enc(root)
    finally:
        sys.setrecursionlimit(old)


def tag_text(t) -> str:
    return stable_digest(t) if not isinstance(t, (int, str)) else repr(t)


def partition_summary(partition, numbered=None) -> dict:
    """JSON-able, address- and hash-seed-free description of one rank's
    partition."""
    parts = []
    for pid in sorted(partition.parts, key=repr):
        p = partition.parts[pid]
        d = {
            "pid": repr(pid),
            "needed": sorted(repr(q) for q in p.needed_pids),
            "user_inputs": sorted(p.user_input_names),
            "partition_inputs": sorted(p.partition_input_names),
            "outputs": {nm: stable_digest(partition.name_to_output[nm])
                        for nm in sorted(p.output_names)},
            "recvs": {nm: [q.src_rank, tag_text(q.comm_tag), list(q.shape),
                           str(q.dtype)]
                      for nm, q in sorted(p.name_to_recv_node.items())},
            "sends": {nm: [[s.dest_rank, tag_text(s.comm_tag)] for s in ss]
                      for nm, ss in sorted(p.name_to_send_nodes.items())},
        }
        if numbered is not None:
            q = numbered.parts[pid]
            d["recv_ints"] = {nm: v.comm_tag for nm, v in sorted(
                q.name_to_recv_node.items())}
            d["send_ints"] = {nm: [s.comm_tag for s in ss] for nm, ss in sorted(
                q.name_to_send_nodes.items())}
        parts.append(d)
    return {"parts": parts,
            "overall": list(partition.overall_output_names)}

# }}}


# {{{ generated code for the parts (pytato -> loopy -> C -> gcc), sampled

class CompiledPrograms:
    """pid -> callable like :class:`PartPrograms`, but every part is sent
    through ``pt.generate_loopy`` (C target), gcc, and executed natively:
    the equivalent of ``generate_code_for_partition``."""

    def __init__(self, rank: int, partition):
        import pytato as pt

        from pvf.cexec import generate_and_compile
        self.rank = rank
        self.partition = partition
        self.knls = {}
        for pid, part in sorted(partition.parts.items(), key=lambda kv: repr(
                kv[0])):
            d = pt.make_dict_of_named_arrays(
                {nm: partition.name_to_output[nm]
                 for nm in sorted(part.output_names)})
            self.knls[pid] = generate_and_compile(d)

    def __getitem__(self, pid):
        knl = self.knls[pid]

        def prg(queue, allocator=None, **inputs):
            bound = getattr(knl.bp, "bound_arguments", {}) or {}
            res = knl(**{k: np.asarray(v) for k, v in inputs.items()
                         if k in knl.kernel.arg_dict and k not in bound})
            return None, dict(res)
        return prg


def execute_compiled(builds, partitions, prgs, chooser=None, *, por=True):
    MPI = install()
    import pytato as pt
    ctxs = [TracedContext({k: v.copy() for k, v in b.inputs.items()})
            for b in builds]

    def rank_fn(comm):
        r = comm.rank
        return pt.execute_distributed_partition(
            partitions[r], prgs[r], None, comm, input_args=ctxs[r])

    sim = MPI.run_world(len(builds), rank_fn, chooser, por=por)
    return ExecOutcome(sim, list(sim.results), ctxs, prgs)


def local_case(case, vals) -> dict:
    """The same computations without communication: every receive becomes an
    input carrying its reference value, every holder its pass-through operand;
    payloads become extra outputs.  (Baseline for what the code generator can
    do with these expressions at all.)"""
    import copy

    from pvf import distgen
    from pvf.minimize import _value_to_input
    out = {"nranks": case["nranks"], "pattern": case.get("pattern"),
           "ranks": []}
    for r, s in enumerate(case["ranks"]):
        s = copy.deepcopy(s)
        extra = []
        for i, n in enumerate(list(s["nodes"])):
            if n["op"] == "recv":
                repl = _value_to_input(vals[r][i], f"rcv{i}")
                if repl is None:
                    raise ModelError("receive value not representable")
                s["nodes"][i] = repl
        for i in range(len(s["nodes"])):
            n = s["nodes"][i]
            if n["op"] == "sendhold":
                extra.append(n["args"][0][1])
                s = distgen._redirect(s, i, n["args"][1][1])
        for k, i in enumerate(extra):
            if all(i != q for _, q in s["outputs"]):
                s["outputs"].append([f"payload{k}", i])
        out["ranks"].append(s)
    return distgen.gc_case(out)

# }}}
