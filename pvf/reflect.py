"""Reflective view of pytato graphs, from dataclass fields alone.

The oracle for "reaches every child", "users/predecessors", "input not
mutated", "same result": it never calls a pytato mapper; it knows only which
classes are graph nodes and reads their dataclass fields.
"""
from __future__ import annotations

import dataclasses
import hashlib
from collections.abc import Mapping
from typing import Any, Callable, Iterator

import numpy as np


def node_types() -> tuple[type, ...]:
    from pytato.array import AbstractResultWithNamedArrays, Array, CSRMatrix
    from pytato.distributed.nodes import DistributedSend
    from pytato.function import FunctionDefinition
    return (Array, AbstractResultWithNamedArrays, FunctionDefinition, CSRMatrix,
            DistributedSend)


def is_node(x) -> bool:
    return isinstance(x, node_types())


def fields_of(obj) -> list[tuple[str, Any]]:
    """(field name, value) for every dataclass field (DictOfNamedArrays keeps
    its mapping in ``_data`` outside the dataclass machinery)."""
    from pytato.array import DictOfNamedArrays
    res = []
    names = set()
    if dataclasses.is_dataclass(obj):
        for f in dataclasses.fields(obj):
            res.append((f.name, getattr(obj, f.name)))
            names.add(f.name)
    if isinstance(obj, DictOfNamedArrays) and "_data" not in names:
        res.append(("_data", obj._data))
    return res


def _iter_nested(value, path, into_slices=True) -> Iterator[tuple[tuple, Any]]:
    """graph nodes nested in tuples / mappings / NormalizedSlice."""
    from pytato.array import NormalizedSlice
    if is_node(value):
        yield path, value
    elif isinstance(value, (tuple, list)):
        for i, v in enumerate(value):
            yield from _iter_nested(v, (*path, i), into_slices)
    elif isinstance(value, Mapping):
        for k in value:
            yield from _iter_nested(value[k], (*path, k), into_slices)
    elif isinstance(value, NormalizedSlice) and into_slices:
        for nm in ("start", "stop", "step"):
            yield from _iter_nested(getattr(value, nm), (*path, nm))


def children(obj, *, into_functions: bool = True,
             into_slices: bool = True) -> list[tuple[tuple, Any]]:
    """[(label, child)] - every graph node directly referenced by a field of
    *obj*; label = (field, position...)."""
    from pytato.function import FunctionDefinition
    out = []
    for name, value in fields_of(obj):
        for path, ch in _iter_nested(value, (name,), into_slices):
            if not into_functions and isinstance(ch, FunctionDefinition):
                continue
            out.append((path, ch))
    return out


def walk(root, *, into_functions: bool = True, into_slices: bool = True,
         stop: Callable[[Any], bool] | None = None) -> dict[int, Any]:
    """id -> node for everything reachable from *root* (iterative)."""
    seen: dict[int, Any] = {}
    stack = [root] if not isinstance(root, (list, tuple)) else list(root)
    while stack:
        n = stack.pop()
        if id(n) in seen:
            continue
        seen[id(n)] = n
        if stop is not None and stop(n):
            continue
        for _, ch in children(n, into_functions=into_functions,
                              into_slices=into_slices):
            if id(ch) not in seen:
                stack.append(ch)
    return seen


def edges(root, **kw) -> list[tuple[int, tuple, int]]:
    """(id(parent), label, id(child)) for every field reference."""
    res = []
    for n in walk(root, **kw).values():
        for path, ch in children(n, into_functions=kw.get("into_functions",
                                                           True)):
            res.append((id(n), path, id(ch)))
    return res


def topo_order(root, **kw) -> list[Any]:
    """children before parents (iterative post-order)."""
    order: list[Any] = []
    state: dict[int, int] = {}
    stack = [(root, iter(children(root, **kw)))]
    state[id(root)] = 1
    while stack:
        node, it = stack[-1]
        advanced = False
        for _, ch in it:
            if id(ch) not in state:
                state[id(ch)] = 1
                stack.append((ch, iter(children(ch, **kw))))
                advanced = True
                break
        if not advanced:
            stack.pop()
            order.append(node)
    return order


# {{{ fingerprint

def _leaf(value, strip_tags: bool):
    from pytato.array import Axis, NormalizedSlice, ReductionDescriptor
    if isinstance(value, np.ndarray):
        return ("ndarray", str(value.dtype), value.shape,
                hashlib.sha256(np.ascontiguousarray(value).tobytes())
                .hexdigest()[:16], bool(value.flags.writeable))
    if isinstance(value, np.dtype):
        return ("dtype", str(value))
    if isinstance(value, type) and issubclass(value, np.generic):
        return ("dtype", str(np.dtype(value)))
    if isinstance(value, Axis):
        return ("Axis", frozenset() if strip_tags else value.tags)
    if isinstance(value, ReductionDescriptor):
        return ("RD", frozenset() if strip_tags else value.tags)
    if isinstance(value, np.generic):
        return ("npscalar", str(value.dtype), repr(value))
    try:
        hash(value)
        return ("val", value)
    except TypeError:
        return ("repr", repr(value))


def fingerprint(root, *, strip_tags: bool = False,
                into_functions: bool = True):
    """Canonical, hashable description of the graph under *root*: structure,
    every field value, and the *sharing pattern* (object identities are
    replaced by first-visit serial numbers).  With strip_tags, ``tags``,
    axis tags and reduction-descriptor tags are ignored."""
    from pytato.array import NormalizedSlice
    serial: dict[int, int] = {}
    table: list[Any] = []
    keep = []

    def enc(value):
        if is_node(value):
            return ("ref", visit(value))
        if isinstance(value, (tuple, list)):
            return ("tuple", tuple(enc(v) for v in value))
        if isinstance(value, frozenset):
            if all(not is_node(v) for v in value):
                return _leaf(value, strip_tags)
            return ("fset", frozenset(enc(v) for v in value))
        if isinstance(value, Mapping):
            return ("map", tuple((k, enc(value[k]))
                                 for k in sorted(value, key=repr)))
        if isinstance(value, NormalizedSlice):
            return ("nslice", enc(value.start), enc(value.stop), enc(value.step))
        return _leaf(value, strip_tags)

    def visit(n) -> int:
        if id(n) in serial:
            return serial[id(n)]
        # iterative would be nicer; graphs here are a few dozen nodes deep
        k = len(serial)
        serial[id(n)] = k
        keep.append(n)
        table.append(None)
        desc = [type(n).__name__]
        for name, value in fields_of(n):
            if name == "non_equality_tags":
                continue
            if strip_tags and name == "tags":
                continue
            desc.append((name, enc(value)))
        table[k] = tuple(desc)
        return k

    import sys
    old = sys.getrecursionlimit()
    sys.setrecursionlimit(max(old, 20000))
    try:
        if isinstance(root, (list, tuple)):
            top = tuple(visit(r) for r in root)
        else:
            top = (visit(root),)
    finally:
        sys.setrecursionlimit(old)
    return (top, tuple(table))


_ADDR = None


def canon(value) -> str:
    """Address-free canonical text of a leaf value (scalar expressions,
    reduction operations, tags, numpy scalars, nested containers)."""
    import re
    global _ADDR
    if _ADDR is None:
        _ADDR = re.compile(r" at 0x[0-9a-fA-F]+")
    import pymbolic.primitives as prim
    from pytato.reductions import ReductionOperation
    if isinstance(value, ReductionOperation):
        return type(value).__name__
    if isinstance(value, prim.ExpressionNode) and dataclasses.is_dataclass(value):
        return type(value).__name__ + "(" + ",".join(
            f.name + "=" + canon(getattr(value, f.name))
            for f in dataclasses.fields(value)) + ")"
    if isinstance(value, (tuple, list)):
        return "(" + ",".join(canon(v) for v in value) + ")"
    if isinstance(value, (frozenset, set)):
        return "{" + ",".join(sorted(canon(v) for v in value)) + "}"
    if isinstance(value, Mapping):
        return "<" + ",".join(sorted(f"{canon(k)}:{canon(v)}"
                                     for k, v in value.items())) + ">"
    if isinstance(value, np.generic):
        return f"{value.dtype}:{value!r}"
    if isinstance(value, np.dtype):
        return f"dtype:{value}"
    if isinstance(value, type):
        return f"type:{value.__module__}.{value.__qualname__}"
    return _ADDR.sub("", repr(value))


def structure(root, *, strip_tags: bool = False) -> str:
    """Digest of the graph's *unfolding*: like fingerprint() but blind to
    sharing (two structurally equal nodes count the same whether they are one
    object or two).  DataWrappers are identified by their data object."""
    from pytato.array import DataWrapper, NormalizedSlice
    memo: dict[int, str] = {}
    keep = []

    def enc(value) -> str:
        if is_node(value):
            return "N" + visit(value)
        if isinstance(value, (tuple, list)):
            return "(" + ",".join(enc(v) for v in value) + ")"
        if isinstance(value, frozenset) and any(is_node(v) for v in value):
            return "{" + ",".join(sorted(enc(v) for v in value)) + "}"
        if isinstance(value, Mapping):
            return "<" + ",".join(f"{k!r}:{enc(value[k])}"
                                  for k in sorted(value, key=repr)) + ">"
        if isinstance(value, NormalizedSlice):
            return f"S[{enc(value.start)}:{enc(value.stop)}:{enc(value.step)}]"
        leaf = _leaf(value, strip_tags)
        if leaf[0] == "val":
            return canon(leaf[1])
        return canon(leaf)

    def visit(n) -> str:
        if id(n) in memo:
            return memo[id(n)]
        keep.append(n)
        parts = [type(n).__name__]
        if isinstance(n, DataWrapper):
            parts.append(f"data@{id(n.data)}")
        for name, value in fields_of(n):
            if name == "non_equality_tags" or (strip_tags and name == "tags"):
                continue
            if isinstance(n, DataWrapper) and name == "data":
                continue
            parts.append(name + "=" + enc(value))
        d = hashlib.sha256("|".join(parts).encode()).hexdigest()[:24]
        memo[id(n)] = d
        return d

    import sys
    old = sys.getrecursionlimit()
    sys.setrecursionlimit(max(old, 20000))
    try:
        if isinstance(root, (list, tuple)):
            return ",".join(visit(r) for r in root)
        return visit(root)
    finally:
        sys.setrecursionlimit(old)


def replace_field(obj, name: str, value):
    """copy of *obj* with one dataclass field replaced."""
    from pytato.array import DictOfNamedArrays
    if isinstance(obj, DictOfNamedArrays):
        if name == "_data":
            return type(obj)(data=value, tags=obj.tags)
        return type(obj)(data=obj._data, tags=value)
    return dataclasses.replace(obj, **{name: value})


def _map_nested(value, f):
    """apply f to every graph node nested in tuples/mappings/slices; returns
    (new value, changed?)"""
    from constantdict import constantdict
    from pytato.array import NormalizedSlice
    if is_node(value):
        new = f(value)
        return new, new is not value
    if isinstance(value, tuple):
        parts = [_map_nested(v, f) for v in value]
        if any(c for _, c in parts):
            return tuple(v for v, _ in parts), True
        return value, False
    if isinstance(value, Mapping):
        parts = {k: _map_nested(v, f) for k, v in value.items()}
        if any(c for _, c in parts.values()):
            new = {k: v for k, (v, _) in parts.items()}
            return (constantdict(new) if isinstance(value, constantdict)
                    else new), True
        return value, False
    if isinstance(value, NormalizedSlice):
        parts = [_map_nested(getattr(value, nm), f)
                 for nm in ("start", "stop", "step")]
        if any(c for _, c in parts):
            return NormalizedSlice(*[v for v, _ in parts]), True
        return value, False
    return value, False


def rebuild(root, repl: dict[int, Any]):
    """copy of the graph under *root* in which every node n with id(n) in
    *repl* is replaced by repl[id(n)]; parents are re-created with
    dataclasses.replace, untouched sub-graphs are shared."""
    memo: dict[int, Any] = {}

    def go(n):
        k = id(n)
        if k in repl:
            return repl[k]
        if k in memo:
            return memo[k]
        changed = {}
        for name, value in fields_of(n):
            new, ch = _map_nested(value, go)
            if ch:
                changed[name] = new
        res = n
        for name, value in changed.items():
            res = replace_field(res, name, value)
        memo[k] = res
        return res

    import sys
    old = sys.getrecursionlimit()
    sys.setrecursionlimit(max(old, 20000))
    try:
        return go(root)
    finally:
        sys.setrecursionlimit(old)


def data_arrays(root) -> list[np.ndarray]:
    from pytato.array import DataWrapper
    return [n.data for n in walk(root).values()
            if isinstance(n, DataWrapper) and isinstance(n.data, np.ndarray)]

# }}}
