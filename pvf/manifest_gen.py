"""Regenerates MANIFEST.json from the property modules that exist."""
from __future__ import annotations

import importlib
import json
import os

ROOT = os.path.dirname(os.path.dirname(os.path.abspath(__file__)))

PROPS = [f"C{i:02d}" for i in range(1, 21)]

BASELINE = ("cd /repo && /venv/bin/python -m pytest -ra -q -p no:cacheprovider "
            "--timeout=900 --continue-on-collection-errors")


PBT = "property-based testing (Hypothesis, generated programs)"
TECHNIQUE = {
    "C01": PBT + ": differential against a NumPy reference model with "
           "forward error bounds; generated C compiled and run",
    "C02": PBT + " + exhaustive enumeration of slices/reshapes: pointwise "
           "reference interpreter of index lambdas vs NumPy semantics",
    "C03": PBT + " + exhaustive operator x dtype x shape tables: "
           "differential against NumPy's shape/dtype/acceptance",
    "C04": PBT + ": algebraic laws of ==/hash under rebuild, single-field "
           "mutation, pickling and child interpreters",
    "C05": PBT + " over transformation pipelines: metamorphic (outputs "
           "before/after by a reference evaluator; input graph unchanged)",
    "C06": PBT + ": metamorphic (einsum rewrites preserve values under a "
           "reference evaluator)",
    "C07": PBT + ": metamorphic (tagged vs untagged variant of one program, "
           "compiled and run)",
    "C08": PBT + " + stateful schedule exploration: generated multi-rank "
           "programs run under a simulated MPI whose schedule tree is "
           "walked exhaustively (DFS) up to a budget; reference model",
    "C09": PBT + ": validity predicates over every rank's partition and "
           "cross-rank agreement under a simulated MPI; hash-seed children",
    "C10": "fault injection: every single fault at every message of "
           "generated programs (exhaustive), sampled pairs, partition-table "
           "faults; oracle = documented diagnostic or correct completion",
    "C11": PBT + ": validity predicate decided per program with ISL "
           "(every subscript within bounds) + dynamic red-zone differential",
    "C12": PBT + ": round trip (outline/inline) and differential against a "
           "reference evaluator / NumPy",
    "C13": PBT + " over graph families: invariants on instrumented mappers "
           "(visit counts, sharing, reach) and a substitution oracle",
    "C14": PBT + ": differential (generated NumPy-like source executed vs "
           "NumPy's own evaluation)",
    "C15": PBT + " with adversarial name pools: metamorphic (renamed vs "
           "plainly named program) + validity predicates on generated names",
    "C16": PBT + " + exhaustive enumeration of affine-form pairs: "
           "differential against coefficient vectors / NumPy at 36 sizes, "
           "one compiled kernel for all sizes",
    "C17": PBT + ": differential across child interpreters (hash seeds, "
           "allocation histories), byte comparison of generated artefacts",
    "C18": PBT + ": injectivity/stability laws of persistent keys under "
           "single-component mutation, layouts, histories, child processes",
    "C19": PBT + " + enumeration of API-built and near-miss index lambdas: "
           "round trip (re-interpretation must equal the lambda pointwise)",
    "C20": PBT + " over graph families: analyses recomputed by a reflective "
           "walk of the graph (reference model)",
}


def main() -> None:
    checks = []
    na = []
    for pid in PROPS:
        try:
            mod = importlib.import_module(f"pvf.props.{pid.lower()}")
        except ModuleNotFoundError:
            na.append({"property_id": pid,
                       "reason": "check not built yet (work in progress; "
                                 "design in DESIGN.md section 5)"})
            continue
        m = dict(getattr(mod, "MANIFEST", {}))
        m.setdefault("technique", TECHNIQUE.get(pid))
        checks.append({
            "property_id": pid,
            "quick_cmd": f"./check {pid} --tier quick",
            "thorough_cmd": f"./check {pid} --tier thorough",
            "evidence_file": f"/verif/evidence/{pid}.json",
            "replay_cmd_template": f"./check {pid} --replay {{path}}",
            "engine": "pvf",
            "level_claimed": {
                "category": mod.LEVEL,
                "text": m.get("text", mod.RULE),
                "design_ref": f"DESIGN.md 5 ({pid})",
            },
            "level_note": m.get("note", "; ".join(mod.ASSUMPTIONS)),
            "technique": m.get("technique") or (
                "property-based testing (Hypothesis) against a NumPy "
                "reference"),
        })
    man = {
        "version": 1,
        "setup_cmd": "cd /verif && ./setup.sh",
        "hooks": {
            "guard": "PYTATO_VERIF",
            "enable": "no hooks: the checks use pytato's public extension "
                      "points only (LoopyTarget, mapper subclassing, a shim "
                      "mpi4py on sys.path)",
            "baseline_off_cmd": BASELINE,
            "source_commits": [],
            "add_only": True,
        },
        "engines": [{
            "name": "pvf", "path": "/verif/pvf",
            "serves_properties": [c["property_id"] for c in checks],
            "kind_free_text": "Hypothesis-driven program grammar + NumPy "
                              "reference with forward error bounds + gcc "
                              "execution of generated loopy C + exhaustive "
                              "enumeration of finite sub-domains",
        }],
        "checks": checks,
        "not_applicable": na,
        "notes": "see DESIGN.md; known findings in KNOWN_FINDINGS.jsonl",
    }
    with open(os.path.join(ROOT, "MANIFEST.json"), "w") as f:
        json.dump(man, f, indent=1)
        f.write("\n")


if __name__ == "__main__":
    main()
