"""Regenerates MANIFEST.json from the property modules that exist."""
from __future__ import annotations

import importlib
import json
import os

ROOT = os.path.dirname(os.path.dirname(os.path.abspath(__file__)))

PROPS = [f"C{i:02d}" for i in range(1, 21)]

BASELINE = ("cd /repo && /venv/bin/python -m pytest -ra -q -p no:cacheprovider "
            "--timeout=900 --continue-on-collection-errors")


def main() -> None:
    checks = []
    na = []
    for pid in PROPS:
        try:
            mod = importlib.import_module(f"pvf.props.{pid.lower()}")
        except ModuleNotFoundError:
            na.append({"property_id": pid,
                       "reason": "check not built yet (work in progress; "
                                 "design in DESIGN.md section 5)"})
            continue
        m = getattr(mod, "MANIFEST", {})
        checks.append({
            "property_id": pid,
            "quick_cmd": f"./check {pid} --tier quick",
            "thorough_cmd": f"./check {pid} --tier thorough",
            "evidence_file": f"/verif/evidence/{pid}.json",
            "replay_cmd_template": f"./check {pid} --replay {{path}}",
            "engine": "pvf",
            "level_claimed": {
                "category": mod.LEVEL,
                "text": m.get("text", mod.RULE),
                "design_ref": f"DESIGN.md 5 ({pid})",
            },
            "level_note": m.get("note", "; ".join(mod.ASSUMPTIONS)),
            "technique": m.get("technique",
                               "property-based testing (Hypothesis) against a "
                               "NumPy reference"),
        })
    man = {
        "version": 1,
        "setup_cmd": "cd /verif && ./setup.sh",
        "hooks": {
            "guard": "PYTATO_VERIF",
            "enable": "no hooks: the checks use pytato's public extension "
                      "points only (LoopyTarget, mapper subclassing, a shim "
                      "mpi4py on sys.path)",
            "baseline_off_cmd": BASELINE,
            "source_commits": [],
            "add_only": True,
        },
        "engines": [{
            "name": "pvf", "path": "/verif/pvf",
            "serves_properties": [c["property_id"] for c in checks],
            "kind_free_text": "Hypothesis-driven program grammar + NumPy "
                              "reference with forward error bounds + gcc "
                              "execution of generated loopy C + exhaustive "
                              "enumeration of finite sub-domains",
        }],
        "checks": checks,
        "not_applicable": na,
        "notes": "see DESIGN.md; known findings in KNOWN_FINDINGS.jsonl",
    }
    with open(os.path.join(ROOT, "MANIFEST.json"), "w") as f:
        json.dump(man, f, indent=1)
        f.write("\n")


if __name__ == "__main__":
    main()
