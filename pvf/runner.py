"""Sharded runner: seeds, processes, known findings, evidence, verdict lines."""
from __future__ import annotations

import hashlib
import importlib
import json
import multiprocessing as mp
import os
import re
import shutil
import sys
import tempfile
import time
import traceback
from dataclasses import dataclass, field
from typing import Any, Callable

ROOT = os.path.dirname(os.path.dirname(os.path.abspath(__file__)))
EVIDENCE_DIR = os.path.join(ROOT, "evidence")
REPLAY_DIR = os.path.join(ROOT, "replays")
KNOWN_FILE = os.path.join(ROOT, "KNOWN_FINDINGS.jsonl")


class HarnessError(Exception):
    pass


def derive_seed(seed: int, prop: str, shard: int, salt: str = "") -> int:
    h = hashlib.sha256(f"{seed}/{prop}/{shard}/{salt}".encode()).digest()
    return int.from_bytes(h[:8], "big") % (2**63)


# {{{ hypothesis driver

def hyp_run(strategy, body: Callable[[Any], None], seed: int,
            max_examples: int) -> int:
    """Run *body* on *max_examples* generated values (generate phase only;
    failures are collected by *body*, not raised)."""
    import hypothesis
    from hypothesis import HealthCheck, Phase, given, settings
    count = [0]

    @hypothesis.seed(seed)
    @settings(max_examples=max_examples, deadline=None, database=None,
              derandomize=False, report_multiple_bugs=False,
              suppress_health_check=list(HealthCheck),
              phases=[Phase.generate])
    @given(strategy)
    def _t(x):
        count[0] += 1
        body(x)

    _t()
    return count[0]

# }}}


# {{{ shard results

@dataclass
class ShardResult:
    evaluations: int = 0
    nontrivial: set = field(default_factory=set)
    classes: dict = field(default_factory=dict)
    samples: list = field(default_factory=list)
    failures: list = field(default_factory=list)   # {key, failure, case}
    skipped: dict = field(default_factory=dict)
    extra: dict = field(default_factory=dict)
    error: str | None = None

    def count(self, name: str, n: int = 1) -> None:
        self.classes[name] = self.classes.get(name, 0) + n

    def skip(self, why: str) -> None:
        self.skipped[why] = self.skipped.get(why, 0) + 1

    def fail(self, failure, case) -> None:
        self.failures.append({"key": failure.key(),
                              "failure": failure.to_json(), "case": case})

    def sample(self, case, limit: int = 3) -> None:
        if len(self.samples) < limit:
            self.samples.append(case)


def _shard_entry(args):
    modname, shard, nshards, seed, tier, scratch = args
    os.environ["TMPDIR"] = scratch
    tempfile.tempdir = scratch
    import warnings
    warnings.filterwarnings("ignore")
    try:
        mod = importlib.import_module(modname)
        res = mod.run_shard(shard, nshards, seed, tier)
        res.nontrivial = set(res.nontrivial)
        return res
    except BaseException as e:  # noqa: BLE001
        r = ShardResult()
        r.error = f"{type(e).__name__}: {e}\n{traceback.format_exc()}"
        return r

# }}}


# {{{ known findings

def load_known(prop: str) -> list[dict]:
    out = []
    if os.path.exists(KNOWN_FILE):
        with open(KNOWN_FILE) as f:
            for line in f:
                line = line.strip()
                if not line or line.startswith("#"):
                    continue
                if line.startswith("fixed:"):
                    continue
                e = json.loads(line)
                if e.get("property") == prop and e.get("status") == "known":
                    out.append(e)
    return out


def match_known(entry: dict, failure: dict, case, mod) -> bool:
    m = entry["match"]
    if "kind" in m and failure["kind"] != m["kind"]:
        return False
    if "where" in m and not re.search(m["where"], failure.get("where", "")):
        return False
    if "detail" in m and not re.search(m["detail"], failure.get("detail", "")):
        return False
    if "predicate" in m:
        pred = getattr(mod, "KNOWN_PREDICATES", {}).get(m["predicate"])
        if pred is None or not pred(case, failure):
            return False
    return True

# }}}


def _case_hash(case) -> str:
    return hashlib.sha256(json.dumps(case, sort_keys=True, default=str)
                          .encode()).hexdigest()[:16]


def write_replay(prop: str, case, failure: dict) -> str:
    d = os.path.join(REPLAY_DIR, prop, "found")
    os.makedirs(d, exist_ok=True)
    path = os.path.join(d, _case_hash(case) + ".json")
    with open(path, "w") as f:
        json.dump({"property": prop, "failure": failure, "case": case}, f,
                  indent=1, sort_keys=True, default=str)
    return path


def corpus_files(prop: str) -> list[str]:
    d = os.path.join(REPLAY_DIR, prop, "corpus")
    if not os.path.isdir(d):
        return []
    return sorted(os.path.join(d, f) for f in os.listdir(d)
                  if f.endswith(".json"))


def write_evidence(prop: str, tier: str, seed: int, level: str, coverage: dict,
                   assumptions: list[str], wall: float, violations: int) -> None:
    os.makedirs(EVIDENCE_DIR, exist_ok=True)
    ev = {"property_id": prop, "tier": tier, "seed": seed, "level": level,
          "coverage": coverage, "assumptions": assumptions,
          "wall_s": round(wall, 2), "violations": violations}
    path = os.path.join(EVIDENCE_DIR, f"{prop}.json")
    tmp = path + ".tmp"
    with open(tmp, "w") as f:
        json.dump(ev, f, indent=1, sort_keys=True, default=str)
    os.replace(tmp, path)


def run_check(prop: str, tier: str, seed: int, nshards: int | None = None,
              replay: str | None = None) -> int:
    modname = f"pvf.props.{prop.lower()}"
    mod = importlib.import_module(modname)
    t0 = time.time()
    known = load_known(prop)
    scratch = tempfile.mkdtemp(prefix=f"pvf-{prop}-")
    os.environ["TMPDIR"] = scratch
    tempfile.tempdir = scratch
    try:
        if replay is not None:
            return _replay_one(mod, prop, replay, known)
        return _run(mod, modname, prop, tier, seed, nshards, known, scratch, t0)
    finally:
        shutil.rmtree(scratch, ignore_errors=True)


def _replay_one(mod, prop, path, known) -> int:
    with open(path) as f:
        doc = json.load(f)
    case = doc["case"] if "case" in doc else doc
    f = mod.replay(case)
    if f is None:
        print(f"REPLAY-OK property={prop} replay={path}")
        return 0
    fj = f.to_json()
    for e in known:
        if match_known(e, fj, case, mod):
            print(f"KNOWN-FINDING: property={prop} {e['what']}")
            return 0
    print(f"replayed failure: {fj}")
    print(f"VIOLATION property={prop} replay={path}")
    return 1


def _run(mod, modname, prop, tier, seed, nshards, known, scratch, t0) -> int:
    plan = mod.plan(tier)
    n = nshards or plan.get("shards", 16)
    ncpu = min(n, os.cpu_count() or 1, int(os.environ.get("PVF_PROCS", "16")))

    violations: list[tuple[dict, Any, str]] = []   # (failure, case, path)
    known_hit: dict[str, int] = {}

    # 1. committed regression corpus first
    corpus_n = 0
    for path in corpus_files(prop):
        with open(path) as f:
            doc = json.load(f)
        case = doc["case"]
        corpus_n += 1
        try:
            fl = mod.replay(case)
        except Exception as e:  # noqa: BLE001
            print(f"HARNESS-ERROR property={prop} corpus replay {path}: "
                  f"{type(e).__name__}: {e}")
            traceback.print_exc()
            return 2
        if fl is not None:
            fj = fl.to_json()
            hit = None
            for e in known:
                if match_known(e, fj, case, mod):
                    hit = e
                    break
            if hit is not None:
                known_hit[hit["id"]] = known_hit.get(hit["id"], 0) + 1
            else:
                violations.append((fj, case, path))

    # 2. generated exploration
    args = [(modname, k, n, derive_seed(seed, prop, k), tier, scratch)
            for k in range(n)]
    if ncpu > 1:
        ctx = mp.get_context("fork")
        with ctx.Pool(ncpu, maxtasksperchild=1) as pool:
            results = pool.map(_shard_entry, args, chunksize=1)
    else:
        results = [_shard_entry(a) for a in args]

    for r in results:
        if r.error:
            print(f"HARNESS-ERROR property={prop} shard failed:\n{r.error}")
            return 2

    evaluations = sum(r.evaluations for r in results) + corpus_n
    nontrivial = set()
    classes: dict[str, int] = {}
    skipped: dict[str, int] = {}
    samples = []
    extra: dict[str, Any] = {}
    unknown: dict[str, list] = {}
    for r in results:
        nontrivial |= r.nontrivial
        for k, v in r.classes.items():
            classes[k] = classes.get(k, 0) + v
        for k, v in r.skipped.items():
            skipped[k] = skipped.get(k, 0) + v
        for s in r.samples:
            if len(samples) < 5:
                samples.append(s)
        for k, v in r.extra.items():
            if isinstance(v, (int, float)) and not isinstance(v, bool):
                extra[k] = extra.get(k, 0) + v
            elif isinstance(v, bool):
                extra[k] = extra.get(k, True) and v
            else:
                extra.setdefault(k, v)
        for fl in r.failures:
            hit = None
            for e in known:
                if match_known(e, fl["failure"], fl["case"], mod):
                    hit = e
                    break
            if hit is not None:
                known_hit[hit["id"]] = known_hit.get(hit["id"], 0) + 1
            else:
                unknown.setdefault(fl["key"], []).append(fl)

    # 3. minimise and report unknown failures (one per bucket, <= 4 buckets)
    for key in sorted(unknown)[:4]:
        group = unknown[key]
        group.sort(key=lambda fl: len(json.dumps(fl["case"], default=str)))
        fl = group[0]
        case = fl["case"]
        fj = fl["failure"]
        if hasattr(mod, "minimize"):
            try:
                case, fj = mod.minimize(case, fj)
            except Exception:  # noqa: BLE001
                traceback.print_exc()
        path = write_replay(prop, case, fj)
        violations.append((fj, case, path))

    for e in known:
        if known_hit.get(e["id"]):
            print(f"KNOWN-FINDING: property={prop} {e['what']} "
                  f"[{known_hit[e['id']]} case(s)]")

    coverage = {
        "evaluations": int(evaluations),
        "distinct_nontrivial": len(nontrivial),
        "rule": mod.RULE,
        "samples": samples,
        "classes": dict(sorted(classes.items())),
        "skipped": dict(sorted(skipped.items())),
        "excluded_known": known_hit,
        "corpus_replayed": corpus_n,
        "shards": n,
        "unknown_failure_buckets": {k: len(v) for k, v in unknown.items()},
    }
    coverage.update(extra)
    if "exhaustive" not in coverage:
        coverage["exhaustive"] = False
    wall = time.time() - t0
    write_evidence(prop, tier, seed, mod.LEVEL, coverage,
                   list(mod.ASSUMPTIONS), wall, len(violations))
    print(f"{prop} tier={tier} seed={seed}: evaluations={evaluations} "
          f"distinct_nontrivial={len(nontrivial)} skipped={sum(skipped.values())}"
          f" known={sum(known_hit.values())} violations={len(violations)} "
          f"wall={wall:.1f}s")
    if violations:
        for fj, case, path in violations:
            print(f"  failure: {fj['kind']} @ {fj.get('where')}: "
                  f"{fj['detail'][:300]}")
            print(f"VIOLATION property={prop} replay={path}")
        return 1
    return 0


def main(argv=None) -> int:
    import argparse
    ap = argparse.ArgumentParser()
    ap.add_argument("prop")
    ap.add_argument("--tier", default=os.environ.get("VERIF_TIER", "quick"))
    ap.add_argument("--replay", default=None)
    ap.add_argument("--shards", type=int, default=None)
    a = ap.parse_args(argv)
    if a.tier not in ("quick", "thorough"):
        a.tier = "quick"
    try:
        seed = int(os.environ.get("VERIF_SEED", "1"))
    except ValueError:
        seed = 1
    try:
        return run_check(a.prop.upper(), a.tier, seed, a.shards, a.replay)
    except HarnessError as e:
        print(f"HARNESS-ERROR property={a.prop}: {e}")
        return 2
    except Exception as e:  # noqa: BLE001
        print(f"HARNESS-ERROR property={a.prop}: {type(e).__name__}: {e}")
        traceback.print_exc()
        return 2


if __name__ == "__main__":
    sys.exit(main())
