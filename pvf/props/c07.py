"""C07 - tags carry no semantics; implementation strategies are equivalent."""
from __future__ import annotations

import copy
import itertools
import warnings

import numpy as np
from hypothesis import strategies as st

from pvf import progen
from pvf.oracle import (
    Failure,
    Skip,
    check_outputs,
    exc_site,
    reference,
    run_c,
)
from pvf.ptbuild import INPUT_OPS, build_pt, gc, reachable, spec_hash
from pvf.runner import ShardResult, hyp_run

ID = "C07"
LEVEL = "exploration"
RULE = ("metamorphic: a grammar program (C01's space, all operation groups) is "
        "built, generated, compiled and run WITHOUT tags, then again under "
        "drawn tag assignments: every reachable non-input node independently "
        "gets one of {none, ImplStored, ImplInlined, ImplSubstitution}, one of "
        "{none, Named(fresh unique name), PrefixNamed(shared prefix)}, and any "
        "of {user tag, second user tag type, unique user tag, axis tag on a "
        "drawn axis, tag on every reduction descriptor}; index arrays without "
        "negative entries may get AssumeNonNegative; inputs get user / "
        "axis / PrefixNamed tags and (rarely) implementation tags, 0-d "
        "placeholders ForceValueArgTag.  Oracle: "
        "the tagged graph has the same output names, shapes and dtypes; its "
        "generation and compilation succeed whenever the untagged program's "
        "do; every output equals NumPy's reference within the same bound the "
        "untagged run met (and the fraction bit-identical to the untagged run "
        "is reported).  Programs whose untagged variant already deviates "
        "(C01's business and its listed findings) are skipped and counted.  "
        "non-trivial = the assignment puts ImplStored or ImplSubstitution on "
        ">= 1 inner (non-output) operation node; distinct by (program, "
        "assignment)")
RULE += '  Round-4 additions: 0-d real placeholders may get ForceValueArgTag (passed by value); 78 enumerated programs in which ONE buffer is wrapped by two DataWrapper nodes of which one or both carry user/axis/PrefixNamed/ImplStored tags.  Round 5: 36 programs with two stored arrays produced by the same subscript/expression in different shapes, under both output-name orders.'
ASSUMPTIONS = [
    "loopy's C target + gcc stand in for the OpenCL target",
    "on this image every reduction is stored regardless of tags "
    "(is_quasi_affine is always False with loopy 2025.2)",
    "Named tags use names fresh by construction (collisions are C15's "
    "subject)",
]


def plan(tier: str) -> dict:
    if tier == "thorough":
        return {"shards": 16, "examples": 400, "max_ops": 16, "assignments": 3}
    return {"shards": 16, "examples": 40, "max_ops": 12, "assignments": 2}


IMPL = (None, ["ImplStored"], ["ImplInlined"], ["ImplSubstitution"])


def index_arrays(spec) -> set[int]:
    """nodes used as index arrays of an advanced-indexing operation"""
    res = set()
    for n in spec["nodes"]:
        if n["op"] == "index":
            for it in n.get("p", {}).get("idx", []):
                if it[0] == "arr":
                    a = n["args"][it[1]]
                    if a[0] == "n":
                        res.add(a[1])
    return res


@st.composite
def assignments(draw, spec, nonneg=frozenset()):
    live = sorted(reachable(spec))
    out_idx = {i for _, i in spec["outputs"]}
    tags = {}
    heavy = draw(st.booleans())
    for i in live:
        n = spec["nodes"][i]
        ts = []
        is_input = n["op"] in INPUT_OPS
        if not is_input:
            impl = draw(st.sampled_from(IMPL if not heavy else IMPL[1:]
                                        + (IMPL[1], IMPL[3])))
            if impl:
                ts.append(impl)
            nm = draw(st.integers(0, 5))
            if nm == 0:
                ts.append(["Named", f"nm_{i}"])
            elif nm == 1:
                ts.append(["PrefixNamed", f"pf{i % 2}"])
        else:
            if draw(st.integers(0, 7)) == 0:
                ts.append(draw(st.sampled_from(IMPL[1:])))
            if n["op"] == "data" and draw(st.integers(0, 3)) == 0:
                ts.append(["PrefixNamed", "dw"])
            if (n["op"] == "placeholder" and not n["p"]["shape"]
                    and not n["p"]["dtype"].startswith("complex")
                    and draw(st.booleans())):
                # a 0-d input passed by value instead of by reference (the
                # launcher of this harness cannot pass complex by value)
                ts.append(["ForceValueArg"])
        k = draw(st.integers(0, 7))
        if k & 1:
            ts.append(["User", f"u{i % 3}"])
        if k == 2:
            ts.append(["Axis", draw(st.integers(-3, 3)), f"ax{i % 2}"])
        if k == 4 or k == 7:
            ts.append(["Redn", f"r{i % 2}"])
        if i in nonneg and draw(st.booleans()):
            # a truthful assumption about an index array changes nothing
            ts.append(["AssumeNonNegative"])
        if ts:
            tags[str(i)] = ts
    return tags


def tagged(spec, tags):
    s = copy.deepcopy(spec)
    for i, ts in tags.items():
        s["nodes"][int(i)]["tags"] = ts
    return s


def nontrivial(spec, tags) -> bool:
    out_idx = {i for _, i in spec["outputs"]}
    return any(int(i) not in out_idx
               and spec["nodes"][int(i)]["op"] not in INPUT_OPS
               and any(t[0] in ("ImplStored", "ImplSubstitution") for t in ts)
               for i, ts in tags.items())


def baseline(spec):
    """-> (prog0, ref, res0) or raises Skip"""
    from pvf.cexec import HarnessError
    try:
        prog0 = build_pt(spec, with_tags=False)
    except Exception as e:  # noqa: BLE001
        raise Skip(f"untagged build fails: {type(e).__name__}") from e
    ref = reference(spec, prog0, None)
    try:
        _, _, res0 = run_c(spec, prog=prog0)
    except HarnessError:
        raise
    except Exception as e:  # noqa: BLE001
        raise Skip(f"untagged codegen fails: {type(e).__name__}") from e
    f0 = check_outputs(spec, prog0, res0, ref)
    if f0 is not None:
        raise Skip(f"untagged variant deviates ({f0.kind}): C01's business")
    return prog0, ref, res0


def tagged_oracle(spec, tags, base):
    """-> (Failure|None, info)"""
    from pvf.cexec import HarnessError
    prog0, ref, res0 = base
    info = {}
    st_ = tagged(spec, tags)
    try:
        prog1 = build_pt(st_, with_tags=True)
    except Exception as e:  # noqa: BLE001
        if type(e).__name__ == "NonUniqueTagError":
            # an operation returned its (already name-tagged) operand, e.g.
            # x.real of a real array: pytools' documented unique-tag rule
            info["rejected"] = "unique-tag rule"
            return None, info
        return Failure("tagging-exception", f"{type(e).__name__}: {e}",
                       exc_site(e)), info
    if sorted(prog1.outputs) != sorted(prog0.outputs):
        return Failure("tagged-output-names", f"{sorted(prog1.outputs)} vs "
                       f"{sorted(prog0.outputs)}", "names"), info
    for k in prog0.outputs:
        a, b = prog0.outputs[k], prog1.outputs[k]
        if tuple(a.shape) != tuple(b.shape) or a.dtype != b.dtype:
            return Failure("tagged-output-type", f"{k}: {b.shape}/{b.dtype} vs "
                           f"{a.shape}/{a.dtype}", "type"), info
    try:
        _, knl, res1 = run_c(st_, prog=prog1)
    except HarnessError:
        raise
    except Exception as e:  # noqa: BLE001
        return Failure("tagged-codegen-exception",
                       f"untagged program compiles and runs, tagged does not: "
                       f"{type(e).__name__}: {str(e)[:300]}",
                       exc_site(e) or type(e).__name__), info
    f = check_outputs(st_, prog1, res1, ref)
    if f is not None:
        return Failure("tagged-" + f.kind, "untagged run agrees with NumPy, "
                       "tagged run does not: " + f.detail, f.where), info
    info["bit_identical"] = all(
        res0[k].tobytes() == res1[k].tobytes() for k in res0)
    # Named: the name must be that of a variable of the kernel if the node is
    # stored under it
    info["temps"] = len(knl.kernel.temporary_variables)
    return None, info


def case_oracle(case):
    with warnings.catch_warnings():
        warnings.simplefilter("ignore")
        try:
            base = baseline(case["spec"])
        except Skip as s:
            return None, {"skip": str(s)}
        return tagged_oracle(case["spec"], case["tags"], base)


def run_shard(shard: int, nshards: int, seed: int, tier: str) -> ShardResult:
    pl = plan(tier)
    res = ShardResult()
    cfg = progen.GenCfg(max_ops=pl["max_ops"], min_ops=2)

    def body(x):
        (spec, vals), data = x
        spec = gc(spec)
        res.evaluations += 1
        with warnings.catch_warnings():
            warnings.simplefilter("ignore")
            try:
                base = baseline(spec)
            except Skip as s:
                res.skip(str(s)[:70])
                return
            ref = base[1]
            nonneg = frozenset(
                i for i in index_arrays(spec)
                if ref[i] is not None and isinstance(ref[i].a, np.ndarray)
                and ref[i].a.dtype.kind in "iu" and (ref[i].a >= 0).all())
            for _ in range(pl["assignments"]):
                tags = data.draw(assignments(spec, nonneg))
                f, info = tagged_oracle(spec, tags, base)
                if info.get("rejected"):
                    res.count("assignment_rejected:" + info["rejected"])
                    continue
                res.count("tagged_variants")
                for ts in tags.values():
                    for t in ts:
                        res.count("tag:" + t[0])
                if info.get("bit_identical"):
                    res.count("bit_identical_to_untagged")
                elif f is None:
                    res.count("within_bound_not_bit_identical")
                if nontrivial(spec, tags):
                    res.nontrivial.add(spec_hash({"s": spec, "t": tags}))
                res.sample({"spec": spec, "tags": tags}, limit=2)
                if f is not None:
                    res.fail(f, {"spec": spec, "tags": tags})

    hyp_run(st.tuples(progen.programs(cfg), st.data()), body, seed,
            pl["examples"])
    for k, case in enumerate(itertools.chain(shared_buffer_gadgets(),
                                             stored_twin_gadgets())):
        if k % nshards != shard:
            continue
        res.evaluations += 1
        res.count("shared_buffer_gadget")
        with warnings.catch_warnings():
            warnings.simplefilter("ignore")
            f, info = case_oracle(case)
        if "skip" in info:
            res.skip(info["skip"][:70])
            continue
        res.nontrivial.add(spec_hash({"s": case["spec"], "t": case["tags"]}))
        if f is not None:
            res.fail(f, case)
    return res


def shared_buffer_gadgets():
    """one buffer wrapped by two DataWrapper nodes (wrappers compare by
    identity, so these are two inputs): tags on one or both of them must not
    change what is computed, however the code generator binds the buffer"""
    def data(values, shape):
        return {"op": "data", "p": {"dtype": "float64", "shape": shape,
                                    "scale": 1, "values": values, "share": 0}}
    vals = [1, -2, 3, 5, 8, -13]
    tagsets = ([["User", "u0"]], [["Axis", 0, "ax0"]], [["Axis", -1, "ax1"]],
               [["PrefixNamed", "dw"]], [["ImplStored"]],
               [["User", "u1"], ["Axis", 0, "ax0"]])
    for shape in ([6], [2, 3]):
        for body in ("add", "mul", "outer"):
            nodes = [data(vals, shape), data(vals, shape)]
            if body == "outer":
                nodes += [{"op": "mul", "args": [["n", 1], ["py", 2]]},
                          {"op": "sub", "args": [["n", 0], ["n", 2]]}]
            else:
                nodes += [{"op": "neg", "args": [["n", 1]]},
                          {"op": body, "args": [["n", 0], ["n", 2]]}]
            spec = {"nodes": nodes, "outputs": [["out0", 3], ["out1", 2]]}
            for t1 in tagsets:
                yield {"spec": spec, "tags": {"1": t1}}
                yield {"spec": spec, "tags": {"0": t1}}
            yield {"spec": spec, "tags": {"0": tagsets[0], "1": tagsets[1]}}


def stored_twin_gadgets():
    """two ImplStored arrays computed by the SAME subscript / expression from
    the same operand, but of different shapes (x[:2, :3] and x[:2, :5]; x + 1
    restricted two ways; zeros of two shapes), under both orders of the output
    names: each needs storage of its own"""
    x = {"op": "placeholder", "p": {"name": "x", "dtype": "float64",
                                    "shape": [4, 6], "scale": 0,
                                    "values": list(range(1, 25))}}
    pairs = [
        ([{"op": "index", "args": [["n", 0]], "p": {"idx": [
            ["slice", None, 2, None], ["slice", None, 3, None]]}},
          {"op": "index", "args": [["n", 0]], "p": {"idx": [
              ["slice", None, 2, None], ["slice", None, 5, None]]}}]),
        ([{"op": "index", "args": [["n", 0]], "p": {"idx": [
            ["slice", None, 3, None]]}},
          {"op": "index", "args": [["n", 0]], "p": {"idx": [
              ["slice", None, 2, None]]}}]),
        ([{"op": "zeros", "p": {"shape": [2, 3], "dtype": "float64"}},
          {"op": "zeros", "p": {"shape": [2, 5], "dtype": "float64"}}]),
    ]
    for a, b in pairs:
        for first, second in (("o1", "o2"), ("o2", "o1")):
            for ta, tb in (("ImplStored", "ImplStored"),
                           ("ImplStored", None), (None, "ImplStored")):
                nodes = [x, a, b,
                         {"op": "add", "args": [["n", 1], ["n", 1]]},
                         {"op": "add", "args": [["n", 2], ["n", 2]]}]
                tags = {}
                if ta:
                    tags["1"] = [[ta]]
                if tb:
                    tags["2"] = [[tb]]
                yield {"spec": {"nodes": nodes,
                                "outputs": [[first, 3], [second, 4]]},
                       "tags": tags}


def replay(case) -> Failure | None:
    f, _ = case_oracle(case)
    return f


def minimize(case, fj):
    key = fj["kind"] + "|" + fj.get("where", "")

    def fails(c):
        f = replay(c)
        return f is not None and f.key() == key
    cur = copy.deepcopy(case)
    # drop tags one by one
    changed = True
    budget = 60
    while changed and budget > 0:
        changed = False
        for i in list(cur["tags"]):
            for j in range(len(cur["tags"][i])):
                budget -= 1
                c = copy.deepcopy(cur)
                del c["tags"][i][j]
                if not c["tags"][i]:
                    del c["tags"][i]
                if fails(c):
                    cur = c
                    changed = True
                    break
            if changed:
                break
    f = replay(cur)
    return cur, (f.to_json() if f is not None else fj)


def _output_nodes(spec) -> set[str]:
    """indices of the nodes that are outputs, including through operations
    that return their operand as is (roll by 0, real of a real array)"""
    with warnings.catch_warnings():
        warnings.simplefilter("ignore")
        prog = build_pt(spec, with_tags=True)
    outs = list(prog.outputs.values())
    return {str(i) for i, n in enumerate(prog.nodes)
            if any(n is o for o in outs)}


def _known_named_output_twin(case, failure) -> bool:
    """the failure disappears when the Named tags of nodes that are outputs
    are removed (only those)"""
    out_idx = _output_nodes(tagged(case["spec"], case["tags"]))
    c = copy.deepcopy(case)
    hit = False
    for i in list(c["tags"]):
        if i in out_idx:
            kept = [t for t in c["tags"][i] if t[0] != "Named"]
            hit = hit or len(kept) != len(c["tags"][i])
            c["tags"][i] = kept
    if not hit:
        return False
    return replay(c) is None


def _known_subst_merge(case, failure) -> bool:
    """>= 2 ImplSubstitution arrays of different rank, and the failure
    disappears when the substitution tags become ImplInlined"""
    with warnings.catch_warnings():
        warnings.simplefilter("ignore")
        prog = build_pt(tagged(case["spec"], case["tags"]), with_tags=True)
    ranks = {getattr(prog.nodes[int(i)], "ndim", None)
             for i, ts in case["tags"].items()
             if any(t[0] == "ImplSubstitution" for t in ts)}
    if len(ranks) < 2:
        return False
    c = copy.deepcopy(case)
    for ts in c["tags"].values():
        for t in ts:
            if t[0] == "ImplSubstitution":
                t[0] = "ImplInlined"
    return replay(c) is None


def _known_named_subst_loopy_arg(case, failure) -> bool:
    spec = case["spec"]
    loopy_args = {str(a[1]) for n in spec["nodes"] if n["op"] == "call_loopy"
                  for a in n["args"] if a[0] == "n"}
    c = copy.deepcopy(case)
    hit = False
    for i in list(c["tags"]):
        ts = c["tags"][i]
        if i in loopy_args and any(t[0] == "ImplSubstitution" for t in ts):
            kept = [t for t in ts if t[0] != "Named"]
            hit = hit or len(kept) != len(ts)
            c["tags"][i] = kept
    return hit and replay(c) is None


KNOWN_PREDICATES = {"named_output_twin": _known_named_output_twin,
                    "subst_merge": _known_subst_merge,
                    "named_subst_loopy_arg": _known_named_subst_loopy_arg}
