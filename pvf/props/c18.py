"""C18 - persistent hash keys identify a computation faithfully across
processes."""
from __future__ import annotations

import dataclasses
import itertools
import json
import os
import pickle
import subprocess
import sys
import tempfile
import warnings

import numpy as np
from hypothesis import strategies as st

from pvf import reflect
from pvf.oracle import Failure, exc_site
from pvf.props.c04 import _no_data, mutate_value
from pvf.ptbuild import build_pt, spec_hash
from pvf.runner import ROOT, ShardResult, hyp_run
from pvf.zoo import zoo_programs

ID = "C18"
LEVEL = "exploration"
RULE = ("graphs over every node kind (pvf/zoo.py).  For each graph g: the "
        "PytatoKeyBuilder key of an independently rebuilt copy (fresh data "
        "wrappers with equal contents) must equal key(g); for a drawn node and"
        " EVERY dataclass field of it, and for every DataWrapper the three "
        "data variants (one element changed; same bytes viewed as another "
        "dtype; same bytes in another shape), the key of the graph with just "
        "that component changed must differ; per shard, child interpreters "
        "with other PYTHONHASHSEEDs recompute the keys of graphs rebuilt from "
        "JSON and of graphs unpickled from the parent: all must be identical."
        "  The reduction operation of every reduction swapped for each other "
        "one changes the key; three tags attached to one axis in two orders "
        "give one key (and, in the children, under every hash seed).  "
        "Layouts: a wrapper whose data is replaced by an F-ordered copy or "
        "a strided view with equal contents keeps its key; the same memory "
        "read in F order (other contents) changes it.  History: a node keyed "
        "first and tagged afterwards gets the key of an equal, never keyed "
        "node tagged alike, and its old key again once the tag is removed.  "
        "non-trivial = a component below the root was changed or the key "
        "crossed a process; distinct by (program, node, field)")
RULE += '  Round-4 addition: every dtype-valued field is also mutated to the same type in the other byte order (key must change).'
RULE += '  Round-5 addition: ~400 pairs of graphs that differ only in how a scalar is spelled (Python number / NumPy scalar of another width or kind, as axis length, shift, rank, index, constant or fill value): the keys are equal exactly when the graphs compare equal.'
ASSUMPTIONS = [
    "creation-traceback tagging at its default (off)",
    "a changed copy is made with dataclasses.replace (pvf/reflect.py:rebuild)",
    "distinct keys are required only between graphs that differ in one "
    "component (collisions between unrelated graphs are not searched for)",
]


def plan(tier: str) -> dict:
    if tier == "thorough":
        return {"shards": 16, "examples": 300, "children": 2, "mut_nodes": 4}
    return {"shards": 16, "examples": 30, "children": 1, "mut_nodes": 2}


def key_of(g) -> str:
    from pytato.analysis import PytatoKeyBuilder
    return PytatoKeyBuilder()(g)


def data_variants(arr: np.ndarray):
    """(label, ndarray) variants that must change the key"""
    out = []
    if arr.size:
        c = arr.copy()
        flat = c.reshape(-1)
        if c.dtype.kind == "b":
            flat[0] = not flat[0]
        else:
            flat[0] = flat[0] + 1
        out.append(("one-element", c))
        other = {4: (np.int32, np.float32), 8: (np.int64, np.float64),
                 16: (np.complex128, np.complex128), 1: (np.bool_, np.int8)
                 }.get(arr.dtype.itemsize)
        if other:
            tgt = other[1] if arr.dtype == np.dtype(other[0]) else other[0]
            if np.dtype(tgt) != arr.dtype:
                out.append(("same-bytes-other-dtype",
                            np.ascontiguousarray(arr).view(tgt)))
        if arr.ndim >= 1 and arr.size >= 1:
            new_shape = (1, *arr.shape) if arr.ndim < 3 else (arr.size,)
            out.append(("same-bytes-other-shape",
                        np.ascontiguousarray(arr).reshape(new_shape)))
    return out


def case_oracle(case):
    spec = case["spec"]
    picks = case.get("picks", [0.5])
    info = {"mutations": 0, "deep": 0, "data_variants": 0}
    with warnings.catch_warnings():
        warnings.simplefilter("ignore")
        import pytato as pt
        try:
            a = build_pt(spec).dict_of_named_arrays()
            b = build_pt(spec).dict_of_named_arrays()
        except Exception as e:  # noqa: BLE001
            return Failure("build-exception", f"{type(e).__name__}: {e}",
                           exc_site(e)), info
        try:
            ka = key_of(a)
            kb = key_of(b)
        except Exception as e:  # noqa: BLE001
            return Failure("key-exception", f"{type(e).__name__}: {e}",
                           exc_site(e)), info
        if ka != kb:
            return Failure("rebuilt-key-differs", "equal rebuilt graph has "
                           "another key", "rebuild"), info
        if key_of(a) != ka:
            return Failure("key-not-repeatable", "second computation differs",
                           "repeat"), info
        info["key"] = ka
        nodes = [n for n in reflect.topo_order(a)
                 if dataclasses.is_dataclass(n) or isinstance(
                     n, pt.DictOfNamedArrays)]
        root_children = {id(ch) for _, ch in reflect.children(a)}

        def changed_key(n, n2, where):
            try:
                a2 = reflect.rebuild(a, {id(n): n2}) if n is not a else n2
            except Exception:  # noqa: BLE001
                return None     # an ancestor's class refuses the value
            try:
                k2 = key_of(a2)
            except Exception as e:  # noqa: BLE001
                return Failure("key-exception", f"{where}: {type(e).__name__}:"
                               f" {e}", exc_site(e))
            if k2 == ka:
                return Failure("component-ignored-by-key",
                               f"{where} changed: key unchanged", where)
            return None

        for pick in picks:
            n = nodes[min(int(pick * len(nodes)), len(nodes) - 1)]
            kind = type(n).__name__
            for name, value in reflect.fields_of(n):
                if name == "non_equality_tags":
                    continue
                if isinstance(value, np.ndarray):
                    continue
                try:
                    new_value = mutate_value(value, name, n)
                    n2 = reflect.replace_field(n, name, new_value)
                except Exception:  # noqa: BLE001
                    continue
                info["mutations"] += 1
                if n is not a and id(n) not in root_children:
                    info["deep"] += 1
                f = changed_key(n, n2, f"{kind}.{name}")
                if f:
                    return f, info
                if isinstance(value, np.dtype) and value.itemsize > 1:
                    # the same type in the other byte order denotes other
                    # bytes (and compares unequal)
                    try:
                        n3 = reflect.replace_field(
                            n, name, value.newbyteorder("S"))
                    except Exception:  # noqa: BLE001
                        continue
                    info["mutations"] += 1
                    f = changed_key(n, n3, f"{kind}.{name}[byte order]")
                    if f:
                        return f, info
        for n in nodes:
            if isinstance(n, pt.array.DataWrapper) and isinstance(
                    n.data, np.ndarray):
                for label, data in data_variants(n.data):
                    try:
                        n2 = dataclasses.replace(n, data=data)
                    except Exception:  # noqa: BLE001
                        continue
                    info["data_variants"] += 1
                    info["deep"] += 1
                    f = changed_key(n, n2, f"DataWrapper.data[{label}]")
                    if f:
                        return f, info
        # ---- the reduction operation is part of the computation
        from pytato import reductions as red
        from pytato.scalar_expr import Reduce
        from pymbolic.mapper import IdentityMapper
        OPS = [red.SumReductionOperation, red.ProductReductionOperation,
               red.MaxReductionOperation, red.MinReductionOperation,
               red.AllReductionOperation, red.AnyReductionOperation]

        class _Swap(IdentityMapper):
            def __init__(self, new_op):
                super().__init__()
                self.new_op = new_op
                self.hit = False

            def map_reduce(self, expr):
                self.hit = True
                return Reduce(self.rec(expr.inner_expr), self.new_op(),
                              expr.bounds)
        for n in nodes:
            if isinstance(n, pt.IndexLambda) and n.var_to_reduction_descr:
                for op in OPS:
                    sw = _Swap(op)
                    try:
                        e2 = sw(n.expr)
                    except Exception:  # noqa: BLE001
                        break
                    if not sw.hit or e2 == n.expr:
                        continue
                    info["mutations"] += 1
                    f = changed_key(n, dataclasses.replace(n, expr=e2),
                                    f"IndexLambda.expr[reduction operation -> "
                                    f"{op.__name__}]")
                    if f:
                        return f, info
                break
        # ---- several tags on one axis: the key does not depend on the
        # order in which they were attached
        from pvf.usertags import PvfTag, PvfTag2
        for pick in picks:
            i = min(int(pick * len(nodes)), len(nodes) - 1)
            n = nodes[i]
            if not isinstance(n, pt.Array) or n.ndim < 1:
                continue
            try:
                t1 = n.with_tagged_axis(0, PvfTag("p")).with_tagged_axis(
                    0, PvfTag2("q")).with_tagged_axis(0, PvfTag("r"))
                t2 = n.with_tagged_axis(0, PvfTag("r")).with_tagged_axis(
                    0, PvfTag2("q")).with_tagged_axis(0, PvfTag("p"))
            except Exception:  # noqa: BLE001
                continue
            if t1 == t2:
                info["axis_tag_orders"] = info.get("axis_tag_orders", 0) + 1
                if key_of(t1) != key_of(t2):
                    return Failure("equal-graphs-other-key",
                                   f"{type(n).__name__}: three tags attached "
                                   "to axis 0 in two orders: equal arrays, "
                                   "different keys", "axis-tags"), info
        # ---- layouts: the key follows the logical contents, not the memory
        for n in nodes:
            if isinstance(n, pt.array.DataWrapper) and isinstance(
                    n.data, np.ndarray) and n.data.ndim >= 2 \
                    and n.data.size >= 2:
                arr = n.data
                same = [("F-ordered copy", np.asfortranarray(arr)),
                        ("strided view", np.repeat(arr, 2, axis=-1)[..., ::2])]
                for label, data in same:
                    assert np.array_equal(data, arr, equal_nan=True)
                    a2 = reflect.rebuild(a, {id(n): dataclasses.replace(
                        n, data=data)})
                    info["data_variants"] += 1
                    if key_of(a2) != ka:
                        return Failure("equal-data-other-key",
                                       f"DataWrapper.data as {label} (equal "
                                       "contents, another memory layout): key "
                                       "differs", "layout"), info
                y = np.reshape(np.ascontiguousarray(arr).ravel(), arr.shape,
                               order="F")
                if not np.array_equal(y, arr, equal_nan=True):
                    info["data_variants"] += 1
                    f = changed_key(n, dataclasses.replace(n, data=y),
                                    "DataWrapper.data[same-memory-F-order]")
                    if f:
                        return f, info
        # ---- history: a key computed before a node is re-tagged must not
        # stick to the re-tagged node
        from pvf.usertags import PvfTag
        nodes_b = [n for n in reflect.topo_order(b)
                   if dataclasses.is_dataclass(n) or isinstance(
                       n, pt.DictOfNamedArrays)]
        for pick in picks:
            i = min(int(pick * len(nodes)), len(nodes) - 1)
            n = nodes[i]
            if not isinstance(n, pt.Array) or len(nodes_b) != len(nodes) \
                    or isinstance(n, pt.array.DataWrapper):
                continue
            m = nodes_b[i]
            if m is n or m != n:
                continue
            try:
                fresh = m.tagged(PvfTag("hist"))      # never keyed before
            except Exception:  # noqa: BLE001
                continue          # (a class that documents it is not taggable)
            try:
                k_n = key_of(n)                       # keyed first ...
                t = n.tagged(PvfTag("hist"))          # ... then tagged
                k_t, k_fresh = key_of(t), key_of(fresh)
                k_back = key_of(t.without_tags(PvfTag("hist")))
            except Exception as e:  # noqa: BLE001
                return Failure("key-exception", f"history: {type(e).__name__}:"
                               f" {e}", exc_site(e)), info
            info["history"] = info.get("history", 0) + 1
            if k_t == k_n:
                return Failure("stale-key-after-tagging",
                               f"{type(n).__name__}: key computed, node tagged:"
                               " the tagged node has the old key", "tagged"
                               ), info
            if k_t != k_fresh:
                return Failure("key-depends-on-history",
                               f"{type(n).__name__}: tagging a node whose key "
                               "was computed before gives another key than "
                               "tagging an equal, never keyed node",
                               "tagged"), info
            if k_back != k_n:
                return Failure("key-depends-on-history",
                               f"{type(n).__name__}: tag added and removed: "
                               "key differs from the original's", "untagged"
                               ), info
        # a TAGGED dictionary of results: its key survives pickling and is
        # not the untagged dictionary's
        try:
            from pvf.usertags import PvfTag
            nd = build_pt(_no_data(spec)).dict_of_named_arrays()
            nd_t = pt.make_dict_of_named_arrays(dict(nd._data),
                                                tags=frozenset({PvfTag("d")}))
            k_plain, k_tagged = key_of(nd), key_of(nd_t)
            k_round = key_of(pickle.loads(pickle.dumps(nd_t)))
        except Exception as e:  # noqa: BLE001
            return Failure("pickle-exception", f"tagged dictionary: "
                           f"{type(e).__name__}: {e}", exc_site(e)), info
        if k_tagged == k_plain:
            return Failure("component-ignored-by-key", "DictOfNamedArrays.tags "
                           "changed: key unchanged", "DictOfNamedArrays.tags"
                           ), info
        if k_round != k_tagged:
            return Failure("key-differs-after-pickling", "a tagged "
                           "DictOfNamedArrays has another key after a pickle "
                           "round trip (same process)", "pickle-tagged-dict"
                           ), info
        try:
            info["blob"] = pickle.dumps(build_pt(
                _no_data(spec)).dict_of_named_arrays())
        except Exception as e:  # noqa: BLE001
            return Failure("pickle-exception", f"{type(e).__name__}: {e}",
                           exc_site(e)), info
    return None, info


CHILD = r"""
import sys, json, pickle, warnings
warnings.filterwarnings("ignore")
sys.path.insert(0, sys.argv[1])
from pvf.ptbuild import build_pt
from pytato.analysis import PytatoKeyBuilder
import pytato as pt
out = []
with open(sys.argv[2], "rb") as f:
    items = pickle.load(f)
# perturb the allocation history
junk = [pt.make_placeholder(f"j{i}", (i + 1,), float) + i for i in range(50)]
for spec_json, nd_json, blob in items:
    try:
        k1 = PytatoKeyBuilder()(build_pt(json.loads(spec_json))
                                .dict_of_named_arrays())
        k2 = PytatoKeyBuilder()(pickle.loads(blob))
        k3 = PytatoKeyBuilder()(build_pt(json.loads(nd_json))
                                .dict_of_named_arrays())
        out.append([k1, k2, k3])
    except Exception as e:
        out.append(["EXC", f"{type(e).__name__}: {e}", ""])
print("PVF-CHILD " + json.dumps(out))
"""


def run_children(items, hashseeds):
    if not items:
        return []
    d = tempfile.mkdtemp(prefix="pvf-c18-")
    res = []
    try:
        path = os.path.join(d, "items.pkl")
        with open(path, "wb") as f:
            pickle.dump(items, f)
        script = os.path.join(d, "child.py")
        with open(script, "w") as f:
            f.write(CHILD)
        for hs in hashseeds:
            env = dict(os.environ)
            env["PYTHONHASHSEED"] = str(hs)
            env["PYTHONPATH"] = ROOT + os.pathsep + os.environ.get("PYTHONPATH", "")
            p = subprocess.run([sys.executable, script, ROOT, path], env=env,
                               capture_output=True, text=True)
            line = [ln for ln in p.stdout.splitlines()
                    if ln.startswith("PVF-CHILD ")]
            if p.returncode != 0 or not line:
                raise RuntimeError("child interpreter failed:\n"
                                   + p.stderr[-2000:])
            res.append((hs, json.loads(line[0][len("PVF-CHILD "):])))
    finally:
        import shutil
        shutil.rmtree(d, ignore_errors=True)
    return res


@st.composite
def cases(draw):
    spec = draw(zoo_programs())
    # several tags (with string fields) on one axis of some operation nodes:
    # their order of iteration depends on the hash seed, the key must not
    ops = [n for n in spec["nodes"] if n["op"] not in (
        "placeholder", "data", "sizeparam", "recv", "sendhold", "call_loopy",
        "item", "fncall")]
    for n in ops:
        if draw(st.integers(0, 2)) == 0:
            n.setdefault("tags", []).extend(
                [["Axis", 0, "alpha"], ["Axis", 0, "beta"],
                 ["Axis", 0, "gamma"]])
    n = draw(st.integers(1, 4))
    picks = [draw(st.integers(0, 999)) / 1000.0 for _ in range(n)]
    return {"spec": spec, "picks": picks}


def _xproc_failures(items, keys, child_results):
    fails = []
    for (hs, out) in child_results:
        for (spec_json, nd_json, blob), parent_key, ks in zip(items, keys, out):
            spec = json.loads(spec_json)
            case = {"spec": spec, "picks": [], "cross_process": True}
            if ks[0] == "EXC":
                fails.append((Failure("child-key-exception",
                                      f"PYTHONHASHSEED={hs}: {ks[1]}",
                                      "child"), case))
                continue
            k1, k2, k3 = ks
            if k1 != parent_key:
                fails.append((Failure(
                    "key-differs-across-processes",
                    f"PYTHONHASHSEED={hs}: key of the rebuilt graph differs "
                    f"from the parent's", "rebuild"), case))
            elif k2 != k3:
                fails.append((Failure(
                    "key-differs-after-pickling",
                    f"PYTHONHASHSEED={hs}: key of the unpickled graph differs"
                    f" from the key of the same graph rebuilt", "pickle"),
                    case))
    return fails


def run_shard(shard: int, nshards: int, seed: int, tier: str) -> ShardResult:
    pl = plan(tier)
    res = ShardResult()
    items = []
    keys = []

    def body(case):
        case["picks"] = case["picks"][:pl["mut_nodes"]]
        f, info = case_oracle(case)
        res.evaluations += 1
        res.count("field_mutations", info["mutations"])
        res.count("data_variants", info["data_variants"])
        if info["deep"]:
            res.nontrivial.add(spec_hash(case))
        res.sample(case, limit=2)
        if f is not None:
            res.fail(f, case)
        elif "blob" in info and len(items) < 40:
            items.append((json.dumps(case["spec"]),
                          json.dumps(_no_data(case["spec"])), info["blob"]))
            keys.append(info["key"])

    hyp_run(cases(), body, seed, pl["examples"])
    for k, (label, ta, tb) in enumerate(scalar_pairs()):
        if k % nshards != shard:
            continue
        res.evaluations += 1
        res.count("scalar_spelling_pairs")
        f = scalar_pair_oracle(label, ta, tb)
        res.nontrivial.add("pair:" + label)
        if f is not None:
            res.fail(f, {"scalar_pair": label})
    hs = [(seed * 11 + shard * 5 + k) % 1000 + 1 for k in range(pl["children"])]
    out = run_children(items, hs)
    res.count("cross_process_keys", 3 * len(items) * len(hs))
    for spec_json, _, _ in items:
        res.nontrivial.add("xproc:" + spec_hash(json.loads(spec_json)))
        res.evaluations += 1          # (the cross-process comparison)
    for f, case in _xproc_failures(items, keys, out):
        res.fail(f, case)
    return res


def scalar_pairs():
    """(label, thunk_a, thunk_b): graphs that differ only in how a scalar is
    spelled - as a Python number or as a NumPy scalar of some width/kind.
    Whatever == says about the pair, the keys must say the same."""
    import pytato as pt
    f8 = np.float64

    def x():
        return pt.make_placeholder("x", (4,), f8)
    ints = [4, np.int8(4), np.int32(4), np.int64(4), np.uint16(4), np.intp(4)]
    for a, b in itertools.combinations(ints, 2):
        la = f"{type(a).__name__}/{type(b).__name__}"
        yield ("placeholder-shape:" + la,
               lambda a=a: pt.make_placeholder("p", (a, 3), f8),
               lambda b=b: pt.make_placeholder("p", (b, 3), f8))
        yield ("zeros-shape:" + la, lambda a=a: pt.zeros((a,), f8),
               lambda b=b: pt.zeros((b,), f8))
        yield ("roll-shift:" + la, lambda a=a: pt.roll(x(), a),
               lambda b=b: pt.roll(x(), b))
        yield ("recv-rank:" + la,
               lambda a=a: pt.make_distributed_recv(a, 7, (3,), f8),
               lambda b=b: pt.make_distributed_recv(b, 7, (3,), f8))
        yield ("index:" + la, lambda a=a: pt.make_placeholder(
            "q", (9,), f8)[a], lambda b=b: pt.make_placeholder(
                "q", (9,), f8)[b])
    # classes of one name that live in different modules (tags are often
    # classes): unequal, so the graphs differ
    c1 = type("HaloExchange", (), {"__module__": "pvf_fluid"})
    c2 = type("HaloExchange", (), {"__module__": "pvf_wall"})
    yield ("class-tag:recv", lambda: pt.make_distributed_recv(0, c1, (3,), f8),
           lambda: pt.make_distributed_recv(0, c2, (3,), f8))
    yield ("class-tag:recv-tuple",
           lambda: pt.make_distributed_recv(0, (c1, 0), (3,), f8),
           lambda: pt.make_distributed_recv(0, (c2, 0), (3,), f8))
    yield ("class-tag:send", lambda: pt.staple_distributed_send(
        x(), dest_rank=1, comm_tag=c1, stapled_to=x() + 1),
        lambda: pt.staple_distributed_send(
            x(), dest_rank=1, comm_tag=c2, stapled_to=x() + 1))
    consts = [1, 1.0, True, np.int32(1), np.int64(1), np.float32(1),
              np.float32(1e-45), np.float64(1), np.bool_(True), np.uint8(1),
              np.int32(0), np.float32(0), 0, np.complex64(1), np.float16(1),
              np.int16(15360), np.int32(1065353216)]
    for a, b in itertools.combinations(consts, 2):
        la = f"{type(a).__name__}({a!r})/{type(b).__name__}({b!r})"
        yield ("add-const:" + la, lambda a=a: x() + a, lambda b=b: x() + b)
        yield ("full:" + la, lambda a=a: pt.full((2,), a, f8),
               lambda b=b: pt.full((2,), b, f8))


def scalar_pair_oracle(label, ta, tb) -> Failure | None:
    with warnings.catch_warnings():
        warnings.simplefilter("ignore")
        try:
            a, b = ta(), tb()
        except Exception:  # noqa: BLE001
            return None         # (pytato refuses the spelling)
        try:
            ka, kb = key_of(a), key_of(b)
        except Exception as e:  # noqa: BLE001
            return Failure("key-exception", f"{label}: {type(e).__name__}: {e}",
                           exc_site(e))
        eq = bool(a == b)
    where = label.split(":")[0]
    if eq and ka != kb:
        return Failure("equal-graphs-different-keys", f"{label}: the graphs "
                       "compare equal, their keys differ", where)
    if not eq and ka == kb:
        return Failure("different-graphs-same-key", f"{label}: the graphs "
                       "compare unequal, their keys are the same", where)
    return None


def _kind_of_spelling(tname: str) -> str:
    t = tname.lower()
    if t.startswith("bool"):
        return "b"
    if t.startswith(("int", "uint", "long")):
        return "i"
    if t.startswith("float") or t in ("half", "double", "single"):
        return "f"
    if t.startswith("complex"):
        return "c"
    return "?"


def _known_cross_kind_scalars(case, failure) -> bool:
    """the two spellings are numbers of different KINDS (bool / integer /
    floating / complex) that compare equal (1 == 1.0 == True)"""
    import re as _re
    label = case.get("scalar_pair", "") if isinstance(case, dict) else ""
    m = _re.match(r"^[\w-]+:(\w+)\(.*\)/(\w+)\(.*\)$", label)
    if not m:
        return False
    ka, kb = _kind_of_spelling(m.group(1)), _kind_of_spelling(m.group(2))
    return "?" not in (ka, kb) and ka != kb


KNOWN_PREDICATES = {"cross_kind_scalars": _known_cross_kind_scalars}


def replay(case) -> Failure | None:
    if "scalar_pair" in case:
        for label, ta, tb in scalar_pairs():
            if label == case["scalar_pair"]:
                return scalar_pair_oracle(label, ta, tb)
        return None
    f, info = case_oracle(case)
    if f is None and case.get("cross_process") and "blob" in info:
        items = [(json.dumps(case["spec"]), json.dumps(_no_data(case["spec"])),
                  info["blob"])]
        out = run_children(items, [1, 2, 3])
        fails = _xproc_failures(items, [info["key"]], out)
        if fails:
            return fails[0][0]
    return f
