"""C09 - every distributed partition is well-formed and all ranks agree on
it."""
from __future__ import annotations

import json
import os
import subprocess
import sys
import tempfile
import warnings

from pvf import distgen, distsim, reflect
from pvf.oracle import Failure, exc_site
from pvf.props import c08
from pvf.runner import HarnessError, ShardResult, hyp_run

ID = "C09"
LEVEL = "exploration"
RULE = (
    "the multi-rank programs of C08 (pvf/distgen.py; communication tags drawn "
    "from ints, strings, nested tuples, frozensets, frozen dataclasses and "
    "bare classes, the same tag reused on different rank pairs).  On every "
    "rank the partition returned by find_distributed_partition is checked "
    "with plain Python over the fields of DistributedGraphPartition/"
    "DistributedGraphPart and a reflective walk of the expressions (no pytato "
    "mapper): pids consistent and needed_pids acyclic; every name in "
    "name_to_output belongs to exactly one part, overall outputs = the "
    "program's outputs; sent names are outputs of the sending part; received "
    "names are outputs of no part and received once; the placeholders an "
    "expression really contains are declared inputs, user inputs are the "
    "program's placeholders, every partition input is received by this or an "
    "earlier part or output by a strictly earlier part; no DistributedRecv/"
    "Send/SendRefHolder below any name_to_output expression or send payload; "
    "the sends and receives of the parts are exactly those of the program, "
    "once each; across ranks the relation 'received in a part at or before "
    "the part that sends' is acyclic (a consistent global order of "
    "communication rounds exists) and its depth is compared with the depth of "
    "the program's message dependency graph; verify_distributed_partition "
    "(run separately) accepts; number_distributed_tags: every symbolic tag "
    "maps to one Python int on all ranks and both ends, distinct tags between "
    "one rank pair to distinct ints in [base_tag, next_tag), next_tag equal "
    "everywhere, nothing else changed.  Hash seeds: whole simulations are "
    "re-run in child interpreters with different PYTHONHASHSEED and every "
    "rank's summary (parts, names, expression digests, integer tags) must be "
    "identical (thorough: every case, 3 seeds; quick: a sample, 2 seeds).  "
    "non-trivial = >= 2 ranks, >= 2 messages and >= 2 parts on some rank; "
    "distinct by program JSON")
RULE += '  Round-4 addition: for the first cases of every shard (quick 4, thorough 40) and a corpus case with string tags, every rank is run as an interpreter OF ITS OWN with its own PYTHONHASHSEED (collectives through pickles in files, pvf.props.c09.FileComm): find/verify/number must succeed and give the parts, names and tag numbers of the one-interpreter simulation.'
ASSUMPTIONS = [
    "each rank's graph is deduplicated first (see C08)",
    "simulated MPI collectives pickle/unpickle their arguments and reduce in "
    "rank order (pvf/shim)",
    "'earlier part' is read as: reachable through needed_pids",
    "the agreement of ranks with *different* hash seeds in one run is "
    "inferred from every rank's result being identical across whole runs "
    "with different seeds (pytato's own test_deterministic_partitioning makes "
    "the same demand)",
    "the count of communication rounds is compared with the message "
    "dependency depth only as a measured class (the partitioning algorithm "
    "is documented as non-binding)",
]

HASH_SEEDS = (0, 1, 987654321)


def plan(tier: str) -> dict:
    if tier == "thorough":
        return {"shards": 16, "examples": 1500, "seed_cases": 10 ** 9,
                "hash_seeds": HASH_SEEDS, "rank_process_cases": 40}
    return {"shards": 16, "examples": 150, "seed_cases": 16,
            "hash_seeds": HASH_SEEDS[:2], "rank_process_cases": 4}


# {{{ well-formedness of one rank's partition

def _comm_types():
    from pytato.distributed.nodes import (
        DistributedRecv,
        DistributedSend,
        DistributedSendRefHolder,
    )
    return (DistributedRecv, DistributedSend, DistributedSendRefHolder)


def _closure(parts) -> dict | None:
    """pid -> set of pids that must run before it; None if cyclic."""
    before: dict = {}
    state: dict = {}

    def rec(pid):
        if state.get(pid) == 2:
            return before[pid]
        if state.get(pid) == 1:
            raise ValueError("cycle")
        state[pid] = 1
        acc = set()
        for q in parts[pid].needed_pids:
            acc.add(q)
            acc |= rec(q)
        state[pid] = 2
        before[pid] = acc
        return acc
    try:
        for pid in parts:
            rec(pid)
    except ValueError:
        return None
    return before


def check_rank(b, partition) -> list[Failure]:
    """The per-rank predicates.  Every violated predicate yields a Failure."""
    from pytato.array import Placeholder
    fails: list[Failure] = []
    r = b.rank
    parts = partition.parts
    comm_t = _comm_types()

    def bad(kind, detail, where):
        fails.append(Failure(kind, f"rank {r}: {detail}", where))

    for pid, p in parts.items():
        if p.pid != pid:
            bad("pid-mismatch", f"parts[{pid!r}].pid == {p.pid!r}", "pid")
        for q in p.needed_pids:
            if q not in parts:
                bad("needed-pid-unknown", f"part {pid!r} needs {q!r}",
                    "needed_pids")
    if any(q not in parts for p in parts.values() for q in p.needed_pids):
        return fails
    before = _closure(parts)
    if before is None:
        bad("part-order-cyclic", "needed_pids contains a cycle", "needed_pids")
        return fails

    # -- producers
    producer: dict[str, list] = {}
    for pid, p in parts.items():
        for nm in p.output_names:
            producer.setdefault(nm, []).append(pid)
    for nm, pids in sorted(producer.items()):
        if len(pids) != 1:
            bad("name-produced-twice", f"'{nm}' is an output of parts {pids}",
                "output_names")
        if nm not in partition.name_to_output:
            bad("output-without-expression", f"'{nm}' not in name_to_output",
                "name_to_output")
    for nm in partition.name_to_output:
        if nm not in producer:
            bad("expression-without-part", f"'{nm}' in name_to_output but in "
                "no part's output_names", "name_to_output")
    want = list(b.outputs._data.keys())
    if sorted(partition.overall_output_names) != sorted(want):
        bad("overall-outputs", f"overall_output_names "
            f"{list(partition.overall_output_names)} != program outputs {want}",
            "overall_output_names")
    for nm in partition.overall_output_names:
        if len(producer.get(nm, [])) != 1:
            bad("overall-output-producer", f"overall output '{nm}' produced by "
                f"parts {producer.get(nm, [])}", "overall_output_names")

    # -- sends / receives
    receiver: dict[str, list] = {}
    for pid, p in parts.items():
        for nm in p.name_to_recv_node:
            receiver.setdefault(nm, []).append(pid)
        for nm in p.name_to_send_nodes:
            if nm not in p.output_names:
                bad("sent-name-not-output", f"part {pid!r} sends '{nm}' which "
                    f"is not among its outputs {sorted(p.output_names)}",
                    "name_to_send_nodes")
    for nm, pids in sorted(receiver.items()):
        if len(pids) != 1:
            bad("name-received-twice", f"'{nm}' received by parts {pids}",
                "name_to_recv_node")
        if nm in producer:
            bad("recv-name-is-output", f"received name '{nm}' (part "
                f"{pids[0]!r}) is also an output of part {producer[nm][0]!r}",
                "name_to_recv_node")

    # -- what parts read
    user_ph = {n.name for n in reflect.walk(b.outputs).values()
               if isinstance(n, Placeholder)}
    for pid, p in parts.items():
        declared = set(p.user_input_names) | set(p.partition_input_names)
        exprs = [partition.name_to_output[nm] for nm in sorted(p.output_names)
                 if nm in partition.name_to_output]
        nodes = reflect.walk(exprs).values() if exprs else []
        actual = {n.name for n in nodes if isinstance(n, Placeholder)}
        if not actual <= declared:
            bad("undeclared-read", f"part {pid!r} expressions read "
                f"{sorted(actual - declared)} not among its declared inputs",
                "all_input_names")
        if not set(p.user_input_names) <= user_ph:
            bad("user-input-unknown", f"part {pid!r} lists user inputs "
                f"{sorted(set(p.user_input_names) - user_ph)} that are not "
                "placeholders of the program", "user_input_names")
        earlier = before[pid]
        for nm in sorted(p.partition_input_names):
            ok_recv = any(q == pid or q in earlier for q in receiver.get(nm, []))
            ok_out = any(q in earlier for q in producer.get(nm, []))
            if not (ok_recv or ok_out):
                why = "its own output" if pid in producer.get(nm, []) else (
                    "defined only by later/unrelated parts"
                    if nm in producer or nm in receiver else "defined nowhere")
                bad("input-not-available", f"part {pid!r} reads '{nm}': {why}",
                    "partition_input_names")
        for n in nodes:
            if isinstance(n, comm_t):
                bad("comm-node-in-part", f"part {pid!r}: {type(n).__name__} "
                    "reachable from a name_to_output expression",
                    "name_to_output")
                break
        for nm, sends in p.name_to_send_nodes.items():
            for s in sends:
                if any(isinstance(n, comm_t[0:1] + comm_t[2:3])
                       for n in reflect.walk(s.data).values()):
                    bad("comm-node-in-part", f"part {pid!r}: payload "
                        f"expression of the send of '{nm}' contains a "
                        "communication node", "send.data")

    # -- the program's communication, once each
    sends0, recvs0, _ = distsim.comm_nodes(b)
    want_s = sorted((s.dest_rank, distsim.tag_text(s.comm_tag)) for s in sends0)
    want_r = sorted((q.src_rank, distsim.tag_text(q.comm_tag)) for q in recvs0)
    got_s = sorted((s.dest_rank, distsim.tag_text(s.comm_tag))
                   for p in parts.values()
                   for ss in p.name_to_send_nodes.values() for s in ss)
    got_r = sorted((q.src_rank, distsim.tag_text(q.comm_tag))
                   for p in parts.values()
                   for q in p.name_to_recv_node.values())
    if got_s != want_s:
        bad("sends-differ", f"parts send {got_s}, program sends {want_s}",
            "name_to_send_nodes")
    if got_r != want_r:
        bad("recvs-differ", f"parts receive {got_r}, program receives {want_r}",
            "name_to_recv_node")
    return fails

# }}}


# {{{ cross-rank: rounds, numbering

def check_rounds(builds, partitions, case, info) -> list[Failure]:
    """'m1 is received in a part at or before the part that sends m2' must be
    acyclic over all ranks (otherwise no order of rounds exists that every
    rank can follow)."""
    fails: list[Failure] = []
    edges: dict[tuple, set[tuple]] = {}
    for b, partition in zip(builds, partitions):
        r = b.rank
        before = _closure(partition.parts)
        if before is None:
            return fails
        for pid, p in partition.parts.items():
            for ss in p.name_to_send_nodes.values():
                for s in ss:
                    m2 = (r, s.dest_rank, distsim.tag_text(s.comm_tag))
                    edges.setdefault(m2, set())
                    for qid, q in partition.parts.items():
                        if qid == pid or qid in before[pid]:
                            for rv in q.name_to_recv_node.values():
                                edges[m2].add((rv.src_rank, r,
                                               distsim.tag_text(rv.comm_tag)))
    level: dict[tuple, int] = {}
    state: dict[tuple, int] = {}

    def rec(m):
        if state.get(m) == 2:
            return level[m]
        if state.get(m) == 1:
            raise ValueError(m)
        state[m] = 1
        lv = 1 + max([rec(d) for d in edges.get(m, ())] or [-1])
        state[m] = 2
        level[m] = lv
        return lv
    try:
        for m in list(edges):
            rec(m)
    except ValueError as e:
        fails.append(Failure(
            "rounds-inconsistent", "the parts of different ranks order the "
            f"messages cyclically (through {e.args[0]}): some rank must send "
            "before it can have received", "parts"))
        return fails
    depth = (max(level.values()) + 1) if level else 0
    info["rounds_parts"] = depth
    return fails


def check_numbering(builds, partitions, numbered, next_tags, base_tag
                    ) -> list[Failure]:
    fails: list[Failure] = []

    def bad(kind, detail):
        fails.append(Failure(kind, detail, "number_distributed_tags"))

    if len(set(next_tags)) != 1:
        bad("next-tag-differs", f"next_tag per rank: {next_tags}")
    sym2int: dict[str, set[int]] = {}
    per_pair: dict[tuple, dict[int, set[str]]] = {}
    ends: dict[tuple, dict[str, int]] = {}
    for b, p0, p1 in zip(builds, partitions, numbered):
        r = b.rank
        if set(p0.parts) != set(p1.parts):
            bad("numbering-changed-parts", f"rank {r}: part ids changed")
            continue
        if p1.name_to_output is not p0.name_to_output and dict(
                p1.name_to_output) != dict(p0.name_to_output):
            bad("numbering-changed-exprs", f"rank {r}: name_to_output changed")
        if list(p1.overall_output_names) != list(p0.overall_output_names):
            bad("numbering-changed-outputs", f"rank {r}")
        for pid in p0.parts:
            a, c = p0.parts[pid], p1.parts[pid]
            for fld in ("pid", "needed_pids", "user_input_names",
                        "partition_input_names", "output_names"):
                if getattr(a, fld) != getattr(c, fld):
                    bad("numbering-changed-part", f"rank {r} part {pid!r}: "
                        f"{fld} changed")
            if sorted(a.name_to_recv_node) != sorted(c.name_to_recv_node) or \
                    sorted(a.name_to_send_nodes) != sorted(c.name_to_send_nodes):
                bad("numbering-changed-names", f"rank {r} part {pid!r}")
                continue
            items = []
            for nm, q in a.name_to_recv_node.items():
                q1 = c.name_to_recv_node[nm]
                if (q1.src_rank, tuple(q1.shape), q1.dtype) != (
                        q.src_rank, tuple(q.shape), q.dtype):
                    bad("numbering-changed-recv", f"rank {r} '{nm}'")
                items.append(((q.src_rank, r), q.comm_tag, q1.comm_tag, "recv"))
            for nm, ss in a.name_to_send_nodes.items():
                ss1 = c.name_to_send_nodes[nm]
                if len(ss) != len(ss1):
                    bad("numbering-changed-sends", f"rank {r} '{nm}'")
                    continue
                for s, s1 in zip(ss, ss1):
                    if s1.dest_rank != s.dest_rank or s1.data is not s.data:
                        bad("numbering-changed-send", f"rank {r} '{nm}'")
                    items.append(((r, s.dest_rank), s.comm_tag, s1.comm_tag,
                                  "send"))
            for pair, sym, num, end in items:
                if type(num) is not int:
                    bad("tag-not-int", f"rank {r}: {sym!r} -> {num!r} "
                        f"({type(num).__name__})")
                    continue
                if not (base_tag <= num < next_tags[r]):
                    bad("tag-out-of-range", f"rank {r}: {sym!r} -> {num}, "
                        f"range [{base_tag}, {next_tags[r]})")
                t = distsim.tag_text(sym)
                sym2int.setdefault(t, set()).add(num)
                per_pair.setdefault(pair, {}).setdefault(num, set()).add(t)
                ends.setdefault((pair, t), {})[end] = num
    for t, nums in sorted(sym2int.items()):
        if len(nums) != 1:
            bad("tag-numbered-inconsistently", f"symbolic tag {t} -> "
                f"{sorted(nums)} on different ranks/ends")
    for (pair, t), d in sorted(ends.items()):
        if len(d) == 2 and d["send"] != d["recv"]:
            bad("ends-disagree", f"message {pair} tag {t}: sender uses "
                f"{d['send']}, receiver {d['recv']}")
    for pair, d in sorted(per_pair.items()):
        for num, syms in d.items():
            if len(syms) > 1:
                bad("tags-collide", f"messages {sorted(syms)} between ranks "
                    f"{pair} share the integer tag {num}")
    return fails

# }}}


def case_oracle(case):
    """-> (list[Failure], info)"""
    info: dict = {}
    fails: list[Failure] = []
    distsim.install()
    with warnings.catch_warnings():
        warnings.simplefilter("ignore")
        try:
            builds = distgen.build_case(case)
        except Exception as e:  # noqa: BLE001
            return [Failure("build-exception", f"{type(e).__name__}: {e}",
                            exc_site(e))], info
        cl = distsim.classify(builds)
        if not cl["valid"]:
            raise HarnessError("generator produced an ill-formed program: "
                               f"{cl['reasons']}")
        po = distsim.partition_all(builds, do_verify=False,
                                   base_tag=distsim.BASE_TAG)
        f = c08.partition_failure(po)
        if f is not None:
            return [f], info
        partitions = [r.partition for r in po.ranks]
        numbered = [r.numbered for r in po.ranks]
        info["parts"] = [len(p.parts) for p in partitions]
        for b, p in zip(builds, partitions):
            fails += check_rank(b, p)
        fails += check_rounds(builds, partitions, case, info)
        fails += check_numbering(builds, partitions, numbered,
                                 [r.next_tag for r in po.ranks],
                                 distsim.BASE_TAG)
        vs = distsim.verify_all(partitions)
        if vs.deadlock is not None:
            fails.append(Failure("verify-deadlock",
                                 json.dumps(vs.deadlock, default=str)[:400],
                                 "verify_distributed_partition"))
        else:
            r, e = c08._first_real_exc(vs)
            if e is not None:
                tb = (vs.tracebacks[r] or "").strip().splitlines()
                fails.append(Failure(
                    "verify-rejects", f"rank {r}: {type(e).__name__}: "
                    f"{str(e)[:200]} [{tb[-2].strip() if len(tb) > 1 else ''}]",
                    f"verify|{type(e).__name__}"))
        info["summary"] = [distsim.partition_summary(p, q)
                           for p, q in zip(partitions, numbered)]
        info["next_tag"] = po.ranks[0].next_tag
    return fails, info


# {{{ hash seeds: whole simulations in child interpreters

def summarize_case(case):
    """what a child reports for one case (JSON-able)."""
    distsim.install()
    with warnings.catch_warnings():
        warnings.simplefilter("ignore")
        builds = distgen.build_case(case)
        po = distsim.partition_all(builds, do_verify=True)
        if not po.all_done():
            return {"error": [f"{st.stage}:{type(e).__name__}"
                              if e is not None else None
                              for st, e in zip(po.ranks, po.excs)]}
        return {"ranks": [distsim.partition_summary(r.partition, r.numbered)
                          for r in po.ranks],
                "next_tag": [r.next_tag for r in po.ranks]}


def _child_main(path_in: str, path_out: str) -> int:
    with open(path_in) as f:
        cases = json.load(f)
    out = []
    for c in cases:
        try:
            out.append(summarize_case(c))
        except Exception as e:  # noqa: BLE001
            out.append({"crash": f"{type(e).__name__}: {str(e)[:200]}"})
    with open(path_out, "w") as f:
        json.dump(out, f, sort_keys=True)
    return 0


def run_children(cases: list, hash_seeds) -> dict[int, list]:
    d = tempfile.mkdtemp(prefix="pvf-c09-")
    try:
        pin = os.path.join(d, "cases.json")
        with open(pin, "w") as f:
            json.dump(cases, f)
        procs = []
        for hs in hash_seeds:
            pout = os.path.join(d, f"out{hs}.json")
            env = dict(os.environ)
            env["PYTHONHASHSEED"] = str(hs)
            root = os.path.dirname(os.path.dirname(os.path.dirname(
                os.path.abspath(__file__))))
            env["PYTHONPATH"] = root + os.pathsep + env.get("PYTHONPATH", "")
            procs.append((hs, pout, subprocess.Popen(
                [sys.executable, "-m", "pvf.props.c09", "--child", pin, pout],
                env=env, stdout=subprocess.PIPE, stderr=subprocess.PIPE)))
        res = {}
        for hs, pout, p in procs:
            _, err = p.communicate()
            if p.returncode != 0:
                raise HarnessError(f"C09 child (PYTHONHASHSEED={hs}) failed: "
                                   f"{err.decode()[-600:]}")
            with open(pout) as f:
                res[hs] = json.load(f)
        return res
    finally:
        import shutil
        shutil.rmtree(d, ignore_errors=True)


def compare_children(cases, res: dict[int, list]) -> list[tuple[Failure, dict]]:
    out = []
    seeds = sorted(res)
    for i, case in enumerate(cases):
        ref = res[seeds[0]][i]
        for hs in seeds[1:]:
            cur = res[hs][i]
            if cur != ref:
                what = "different results"
                if "ranks" in ref and "ranks" in cur:
                    for r, (a, c) in enumerate(zip(ref["ranks"], cur["ranks"])):
                        if a != c:
                            what = (f"rank {r}: " + _first_diff(a, c))
                            break
                out.append((Failure(
                    "hash-seed-dependence",
                    f"PYTHONHASHSEED={seeds[0]} vs {hs}: {what}",
                    "find_distributed_partition"), case))
                break
    return out


def _first_diff(a, c, path="") -> str:
    if isinstance(a, dict) and isinstance(c, dict):
        for k in sorted(set(a) | set(c)):
            if a.get(k) != c.get(k):
                return _first_diff(a.get(k), c.get(k), f"{path}/{k}")
    if isinstance(a, list) and isinstance(c, list) and len(a) == len(c):
        for k, (x, y) in enumerate(zip(a, c)):
            if x != y:
                return _first_diff(x, y, f"{path}[{k}]")
    return f"{path}: {str(a)[:80]} != {str(c)[:80]}"

# }}}


# {{{ one interpreter per rank (each with its own PYTHONHASHSEED)

class PeerAborted(Exception):
    pass


class FileComm:
    """The communicator of ONE rank living in its own interpreter: the
    pickle-based collectives the partitioner uses (allreduce with a user
    operation, bcast, gather, barrier), carried out through files in a
    directory the ranks share.  What a rank receives has been pickled by an
    interpreter with another hash seed - as under a real MPI launch."""

    def __init__(self, d: str, rank: int, size: int, timeout: float = 240.0):
        self.d, self._rank, self._size = d, rank, size
        self.k = 0
        self.timeout = timeout

    rank = property(lambda self: self._rank)
    size = property(lambda self: self._size)

    def Get_rank(self):
        return self._rank

    def Get_size(self):
        return self._size

    def _exchange(self, obj):
        import pickle
        import time
        k = self.k
        self.k += 1
        mine = os.path.join(self.d, f"c{k}.r{self._rank}")
        with open(mine + ".tmp", "wb") as f:
            pickle.dump(obj, f)
        os.rename(mine + ".tmp", mine)
        t0 = time.monotonic()
        paths = [os.path.join(self.d, f"c{k}.r{j}") for j in range(self._size)]
        while not all(os.path.exists(p) for p in paths):
            if os.path.exists(os.path.join(self.d, "abort")):
                raise PeerAborted
            if time.monotonic() - t0 > self.timeout:
                raise TimeoutError(f"collective {k}")
            time.sleep(0.002)
        res = []
        for p in paths:
            with open(p, "rb") as f:
                res.append(pickle.load(f))
        return res

    def barrier(self):
        self._exchange(None)

    def bcast(self, obj=None, root: int = 0):
        return self._exchange(obj)[root]

    def gather(self, sendobj, root: int = 0):
        allv = self._exchange(sendobj)
        return allv if self._rank == root else None

    def allreduce(self, sendobj, op=None):
        allv = self._exchange(sendobj)
        acc = allv[0]
        for x in allv[1:]:
            acc = op(acc, x)
        return acc


def _rank_child_main(path_in: str, d: str, rank: int, size: int) -> int:
    import pytato as pt
    with open(path_in) as f:
        case = json.load(f)
    out: dict = {}
    stage = "build"
    try:
        distsim.install()
        with warnings.catch_warnings():
            warnings.simplefilter("ignore")
            builds = distgen.build_case(case)
            comm = FileComm(d, rank, size)
            stage = "find"
            part = pt.find_distributed_partition(comm, builds[rank].outputs)
            stage = "verify"
            pt.verify_distributed_partition(comm, part)
            stage = "number"
            numbered, next_tag = pt.number_distributed_tags(
                comm, part, base_tag=distsim.BASE_TAG)
            out = {"summary": distsim.partition_summary(part, numbered),
                   "next_tag": next_tag}
    except PeerAborted:
        out = {"peer_aborted": stage}
    except TimeoutError as e:
        out = {"timeout": f"{stage}: {e}"}
    except Exception as e:  # noqa: BLE001
        with open(os.path.join(d, "abort"), "w") as f:
            f.write(str(rank))
        out = {"error": f"{stage}:{type(e).__name__}",
               "detail": str(e)[:300]}
    with open(os.path.join(d, f"out{rank}.json"), "w") as f:
        json.dump(out, f, sort_keys=True)
    return 0


def run_ranks_in_processes(case, hash_seeds=(101, 202, 303, 404, 505, 606)):
    """-> list (per rank) of what that rank's interpreter reports"""
    from pvf.runner import HarnessError
    n = case["nranks"] if "nranks" in case else len(
        distgen.build_case(case))
    d = tempfile.mkdtemp(prefix="pvf-c09r-")
    try:
        pin = os.path.join(d, "case.json")
        with open(pin, "w") as f:
            json.dump(case, f)
        root = os.path.dirname(os.path.dirname(os.path.dirname(
            os.path.abspath(__file__))))
        procs = []
        for r in range(n):
            env = dict(os.environ)
            env["PYTHONHASHSEED"] = str(hash_seeds[r % len(hash_seeds)])
            env["PYTHONPATH"] = root + os.pathsep + env.get("PYTHONPATH", "")
            procs.append(subprocess.Popen(
                [sys.executable, "-m", "pvf.props.c09", "--rank-child", pin, d,
                 str(r), str(n)], env=env, stdout=subprocess.PIPE,
                stderr=subprocess.PIPE))
        res = []
        for r, p in enumerate(procs):
            _, err = p.communicate()
            if p.returncode != 0:
                raise HarnessError(f"C09 rank child {r} failed: "
                                   f"{err.decode()[-600:]}")
            with open(os.path.join(d, f"out{r}.json")) as f:
                res.append(json.load(f))
        return res
    finally:
        import shutil
        shutil.rmtree(d, ignore_errors=True)


def ranks_in_processes_oracle(case) -> Failure | None:
    """a program the in-process simulation partitions, verifies and numbers
    must go through the same way - with the same parts, names and tag
    numbers - when every rank is an interpreter of its own"""
    ref = summarize_case(case)
    if "ranks" not in ref:
        return None
    got = run_ranks_in_processes(case)
    if any("timeout" in g for g in got):
        return None         # inconclusive (never a violation)
    for r, g in enumerate(got):
        if "error" in g:
            return Failure("fails-across-interpreters",
                           f"rank {r} ({g['error']}: {g.get('detail', '')}) "
                           "fails when every rank is a process with its own "
                           "PYTHONHASHSEED; with all ranks in one interpreter "
                           "the program is partitioned, verified and numbered",
                           "ranks-in-processes|" + g["error"])
    for r, g in enumerate(got):
        if "summary" in g and (g["summary"] != ref["ranks"][r]
                               or g["next_tag"] != ref["next_tag"][r]):
            return Failure("differs-across-interpreters",
                           f"rank {r}: " + _first_diff(ref["ranks"][r],
                                                       g["summary"]),
                           "ranks-in-processes")
    return None

# }}}


def run_shard(shard: int, nshards: int, seed: int, tier: str) -> ShardResult:
    pl = plan(tier)
    res = ShardResult()
    res.extra["hash_seed_cases"] = 0
    for_children: list = []

    def body(case):
        fails, info = case_oracle(case)
        res.evaluations += 1
        feats = c08.record(res, case, info)
        nt = "parts" in info and feats["ranks"] >= 2 \
            and feats["messages"] >= 2 and max(info["parts"]) >= 2
        if nt:
            res.nontrivial.add(distgen.case_hash(case))
            res.sample(case)
        if "rounds_parts" in info:
            res.count("rounds_vs_message_depth:" + (
                "equal" if info["rounds_parts"] == feats["rounds"] else
                "more" if info["rounds_parts"] > feats["rounds"] else "fewer"))
        seen = set()
        for f in fails:
            if f.key() not in seen:
                seen.add(f.key())
                res.fail(f, case)
        if not fails and feats["messages"] >= 1 \
                and len(for_children) < pl["seed_cases"]:
            for_children.append(case)

    hyp_run(distgen.cases(), body, seed, pl["examples"])
    if for_children:
        out = run_children(for_children, pl["hash_seeds"])
        res.extra["hash_seed_cases"] = len(for_children)
        res.count("hash_seed_runs", len(for_children) * len(pl["hash_seeds"]))
        for f, case in compare_children(for_children, out):
            res.fail(f, dict(case, hash_seeds=list(pl["hash_seeds"])))
        for case in for_children[:pl["rank_process_cases"]]:
            f = ranks_in_processes_oracle(case)
            res.evaluations += 1
            res.count("ranks_in_processes_cases")
            if f is not None:
                res.fail(f, dict(case, rank_processes=True))
    return res


def replay(case) -> Failure | None:
    seeds = case.get("hash_seeds")
    base = {k: v for k, v in case.items()
            if k not in ("hash_seeds", "rank_processes")}
    if case.get("rank_processes"):
        return ranks_in_processes_oracle(base)
    fails, _ = case_oracle(base)
    if fails:
        want = case.get("_want")
        for f in fails:
            if want is None or f.key() == want:
                return f
        return None if want else fails[0]
    if seeds:
        out = run_children([base], seeds)
        cmp = compare_children([base], out)
        if cmp:
            return cmp[0][0]
    return None


def minimize(case, fj):
    key = fj["kind"] + "|" + fj.get("where", "")
    if fj["kind"] in ("hash-seed-dependence", "fails-across-interpreters",
                      "differs-across-interpreters"):
        return case, fj

    def still(c):
        fails, _ = case_oracle(c)
        return any(f.key() == key for f in fails)
    small = distgen.minimize_case(case, still, budget=80)
    fails, _ = case_oracle(small)
    for f in fails:
        if f.key() == key:
            return small, f.to_json()
    return case, fj


KNOWN_PREDICATES = dict(c08.KNOWN_PREDICATES)


if __name__ == "__main__":
    if len(sys.argv) == 4 and sys.argv[1] == "--child":
        sys.exit(_child_main(sys.argv[2], sys.argv[3]))
    if len(sys.argv) == 6 and sys.argv[1] == "--rank-child":
        sys.exit(_rank_child_main(sys.argv[2], sys.argv[3], int(sys.argv[4]),
                                  int(sys.argv[5])))
    sys.exit(2)
