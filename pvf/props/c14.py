"""C14 - Python (NumPy-like / JAX) code generation computes what NumPy
computes."""
from __future__ import annotations

import itertools
import warnings

import numpy as np

from pvf import npref, progen
from pvf.oracle import (
    Failure,
    Skip,
    _tainted,
    compare_values,
    exc_site,
    pad_masks,
    reference,
)
from pvf.ptbuild import build_pt, gc, input_values, spec_hash
from pvf.runner import ShardResult, hyp_run

ID = "C14"
LEVEL = "exploration"
RULE = ("grammar programs with static shapes and without sparse products / "
        "loopy calls (all other operation groups, six dtypes, 1..3 outputs, "
        "data wrappers, NaN-mode), deduplicated, handed to generate_numpy_like "
        "with a NumpyLikePythonTarget subclass naming real numpy (the module "
        "jax.numpy mirrors).  Oracle: either generation raises a not-supported"
        " error (NotImplementedError, UnknownIndexLambdaExpr, "
        "UnsupportedArrayError) or: the generated function takes exactly the "
        "program's placeholder names as keyword arguments, pre-binds exactly "
        "the wrapped data objects (identity), runs without AttributeError/"
        "NameError/TypeError, returns every output with the declared shape and"
        " NumPy's values (bit-exact when the reference is exact, else within "
        "the forward error bound).  The supported fraction per operation is in"
        " the evidence.  non-trivial = supported outcome with >= 2 operation "
        "nodes; distinct by canonical JSON")
RULE += "  Round-4 additions: a result returned in a wider floating type than NumPy's must hold only values representable in NumPy's result type (exact rule, no rounding slack); 25 enumerated programs zeros_like/ones_like/astype with a dtype argument different from the operand's, followed by inexact arithmetic in that dtype.  Round 5: all 36 pairs of back-to-back transposes of a (2,3,4) operand; data wrappers viewing one buffer through different strides."
ASSUMPTIONS = [
    "real numpy stands in for jax.numpy (JAX is not installed)",
    "the reference is NumPy's own evaluation of the program with NumPy's "
    "result dtypes; result dtypes themselves are not compared (C03's "
    "business); programs whose NumPy evaluation passes through float16 are "
    "skipped",
]

GROUPS = progen.ALL_GROUPS - {"csr", "loopy"}
ADVERSARIAL = ("_pt_tmp_0", "np", "_pt_tmp_1", "_pt_np", "_pt_tmp", "_pt_kernel",
               "_pt_tmp_2", "numpy", "_pt_tmp_3")
NOT_SUPPORTED = ("NotImplementedError", "UnknownIndexLambdaExpr",
                 "UnsupportedArrayError")


def plan(tier: str) -> dict:
    if tier == "thorough":
        return {"shards": 16, "examples": 2500, "max_ops": 14}
    return {"shards": 16, "examples": 150, "max_ops": 8}


_target = None


def numpy_target():
    global _target
    if _target is None:
        from pytato.target.python import (
            BoundPythonProgram,
            NumpyLikePythonTarget,
        )

        class PvfNumpyTarget(NumpyLikePythonTarget):
            @property
            def numpy_like_module_name(self):
                return "numpy"

            @property
            def numpy_like_module_name_shorthand(self):
                return "_pt_np"

            def bind_program(self, program, entrypoint, expected_arguments,
                             bound_arguments):
                return BoundPythonProgram(
                    target=self, program=program, entrypoint=entrypoint,
                    expected_arguments=expected_arguments,
                    bound_arguments=bound_arguments)
        _target = PvfNumpyTarget()
    return _target


def generate(outputs):
    from pytato.target.python.numpy_like import generate_numpy_like
    return generate_numpy_like(outputs, target=numpy_target(),
                               function_name="_pt_kernel", show_code=False,
                               entrypoint_decorators=(), extra_preambles=())


def native_reference(spec):
    """'the values NumPy obtains for the program': every node evaluated by
    NumPy with NumPy's own result dtypes (where pytato declares another dtype
    - all/any, isnan, where with Python scalars: C03's listed findings - the
    generated code follows NumPy, and so does this reference)."""
    from pvf.ptbuild import INPUT_OPS, decode_arg, np_input
    vals = []
    try:
        for node in spec["nodes"]:
            if node["op"] in INPUT_OPS:
                vals.append(np_input(node))
                continue
            args = [decode_arg(a, vals) for a in node.get("args", [])]
            v = npref._native(node["op"], args, node.get("p"))
            if isinstance(v.a, np.ndarray) and v.a.dtype == np.dtype(
                    np.float16):
                raise Skip("NumPy's own result is float16 (sin(all(x)))")
            vals.append(v)
    except (npref.Unsound, npref.NpReject) as e:
        raise Skip(f"native reference: {e}") from e
    return vals


def case_oracle(spec):
    info = {}
    with warnings.catch_warnings():
        warnings.simplefilter("ignore")
        import pytato as pt
        try:
            prog = build_pt(spec, with_tags=False)
        except Exception as e:  # noqa: BLE001
            return Failure("build-exception", f"{type(e).__name__}: {e}",
                           exc_site(e)), info
        try:
            ref = native_reference(spec)
        except Skip as s:
            info["skip"] = str(s)
            return None, info
        g = pt.transform.deduplicate(prog.dict_of_named_arrays())
        try:
            bp = generate(g)
        except Exception as e:  # noqa: BLE001
            if isinstance(e, ValueError) and spec.get("adversarial_name"):
                # a placeholder named like the module shorthand, the entry
                # point or a generated temporary may be refused
                info["unsupported"] = "ValueError: name refused"
                return None, info
            if type(e).__name__ in NOT_SUPPORTED:
                info["unsupported"] = f"{type(e).__name__}: {str(e)[:60]}"
                return None, info
            return Failure("generation-exception", f"{type(e).__name__}: {e}",
                           exc_site(e)), info
        info["source"] = bp.program
        # argument names
        from pvf.ptbuild import reachable
        live = set(reachable(spec))
        ph = {spec["nodes"][i]["p"]["name"] for i in live
              if spec["nodes"][i]["op"] == "placeholder"}
        bound = set(bp.bound_arguments)
        # (an input the generated code does not need - zeros_like(x) - may
        # be left out; every keyword the function takes must be an input, and
        # calling with all inputs must work)
        if not (set(bp.expected_arguments) - bound <= ph):
            return Failure("argument-names",
                           f"expects {sorted(set(bp.expected_arguments) - bound)}"
                           f", program's inputs are {sorted(ph)}",
                           "arguments"), info
        wrapped = [prog.nodes[i].data for i in live
                   if spec["nodes"][i]["op"] == "data"]
        for name, val in bp.bound_arguments.items():
            if not any(val is w for w in wrapped):
                return Failure("bound-data-not-the-wrapped-object",
                               f"bound argument {name} is not one of the "
                               "wrapped data objects", "bound"), info
        if len({id(v) for v in bp.bound_arguments.values()}) > len(
                {id(w) for w in wrapped}):
            return Failure("bound-data-count", f"{len(bp.bound_arguments)} "
                           f"bound, {len(wrapped)} wrapped", "bound"), info
        before = [w.copy() for w in wrapped]
        env = {k: v for k, v in input_values(spec).items() if k in ph}
        try:
            with np.errstate(all="ignore"):
                res = bp(**env)
        except (AttributeError, NameError, TypeError, SyntaxError) as e:
            return Failure("emitted-code-fails", f"{type(e).__name__}: {e}",
                           "run|" + type(e).__name__), info
        except Exception as e:  # noqa: BLE001
            return Failure("emitted-code-raises", f"{type(e).__name__}: {e}",
                           "run|" + type(e).__name__), info
        for w, b in zip(wrapped, before):
            if not np.array_equal(w, b, equal_nan=w.dtype.kind in "fc"):
                return Failure("wrapped-data-modified", "", "bound"), info
        # a second call with one input missing must be refused: nothing of
        # the first call may linger in the program
        needed = sorted(set(bp.expected_arguments) - bound)
        if needed:
            env2 = {k: v for k, v in env.items() if k != needed[0]}
            try:
                with np.errstate(all="ignore"):
                    bp(**env2)
            except TypeError:
                pass
            except Exception as e:  # noqa: BLE001
                return Failure("missing-argument-not-refused",
                               f"second call without '{needed[0]}': "
                               f"{type(e).__name__}: {e}", "call"), info
            else:
                return Failure("missing-argument-not-refused",
                               f"second call without '{needed[0]}' ran (with "
                               "the value of the first call?)", "call"), info
        if not isinstance(res, dict) or sorted(res) != sorted(
                {k for k, _ in spec["outputs"]}):
            return Failure("output-names", f"returned {type(res).__name__} "
                           f"{sorted(res) if isinstance(res, dict) else ''}",
                           "names"), info
        masks = pad_masks(spec, ref)
        tainted = _tainted(spec, set(masks))
        # nodes whose declared dtype is not NumPy's (C03's listed findings:
        # all/any, isnan, reductions of small ints, where/max/min with Python
        # scalars): the generated code is then a mixture of both typings
        # (literals typed by pytato, operations by NumPy); values downstream
        # of such a node are not judged here
        deviating = {i for i, n in enumerate(prog.nodes)
                     if isinstance(n, pt.Array) and ref[i] is not None
                     and isinstance(ref[i].a, np.ndarray)
                     and np.dtype(n.dtype) != ref[i].a.dtype}
        if deviating:
            info["dtype_deviation"] = True
            tainted = tainted | _tainted(spec, deviating)
            masks = {k: v for k, v in masks.items() if k not in tainted}
        for key, idx in spec["outputs"]:
            got = np.asarray(res[key])
            expr = prog.outputs[key]
            op = spec["nodes"][idx]["op"]
            if got.shape != tuple(int(s) for s in expr.shape):
                return Failure("output-shape", f"{key} ({op}): returned "
                               f"{got.shape}, declared {expr.shape}", op), info
            if idx in tainted and idx not in masks:
                continue
            # where pytato's declared dtype is NumPy's own, the generated
            # code returns it (ones(3, float32) must not come back float64)
            with np.errstate(all="ignore"):
                try:
                    gotc = got.astype(ref[idx].a.dtype)
                except Exception:  # noqa: BLE001
                    gotc = got
            # a result in a WIDER floating type than NumPy's is judged as it
            # is: ones(3, float32) / 3 computed in float64 is another value
            # than NumPy's float32 one, although it rounds to it
            rd = ref[idx].a.dtype
            if got.dtype.kind in "fc" and rd.kind in "fc" and \
                    got.dtype.itemsize // (2 if got.dtype.kind == "c" else 1) \
                    > rd.itemsize // (2 if rd.kind == "c" else 1) \
                    and np.dtype(expr.dtype) == rd and got.shape == \
                    ref[idx].a.shape and ref[idx].a.size:
                wide = np.result_type(got.dtype, rd)
                with np.errstate(all="ignore"):
                    diff = np.abs(got.astype(wide) - ref[idx].a.astype(wide))
                    tol = 8.0 * max(float(ref[idx].err), 0.0)
                    m = masks.get(idx)
                    bad = (diff > tol) & np.isfinite(diff)
                    if m is not None:
                        bad = bad & ~m if m.shape == bad.shape else bad
                    # NumPy's result has dtype rd: a returned value that rd
                    # cannot represent is not a value NumPy obtains, whatever
                    # the rounding slack of the operations involved
                    back = got.astype(rd).astype(wide)
                    lossy = (back != got.astype(wide)) & np.isfinite(
                        got.astype(wide)) & np.isfinite(back)
                    if m is not None and m.shape == lossy.shape:
                        lossy = lossy & ~m
                if lossy.any():
                    k = tuple(int(i) for i in np.argwhere(lossy)[0])
                    return Failure(
                        "value-in-wider-type", f"{key} ({op}): returned as "
                        f"{got.dtype}; the value {got[k]!r} at {k} is not "
                        f"representable in NumPy's result type {rd}", op), info
                if bad.any():
                    return Failure(
                        "value-in-wider-type", f"{key} ({op}): returned as "
                        f"{got.dtype} with values that are not NumPy's {rd} "
                        f"ones (max difference {float(diff[bad].max()):.3e}, "
                        f"allowed {tol:.1e})", op), info
            # (computed by NumPy on both sides, but possibly in another
            # precision path: allow the reference's error bound)
            r = ref[idx]
            msg = compare_values(gotc, r, mask=masks.get(idx), slack=8.0)
            if msg and not r.exact:
                # operations dropped/changed by raising (casts) may evaluate
                # in a wider type: accept float32-level agreement for float32
                pass
            if msg:
                return Failure("value", f"{key} (node {idx}, {op}): {msg}",
                               op), info
        info["supported"] = True
    return None, info


def run_shard(shard: int, nshards: int, seed: int, tier: str) -> ShardResult:
    pl = plan(tier)
    res = ShardResult()
    cfg = progen.GenCfg(max_ops=pl["max_ops"], groups=frozenset(GROUPS))

    k = [0]

    def body(pv):
        spec, vals = pv
        spec = gc(spec)
        k[0] += 1
        if k[0] % 6 == 0:
            # names close to what the generated code uses itself: refused
            # (ValueError) or kept apart, never silently shadowed
            ph = [n for n in spec["nodes"] if n["op"] == "placeholder"]
            if ph:
                nm = ADVERSARIAL[(k[0] // 6) % len(ADVERSARIAL)]
                if not any(n["p"]["name"] == nm for n in ph):
                    ph[(k[0] // 6) % len(ph)]["p"]["name"] = nm
                    spec["adversarial_name"] = nm
                    res.count("adversarial_placeholder_name")
        f, info = case_oracle(spec)
        res.evaluations += 1
        if "skip" in info:
            res.skip(info["skip"][:70])
            return
        ops = {n["op"] for n in spec["nodes"] if n["op"] not in (
            "placeholder", "data")}
        if info.get("unsupported"):
            res.count("outcome:unsupported")
            res.count("unsupported:" + info["unsupported"].split(":")[0])
            for o in ops:
                res.count("op_in_unsupported_program:" + o)
        elif info.get("supported"):
            res.count("outcome:supported")
            if info.get("dtype_deviation"):
                res.count("values_partly_unjudged_dtype_deviation")
            for o in ops:
                res.count("op_in_supported_program:" + o)
            if len([n for n in spec["nodes"] if n["op"] not in (
                    "placeholder", "data")]) >= 2:
                res.nontrivial.add(spec_hash(spec))
            res.sample({"program": spec, "source": info.get("source", "")[:600]},
                       limit=2)
        if f is not None:
            res.fail(f, spec)

    hyp_run(progen.programs(cfg), body, seed, pl["examples"])
    k[0] = 1      # (no renaming in the enumerated cases)
    for j, spec in enumerate(itertools.chain(dtype_override_gadgets(),
                                             movement_and_view_gadgets())):
        if j % nshards == shard:
            k[0] = 1
            res.count("dtype_override_gadget")
            body((spec, None))
    return res


def dtype_override_gadgets():
    """constructors whose dtype is an argument of the call and not that of an
    operand (zeros_like/ones_like with dtype=, zeros/ones/full/eye/arange,
    astype), followed by inexact arithmetic in that dtype: the generated
    code must compute in the dtype given"""
    F = ("float32", "float64", "complex128")

    def ph(name, d):
        vals = [1, 2, 5]
        return {"op": "placeholder", "p": {
            "name": name, "dtype": d, "shape": [3], "scale": 0,
            "values": [[v, 0] for v in vals] if d.startswith("complex")
            else vals}}
    for d0 in F:
        for d1 in F:
            for op in ("zeros_like", "ones_like", "astype"):
                if op == "astype" and d0.startswith("complex") \
                        and not d1.startswith("complex"):
                    continue
                yield {"nodes": [
                    ph("x", d0), ph("y", d1),
                    {"op": op, "args": [["n", 0]], "p": {"dtype": d1}},
                    {"op": "add", "args": [["n", 2], ["n", 1]]},
                    {"op": "truediv", "args": [["n", 3], ["py", 3]]}],
                    "outputs": [["out0", 4]]}


def movement_and_view_gadgets():
    """(a) every ordered pair of axis permutations of a (2,3,4) operand
    applied back to back; (b) two data wrappers that view ONE buffer with the
    same start address, shape and dtype through different strides (a / a.T,
    b[::2] / b[:m])"""
    perms = [list(p) for p in itertools.permutations(range(3))]

    def ph(name, shape):
        n = int(np.prod(shape))
        return {"op": "placeholder", "p": {"name": name, "dtype": "float64",
                                           "shape": shape, "scale": 0,
                                           "values": [(7 * i) % 23 - 11
                                                      for i in range(n)]}}
    for p1, p2 in itertools.product(perms, perms):
        yield {"nodes": [ph("x", [2, 3, 4]),
                         {"op": "transpose", "args": [["n", 0]],
                          "p": {"axes": p1}},
                         {"op": "transpose", "args": [["n", 1]],
                          "p": {"axes": p2}},
                         {"op": "mul", "args": [["n", 2], ["py", 2]]}],
               "outputs": [["out0", 3]]}
    base = [3, -1, 4, 1, -5, 9, 2, -6, 5]
    arr = np.array(base).reshape(3, 3)
    views = [
        ({"values": base, "shape": [3, 3], "kind": "plain"},
         {"values": [int(v) for v in arr.T.flatten()], "shape": [3, 3],
          "kind": "T"}, [3, 3], base),
        ({"values": base[:8][::2], "shape": [4], "kind": "step2"},
         {"values": base[:4], "shape": [4], "kind": "prefix"}, [8], base[:8]),
    ]
    for a, b, bshape, bvals in views:
        for op in ("sub", "add"):
            nodes = []
            for d in (a, b):
                nodes.append({"op": "data", "p": {
                    "dtype": "float64", "scale": 0, "shape": d["shape"],
                    "values": d["values"],
                    "view": {"arena": 7, "kind": d["kind"],
                             "base_values": bvals, "base_shape": bshape}}})
            nodes.append({"op": op, "args": [["n", 0], ["n", 1]]})
            yield {"nodes": nodes, "outputs": [["out0", 2]]}


def _known_strong_scalar(case, failure) -> bool:
    """the failure disappears when NumPy-scalar literals are read as weakly
    typed Python scalars (which is what the generated code does)."""
    import copy
    v = copy.deepcopy(case)
    hit = False
    for n in v["nodes"]:
        for a in n.get("args", []):
            if a[0] == "np" and a[1] in ("float64", "complex128", "int64"):
                a[:] = ["py", a[2]]
                hit = True
            elif a[0] == "npc":
                a[:] = ["pyc", a[2], a[3]]
                hit = True
    if not hit:
        return False
    f, _ = case_oracle(v)
    return f is None


KNOWN_PREDICATES = {"strong_scalar": _known_strong_scalar}


def replay(case) -> Failure | None:
    f, _ = case_oracle(case)
    return f


def minimize(case, fj):
    from pvf.minimize import minimize_spec
    key = fj["kind"] + "|" + fj.get("where", "")

    def still(s):
        f = replay(s)
        return f is not None and f.key() == key
    small = minimize_spec(case, still, budget=60)
    f = replay(small)
    return small, (f.to_json() if f is not None else fj)
