"""C04 - equality and hashing are a sound structural congruence."""
from __future__ import annotations

import dataclasses
import json
import os
import pickle
import subprocess
import sys
import tempfile
import warnings
from collections.abc import Mapping

import numpy as np
from hypothesis import strategies as st

from pvf import reflect
from pvf.oracle import Failure, exc_site
from pvf.ptbuild import build_pt, spec_hash
from pvf.runner import ROOT, ShardResult, hyp_run
from pvf.zoo import zoo_programs

ID = "C04"
LEVEL = "exploration"
RULE = ("graphs over every node kind (pvf/zoo.py: grammar programs with named "
        "arrays, dictionaries, function calls, loopy calls, distributed send/"
        "recv nodes and CSR products embedded at drawn positions).  For each "
        "graph e: (a) two independent rebuilds (sharing only the DataWrapper "
        "objects, which compare by identity as documented) must be ==, not !=,"
        " hash-equal, interchangeable as dict/set keys, symmetric and "
        "transitive; (b) for a drawn node and EVERY dataclass field of it (the"
        " field list is read from the class), the graph with exactly that "
        "field changed to a type-appropriate different value must compare "
        "unequal (only non_equality_tags is declared non-semantic); whenever "
        "two graphs compare equal their hashes must agree; (c) pickle round "
        "trip in-process and (per shard) in a fresh interpreter with another "
        "PYTHONHASHSEED, which unpickles, rebuilds the program from JSON and "
        "checks ==/hash there; the pickle stream must not carry a cached hash."
        "  non-trivial = the mutated node lies below the root, or the pair "
        "crosses a process; distinct by (program, node, field)")
RULE += '  Round-4 addition: for every program with data wrappers, a second wrapper around the very same buffer (and the graph rebuilt over such twins): whatever == answers, !=, hash, set and dict membership must agree with it.'
ASSUMPTIONS = [
    "DataWrapper equality is identity by documentation; pickling therefore "
    "uses the program with data wrappers turned into placeholders",
    "a mutated copy is made with dataclasses.replace on the node and its "
    "ancestors (pvf/reflect.py:rebuild); it need not be a *valid* node, "
    "equality is structural",
]


def plan(tier: str) -> dict:
    if tier == "thorough":
        return {"shards": 16, "examples": 500, "children": 2, "mut_nodes": 4}
    return {"shards": 16, "examples": 40, "children": 1, "mut_nodes": 2}


# {{{ mutation of one field

def mutate_value(value, field: str, node):
    """a different value of the same kind, or raises Skip."""
    import pymbolic.primitives as prim
    import pytato as pt
    from constantdict import constantdict
    from pytato import array as A
    from pvf.usertags import PvfTag

    class Skip(Exception):
        pass
    mutate_value.Skip = Skip

    def other_array(a):
        # same shape/dtype, different structure
        return pt.make_placeholder("pvf_mut", a.shape, a.dtype)

    if isinstance(value, bool):
        return not value
    if isinstance(value, (int, np.integer)):
        return int(value) + 1
    if isinstance(value, str):
        if field == "order":
            return "F" if value.upper() == "C" else "C"
        return value + "_m"
    if isinstance(value, np.dtype) or (isinstance(value, type) and issubclass(
            value, np.generic)):
        d = np.dtype(value)
        return np.dtype(np.float32) if d != np.dtype(np.float32) \
            else np.dtype(np.float64)
    if isinstance(value, A.Axis):
        return value.tagged(PvfTag("mut"))
    if isinstance(value, A.ReductionDescriptor):
        return value.tagged(PvfTag("mut"))
    if isinstance(value, frozenset):
        if field == "parameters":
            return value | {"pvf_extra"}
        return value | {PvfTag("mut")}
    if isinstance(value, pt.Array):
        return other_array(value)
    if isinstance(value, A.NormalizedSlice):
        return A.NormalizedSlice(value.start, value.stop, value.step + 1
                                 if value.step != -1 else 2)
    if isinstance(value, tuple):
        if not value:
            if field in ("shape", "newshape", "axis_permutation"):
                return (1,)
            raise Skip("empty tuple")
        first = value[0]
        try:
            return (mutate_value(first, field, node), *value[1:])
        except Skip:
            raise
    if isinstance(value, Mapping):
        if not value:
            raise Skip("empty mapping")
        k = sorted(value, key=repr)[0]
        new = dict(value)
        new[k] = mutate_value(value[k], field, node)
        return constantdict(new) if isinstance(value, constantdict) else new
    if isinstance(value, prim.ExpressionNode) or field == "expr":
        return prim.Sum((value, 1)) if not isinstance(
            value, (prim.Comparison, prim.LogicalAnd, prim.LogicalOr,
                    prim.LogicalNot)) else prim.LogicalNot(value)
    if isinstance(value, (A.EinsumElementwiseAxis, A.EinsumReductionAxis)):
        return type(value)(value.dim + 1)
    import enum
    if isinstance(value, enum.Enum):
        members = list(type(value))
        return members[(members.index(value) + 1) % len(members)]
    if isinstance(value, A.CSRMatrix):
        return dataclasses.replace(value, elem_values=other_array(
            value.elem_values))
    from pytato.distributed.nodes import DistributedSend
    if isinstance(value, DistributedSend):
        return dataclasses.replace(value, dest_rank=value.dest_rank + 1)
    from pytato.function import FunctionDefinition
    if isinstance(value, FunctionDefinition):
        return dataclasses.replace(value, tags=value.tags | {PvfTag("mut")})
    if isinstance(value, A.AbstractResultWithNamedArrays):
        return value.tagged(PvfTag("mut"))
    import loopy as lp
    if isinstance(value, lp.TranslationUnit):
        from pvf.lpkernels import _make
        return _make("rowsum", (4, 5), np.dtype(np.float32))
    if isinstance(value, np.ndarray):
        return value.copy()
    if isinstance(value, float):
        return value + 1.0
    raise Skip(f"no mutator for {type(value).__name__}")

# }}}


def _no_data(spec):
    """the same program with data wrappers turned into placeholders"""
    import copy
    s = copy.deepcopy(spec)
    k = 0
    for n in s["nodes"]:
        if n["op"] == "data":
            n["op"] = "placeholder"
            n["p"]["name"] = f"pvf_d{k}"
            k += 1
    for f in s.get("fns", []):
        pass
    return s


def _roots(prog):
    return prog.dict_of_named_arrays()


def _reuse_data(spec, prog):
    return {i: prog.nodes[i] for i, n in enumerate(spec["nodes"])
            if n["op"] == "data"}


def eq_checks(a, b, what: str) -> Failure | None:
    try:
        if not (a == b):
            return Failure("rebuilt-not-equal", f"{what}: a == b is False",
                           type(a).__name__)
        if a != b:
            return Failure("ne-inconsistent", f"{what}: a != b is True while "
                           "a == b", type(a).__name__)
        if not (b == a):
            return Failure("not-symmetric", f"{what}: b == a is False",
                           type(a).__name__)
        if hash(a) != hash(b):
            return Failure("equal-but-hash-differs", f"{what}: hash(a) != "
                           "hash(b) for equal graphs", type(a).__name__)
        if b not in {a} or {a: 1}.get(b) != 1:
            return Failure("not-interchangeable-as-key", what,
                           type(a).__name__)
    except Exception as e:  # noqa: BLE001
        return Failure("equality-exception", f"{what}: {type(e).__name__}: {e}",
                       exc_site(e))
    return None


def case_oracle(case, res: ShardResult | None = None):
    spec = case["spec"]
    picks = case.get("picks", [0.5])
    info = {"mutations": 0, "kinds": set(), "deep": 0, "skipped_fields": 0}
    with warnings.catch_warnings():
        warnings.simplefilter("ignore")
        import pytato as pt
        try:
            p1 = build_pt(spec)
            reuse = _reuse_data(spec, p1)
            p2 = build_pt(spec, reuse=reuse)
            p3 = build_pt(spec, reuse=reuse)
        except Exception as e:  # noqa: BLE001
            return Failure("build-exception", f"{type(e).__name__}: {e}",
                           exc_site(e)), info
        a, b, c = _roots(p1), _roots(p2), _roots(p3)
        f = eq_checks(a, b, "rebuilt dict") or eq_checks(b, c, "rebuilt dict")
        if f:
            return f, info
        if not (a == c):
            return Failure("not-transitive", "a==b, b==c but a!=c",
                           "DictOfNamedArrays"), info
        if not (a == a):
            return Failure("not-reflexive", "a != a", "DictOfNamedArrays"), info
        for k in a.keys():
            f = eq_checks(a[k].expr, b[k].expr, f"rebuilt output {k}")
            if f:
                return f, info
        # every node of the rebuilt graph equals its counterpart
        for i, (x, y) in enumerate(zip(p1.nodes, p2.nodes)):
            if reflect.is_node(x):
                f = eq_checks(x, y, f"rebuilt node {i} "
                              f"({spec['nodes'][i]['op']})")
                if f:
                    return f, info
        # --- (a') history: a node hashed first and (un)tagged afterwards
        # behaves like an equal node that was never hashed
        from pvf.usertags import PvfTag
        p4 = build_pt(spec, reuse=reuse)       # nothing of it is ever hashed
        for pick in picks:
            i = min(int(pick * len(p1.nodes)), len(p1.nodes) - 1)
            x, y = p1.nodes[i], p4.nodes[i]
            if not isinstance(x, pt.Array) or x is y:
                continue
            try:
                fresh = y.tagged(PvfTag("hist"))     # never hashed before
            except Exception:  # noqa: BLE001
                continue          # (a class that is documented untaggable)
            hx = hash(x)                             # hashed first ...
            t = x.tagged(PvfTag("hist"))             # ... tagged afterwards
            info["history"] = info.get("history", 0) + 1
            f = eq_checks(t, fresh, f"node {i} hashed, then tagged, vs an equal "
                          "node tagged without having been hashed")
            if f:
                return f, info
            if t == x:
                return Failure("tag-ignored-by-eq", "x.tagged(t) == x",
                               type(x).__name__), info
            back = t.without_tags(PvfTag("hist"))
            f = eq_checks(back, x, f"node {i} tagged and untagged again")
            if f:
                return f, info
            if hash(back) != hx:
                return Failure("equal-but-hash-differs", "tag added and "
                               "removed: hash differs from the original's",
                               type(x).__name__), info
        # --- (a'') mappings are compared as mappings: the same bindings /
        # returns inserted in another order give an equal node with the same
        # hash; a function definition that returns a strict subset of
        # another's results is unequal to it, in both directions
        from constantdict import constantdict
        from pytato.function import FunctionDefinition
        for n in reflect.walk(a).values():
            if isinstance(n, pt.IndexLambda) and len(n.bindings) >= 2:
                rev = dataclasses.replace(n, bindings=constantdict(
                    reversed(list(n.bindings.items()))))
                info["reordered"] = info.get("reordered", 0) + 1
                f = eq_checks(n, rev, "IndexLambda with its bindings inserted "
                              "in reverse order")
                if f:
                    return f, info
            if type(n).__name__ == "LoopyCall" and len(n.bindings) >= 2:
                rev = dataclasses.replace(n, bindings=constantdict(
                    reversed(list(n.bindings.items()))))
                f = eq_checks(n, rev, "LoopyCall with its bindings inserted in "
                              "reverse order")
                if f:
                    return f, info
            if isinstance(n, FunctionDefinition) and len(n.returns) >= 2:
                items = list(n.returns.items())
                rev = dataclasses.replace(n, returns=constantdict(
                    reversed(items)))
                f = eq_checks(n, rev, "FunctionDefinition with its returns "
                              "inserted in reverse order")
                if f:
                    return f, info
                sub = dataclasses.replace(n, returns=constantdict(items[:-1]))
                if (n == sub) or (sub == n):
                    return Failure(
                        "different-but-equal", "FunctionDefinition vs the same "
                        "definition returning one result less: "
                        f"full == sub is {n == sub}, sub == full is {sub == n}",
                        "FunctionDefinition.returns"), info
        # --- (a3) a second wrapper around the very same buffer: whether it
        # equals the first is the class's business (identity, by the
        # documentation), but whatever '==' answers, hash / set / dict must
        # agree with it - for the wrappers and for the graphs built on them
        if reuse:
            try:
                twins = {i: pt.make_data_wrapper(x.data, shape=x.shape,
                                                 tags=x.tags, axes=x.axes)
                         for i, x in reuse.items()}
                p5 = build_pt(spec, reuse=twins)
            except Exception as e:  # noqa: BLE001
                return Failure("build-exception", f"{type(e).__name__}: {e}",
                               exc_site(e)), info
            info["data_twins"] = len(twins)
            a5 = _roots(p5)
            for x, y, what in [(reuse[i], twins[i], f"data wrapper {i} vs a "
                                "second wrapper of the same buffer")
                               for i in reuse] + [
                                   (a, a5, "graphs over twin data wrappers")]:
                try:
                    e1, e2 = (x == y), (y == x)
                    if e1 != e2:
                        return Failure("not-symmetric", what,
                                       type(x).__name__), info
                    if (x != y) == e1:
                        return Failure("ne-inconsistent", what,
                                       type(x).__name__), info
                    if e1 and hash(x) != hash(y):
                        return Failure("equal-but-hash-differs", what,
                                       type(x).__name__), info
                    if (y in {x}) != e1 or ({x: 1}.get(y) == 1) != e1:
                        return Failure("not-interchangeable-as-key", what,
                                       type(x).__name__), info
                except Exception as e:  # noqa: BLE001
                    return Failure("equality-exception", f"{what}: "
                                   f"{type(e).__name__}: {e}", exc_site(e)), info
        # --- (b) single-field mutations
        nodes = [n for n in reflect.topo_order(a)
                 if dataclasses.is_dataclass(n) or isinstance(
                     n, pt.DictOfNamedArrays)]
        root_children = {id(ch) for _, ch in reflect.children(a)}
        for pick in picks:
            n = nodes[min(int(pick * len(nodes)), len(nodes) - 1)]
            kind = type(n).__name__
            info["kinds"].add(kind)
            for name, value in reflect.fields_of(n):
                if name == "non_equality_tags":
                    continue
                try:
                    new_value = mutate_value(value, name, n)
                except Exception as e:  # noqa: BLE001
                    if type(e).__name__ == "Skip":
                        info["skipped_fields"] += 1
                        continue
                    raise
                try:
                    n2 = reflect.replace_field(n, name, new_value)
                    a2 = reflect.rebuild(a, {id(n): n2}) if n is not a else n2
                except Exception as e:  # noqa: BLE001
                    # the class refuses the mutated value: nothing to compare
                    info["skipped_fields"] += 1
                    continue
                info["mutations"] += 1
                if n is not a and id(n) not in root_children:
                    info["deep"] += 1
                where = f"{kind}.{name}"
                try:
                    # (CSRMatrix / DistributedSend are not array expressions:
                    # only the expressions containing them are compared)
                    from pytato.function import FunctionDefinition
                    is_expr = isinstance(n, (
                        pt.Array, pt.array.AbstractResultWithNamedArrays,
                        FunctionDefinition))
                    same_node = is_expr and (n2 == n)
                    same_root = (a2 == a)
                    if same_node or same_root:
                        if same_node and hash(n2) != hash(n):
                            return Failure(
                                "equal-but-hash-differs",
                                f"{where} changed: nodes compare equal but "
                                f"hash differently", where), info
                        return Failure(
                            "field-ignored-by-equality",
                            f"{where} changed from {str(value)[:60]!r} to "
                            f"{str(new_value)[:60]!r}: still equal", where), info
                    if not (a2 != a):
                        return Failure("ne-inconsistent", f"{where}", where), \
                            info
                except Exception as e:  # noqa: BLE001
                    return Failure("equality-exception", f"{where}: "
                                   f"{type(e).__name__}: {e}", exc_site(e)), info
        # --- (c) pickle, in process
        nd = _no_data(spec)
        try:
            q1 = build_pt(nd)
            g = _roots(q1)
            blob = pickle.dumps(g)
            g2 = pickle.loads(blob)
        except Exception as e:  # noqa: BLE001
            return Failure("pickle-exception", f"{type(e).__name__}: {e}",
                           exc_site(e)), info
        # (loopy's own objects inside a LoopyCall pickle their cached hash;
        # that is loopy's business - look at the pytato nodes' states)
        hash(g)
        for n in reflect.walk(g).values():
            try:
                state = n.__reduce_ex__(2)[2]
            except Exception:  # noqa: BLE001
                continue
            if isinstance(state, dict) and "_hash_value" in state:
                return Failure("pickle-carries-cached-hash",
                               f"{type(n).__name__} pickles '_hash_value'",
                               type(n).__name__), info
        f = eq_checks(g, g2, "pickle round trip")
        if f:
            f.kind = "pickle-" + f.kind
            return f, info
        info["blob"] = blob
        info["nd"] = nd
    return None, info


CHILD = r"""
import sys, json, pickle, warnings
warnings.filterwarnings("ignore")
sys.path.insert(0, sys.argv[1])
from pvf.ptbuild import build_pt
bad = []
with open(sys.argv[2], "rb") as f:
    items = pickle.load(f)
for spec_json, blob in items:
    spec = json.loads(spec_json)
    try:
        g = pickle.loads(blob)
        mine = build_pt(spec).dict_of_named_arrays()
        eq_ok = (g == mine) and (mine == g) and not (g != mine)
        neq_keys = [k for k in mine.keys() if not (g[k].expr == mine[k].expr)]
        hash_keys = [k for k in mine.keys()
                     if hash(g[k].expr) != hash(mine[k].expr)]
        dict_hash_ok = hash(g) == hash(mine) and g in {mine}
        if not eq_ok or neq_keys or hash_keys or not dict_hash_ok:
            bad.append([spec_json, {"eq_ok": eq_ok, "neq_keys": neq_keys,
                                    "hash_keys": hash_keys,
                                    "dict_hash_ok": dict_hash_ok}])
    except Exception as e:
        bad.append([spec_json, {"exception": f"{type(e).__name__}: {e}"}])
print("PVF-CHILD " + json.dumps({"n": len(items), "bad": bad}))
"""


def run_children(items, hashseeds) -> list:
    """items: [(spec_json, blob)] -> list of (spec_json, message)"""
    if not items:
        return []
    bad = []
    d = tempfile.mkdtemp(prefix="pvf-c04-")
    try:
        path = os.path.join(d, "items.pkl")
        with open(path, "wb") as f:
            pickle.dump(items, f)
        script = os.path.join(d, "child.py")
        with open(script, "w") as f:
            f.write(CHILD)
        for hs in hashseeds:
            env = dict(os.environ)
            env["PYTHONHASHSEED"] = str(hs)
            env["PYTHONPATH"] = ROOT + os.pathsep + os.environ.get("PYTHONPATH", "")
            p = subprocess.run([sys.executable, script, ROOT, path], env=env,
                               capture_output=True, text=True)
            line = [ln for ln in p.stdout.splitlines()
                    if ln.startswith("PVF-CHILD ")]
            if p.returncode != 0 or not line:
                raise RuntimeError("child interpreter failed:\n"
                                   + p.stderr[-2000:])
            out = json.loads(line[0][len("PVF-CHILD "):])
            for spec_json, msg in out["bad"]:
                bad.append((spec_json, hs, msg))
    finally:
        import shutil
        shutil.rmtree(d, ignore_errors=True)
    return bad


@st.composite
def cases(draw):
    spec = draw(zoo_programs())
    n = draw(st.integers(1, 4))
    picks = [draw(st.integers(0, 999)) / 1000.0 for _ in range(n)]
    return {"spec": spec, "picks": picks}


def run_shard(shard: int, nshards: int, seed: int, tier: str) -> ShardResult:
    pl = plan(tier)
    res = ShardResult()
    items = []

    def body(case):
        case["picks"] = case["picks"][:pl["mut_nodes"]]
        f, info = case_oracle(case)
        res.evaluations += 1
        res.count("field_mutations", info["mutations"])
        res.count("fields_without_mutator", info["skipped_fields"])
        res.count("data_wrapper_twins", info.get("data_twins", 0))
        for k in info["kinds"]:
            res.count("mutated_kind:" + k)
        if info["deep"]:
            res.nontrivial.add(spec_hash(case))
        res.sample(case, limit=2)
        if f is not None:
            res.fail(f, case)
        elif "blob" in info and len(items) < 60:
            items.append((json.dumps(info["nd"]), info["blob"]))

    hyp_run(cases(), body, seed, pl["examples"])
    for f, c in churn_check(shard, res) + symbolic_spelling_check(shard, nshards,
                                                                  res):
        res.fail(f, c)
    hs = [(seed * 7 + shard * 3 + k) % 1000 + 1 for k in range(pl["children"])]
    bad = run_children(items, hs)
    res.count("cross_process_pairs", len(items) * len(hs))
    for spec_json, _ in items:
        res.nontrivial.add("xproc:" + spec_hash(json.loads(spec_json)))
        res.evaluations += 1          # (the cross-process comparison)
    for spec_json, hs, msg in bad:
        res.fail(_xproc_failure(json.loads(spec_json), hs, msg),
                 {"spec": json.loads(spec_json), "picks": [],
                  "cross_process": True})
    return res


def churn_check(shard: int, res: ShardResult, n: int = 2500):
    """thousands of == on short-lived temporaries in one process: verdicts
    must not depend on what was compared before (object addresses get
    reused; a memo keyed on id() that outlives its objects goes stale)"""
    import numpy as np
    import pytato as pt
    out = []
    with warnings.catch_warnings():
        warnings.simplefilter("ignore")
        x = pt.make_placeholder("x", (3, 4), np.float64)
        for k in range(n):
            c = (k * 7 + shard) % 23
            make = [lambda c=c: (x + c) * 2, lambda c=c: pt.sin(x * c).T,
                    lambda c=c: pt.roll(x, c % 3, 1) - c,
                    lambda c=c: (x[:, c % 4] + c).reshape(3, 1)][k % 4]
            u, v, w = make(), make(), make() + 1
            res.evaluations += 1
            if not (u == v) or hash(u) != hash(v):
                out.append((Failure("rebuilt-not-equal", f"comparison #{k} in a"
                                    " long run: two builds of one expression "
                                    "compare unequal (or hash differently)",
                                    "churn"), {"churn": k, "shard": shard}))
                break
            if u == w or w == v:
                out.append((Failure("different-but-equal", f"comparison #{k} in"
                                    " a long run: e and e + 1 compare equal",
                                    "churn"), {"churn": k, "shard": shard}))
                break
            del u, v, w
    res.count("churn_comparisons", n)
    return out


def symbolic_spelling_check(shard: int, nshards: int, res: ShardResult):
    """placeholders / receives whose shapes denote the same affine form in
    different spellings (n + 1 vs 1 + n, n + n vs 2 * n): whatever == says,
    equal nodes must hash equally, and == must be an equivalence"""
    import itertools
    import numpy as np
    import pytato as pt
    from pvf.props.c16 import build_form
    out = []
    forms = [(1, 1), (0, 2), (2, 1), (1, 1, 1), (0, 2, 1), (3, 0, 2)]
    spell = [0, 0b01, 0b10, 0b11, 0b10000000101, 0b11100000110, 0b1000001001]
    k = 0
    with warnings.catch_warnings():
        warnings.simplefilter("ignore")
        for f in forms:
            for sa, sb in itertools.combinations(spell, 2):
                k += 1
                if k % nshards != shard:
                    continue
                try:
                    ea, eb = build_form(f, sa), build_form(f, sb)
                    pa = pt.make_placeholder("p", (ea, 3), np.float64)
                    pb = pt.make_placeholder("p", (eb, 3), np.float64)
                    ra = pt.make_distributed_recv(0, 5, (ea,), np.float64)
                    rb = pt.make_distributed_recv(0, 5, (eb,), np.float64)
                except Exception:  # noqa: BLE001
                    continue
                res.evaluations += 1
                res.nontrivial.add(f"spelling:{f}:{sa}:{sb}")
                for a, b, what in ((pa, pb, "Placeholder"),
                                   (ra, rb, "DistributedRecv"),
                                   (pt.roll(pa, 1, 1) + 1, pt.roll(pb, 1, 1) + 1,
                                    "expression over the placeholder")):
                    if (a == b) and hash(a) != hash(b):
                        out.append((Failure(
                            "equal-but-hash-differs", f"{what} with shape form "
                            f"{f} spelled in two ways: == says equal, hashes "
                            "differ", "symbolic-shape|" + what),
                            {"spelling": [list(f), sa, sb]}))
                        return out
                    if (a == b) != (b == a):
                        out.append((Failure("not-symmetric", what,
                                            "symbolic-shape"),
                                    {"spelling": [list(f), sa, sb]}))
                        return out
    res.count("symbolic_spelling_pairs", k)
    return out


def _xproc_failure(spec, hs, msg) -> Failure:
    """classify a cross-process mismatch: hash-only mismatches confined to
    outputs that depend on a loopy call are loopy's pickled hash cache."""
    from pvf.ptbuild import reachable
    detail = f"PYTHONHASHSEED={hs}: {msg}"
    if "exception" in msg or not msg.get("eq_ok") or msg.get("neq_keys"):
        return Failure("cross-process-inequality", detail, "pickle")
    lp_nodes = {i for i, n in enumerate(spec["nodes"])
                if n["op"] == "call_loopy"}
    outs = dict((k, i) for k, i in spec["outputs"])
    keys = msg.get("hash_keys", [])
    if lp_nodes and all(set(reachable(spec, [outs[k]])) & lp_nodes
                        for k in keys) and (keys or not msg["dict_hash_ok"]):
        return Failure("cross-process-hash-loopycall", detail, "LoopyCall")
    return Failure("cross-process-hash", detail, "pickle")


def replay(case) -> Failure | None:
    if "churn" in case:
        r = churn_check(case.get("shard", 0), ShardResult())
        return r[0][0] if r else None
    if "spelling" in case:
        r = symbolic_spelling_check(0, 1, ShardResult())
        return r[0][0] if r else None
    f, info = case_oracle(case)
    if f is None and case.get("cross_process") and "blob" in info:
        bad = run_children([(json.dumps(info["nd"]), info["blob"])], [1, 2, 3])
        if bad:
            return _xproc_failure(info["nd"], bad[0][1], bad[0][2])
    return f
