"""C02 - lowering any array node to an index lambda preserves its meaning."""
from __future__ import annotations

import itertools
import warnings

import numpy as np

from pvf import npref, progen
from pvf.oracle import Failure, Skip, compare_values, exc_site, reference
from pvf.ptbuild import build_pt, gc, spec_hash
from pvf.refeval import RefEval, RefOutOfBounds, RefUnsupported
from pvf.runner import ShardResult, hyp_run

ID = "C02"
LEVEL = "exploration"
RULE = ("(a) exhaustive: every 1-D slice (start, stop in {None} u [-n-2, n+2], "
        "step in {None} u +-[1, n+1]) and every int index for axis lengths "
        "n=0..5, plus the same slices on each axis of a 2-D/3-D operand; every "
        "(old shape, new shape, order) reshape in the tier's scope; (b) random: "
        "every high-level node (Stack, Concatenate, Roll, AxisPermutation, "
        "Reshape, Basic/AdvancedIndex, Einsum, CSRMatmul) of programs drawn from "
        "the grammar, with user tags and axis tags.  Oracle: to_index_lambda(n) "
        "is an IndexLambda with n's shape/dtype/axes/tags whose pointwise, "
        "bounds-checked evaluation equals NumPy's result for the operation as "
        "the user wrote it.  non-trivial = result has >= 1 element and the "
        "index map is not the identity; distinct by (kind, parameters, shapes)")
ASSUMPTIONS = [
    "pointwise evaluator pvf/refeval.py (own interpreter of pymbolic nodes; "
    "taken branch of If only; subscripts outside [0, len) are errors)",
    "values: data movement compared bit for bit; einsum/CSR sums within the "
    "forward error bound (exact inputs make them exact)",
    "negative advanced-index entries wrap once (NumPy semantics); entries "
    "outside [-n, n) are undefined behaviour and not generated",
]

HL = ("Stack", "Concatenate", "Roll", "AxisPermutation", "Reshape", "BasicIndex",
      "AdvancedIndexInContiguousAxes", "AdvancedIndexInNoncontiguousAxes",
      "Einsum", "CSRMatmul")


def plan(tier: str) -> dict:
    if tier == "thorough":
        return {"shards": 16, "examples": 1500, "reshape_axes": 4,
                "reshape_len": 5, "zero_axes": 3, "slice_nd": True}
    return {"shards": 16, "examples": 120, "reshape_axes": 3, "reshape_len": 4,
            "zero_axes": 2, "slice_nd": False}


# {{{ the oracle on one node

def check_node(node, ref_val, seed_memo, what: str) -> Failure | None:
    """node: pytato high-level node; ref_val: npref.Val of NumPy's result."""
    import pytato as pt
    from pytato.transform.lower_to_index_lambda import to_index_lambda
    kind = type(node).__name__
    try:
        il = to_index_lambda(node)
    except Exception as e:  # noqa: BLE001
        return Failure("lowering-exception", f"{what}: {type(e).__name__}: {e}",
                       f"{kind}|{exc_site(e)}")
    if not isinstance(il, pt.IndexLambda):
        return Failure("not-index-lambda", f"{what}: got {type(il).__name__}",
                       kind)
    if tuple(il.shape) != tuple(node.shape):
        return Failure("il-shape", f"{what}: {il.shape} vs node {node.shape}",
                       kind)
    if il.dtype != node.dtype:
        return Failure("il-dtype", f"{what}: {il.dtype} vs node {node.dtype}",
                       kind)
    if il.axes != node.axes:
        return Failure("il-axes", f"{what}: axes differ", kind)
    if il.tags != node.tags:
        return Failure("il-tags", f"{what}: {il.tags} vs {node.tags}", kind)
    ev = RefEval()
    ev.memo.update(seed_memo)
    try:
        got = ev(il)
    except RefOutOfBounds as e:
        return Failure("il-out-of-bounds", f"{what}: {e}", kind)
    except RefUnsupported as e:
        return Failure("il-uninterpretable", f"{what}: {e}", kind)
    except Exception as e:  # noqa: BLE001 (a broken lambda is a finding)
        return Failure("il-broken", f"{what}: {type(e).__name__}: {e}", kind)
    msg = compare_values(np.asarray(got), ref_val)
    if msg:
        return Failure("il-value", f"{what}: {msg}", kind)
    return None


def is_identity_map(node) -> bool:
    """cheap syntactic test for 'nothing moves' (for the non-trivial rule)."""
    from pytato import array as A
    if isinstance(node, A.Roll):
        n = node.array.shape[node.axis]
        return n == 0 or node.shift % n == 0
    if isinstance(node, A.AxisPermutation):
        return tuple(node.axis_permutation) == tuple(range(node.ndim))
    if isinstance(node, A.Reshape):
        return tuple(node.shape) == tuple(node.array.shape)
    if isinstance(node, A.BasicIndex):
        return tuple(node.shape) == tuple(node.array.shape)
    if isinstance(node, (A.Stack, A.Concatenate)):
        return False
    return False


def check_program(spec, res: ShardResult, tags: bool = True) -> None:
    """C02 on every high-level node of a program."""
    import pytato as pt
    with warnings.catch_warnings():
        warnings.simplefilter("ignore")
        try:
            prog = build_pt(spec, with_tags=tags)
        except Exception as e:  # noqa: BLE001
            res.fail(Failure("build-exception", f"{type(e).__name__}: {e}",
                             exc_site(e)), spec)
            return
        try:
            ref = reference(spec, prog)
        except Skip as s:
            res.skip(str(s)[:80])
            return
        seed = {}
        for i, n in enumerate(prog.nodes):
            if isinstance(n, pt.Array) and ref[i] is not None \
                    and isinstance(ref[i].a, np.ndarray):
                seed[id(n)] = ref[i].a
        for i, n in enumerate(prog.nodes):
            if type(n).__name__ not in HL:
                continue
            res.count("node:" + type(n).__name__)
            f = check_node(n, ref[i], seed, f"node {i} ({spec['nodes'][i]['op']})")
            if f is not None:
                res.fail(f, spec)
                return
            if ref[i].a.size >= 1 and not is_identity_map(n):
                res.nontrivial.add(spec_hash({"n": spec["nodes"][i],
                                              "s": [list(np.shape(
                                                  ref[a[1]].a)) for a in
                                                  spec["nodes"][i]["args"]
                                                  if a[0] == "n"]}))

# }}}


# {{{ exhaustive sub-scopes

def _input(shape, dtype="int32", name="x"):
    n = int(np.prod(shape, dtype=np.int64))
    return {"op": "placeholder", "p": {"name": name, "shape": list(shape),
                                       "dtype": dtype,
                                       "values": list(range(1, n + 1)),
                                       "scale": 0}}


def slice_cases(nd_variants: bool):
    """(spec) for every 1-D slice/int index; optionally the same slice on each
    axis of 2-D / 3-D operands."""
    for n in range(0, 6):
        bounds = [None] + list(range(-n - 2, n + 3))
        steps = [None] + [s for s in range(-(n + 1), n + 2) if s != 0]
        for start, stop, step in itertools.product(bounds, bounds, steps):
            yield {"nodes": [_input([n]),
                             {"op": "index", "args": [["n", 0]],
                              "p": {"idx": [["slice", start, stop, step]]}}],
                   "outputs": [["o", 1]]}
        for i in range(-n, n):
            yield {"nodes": [_input([n]),
                             {"op": "index", "args": [["n", 0]],
                              "p": {"idx": [["int", i]]}}],
                   "outputs": [["o", 1]]}
    if nd_variants:
        for shape in ([3, 4], [2, 0, 3], [4, 1, 2]):
            for ax in range(len(shape)):
                n = shape[ax]
                bounds = [None] + list(range(-n - 2, n + 3))
                steps = [None] + [s for s in range(-(n + 1), n + 2) if s != 0]
                for start, stop, step in itertools.product(bounds, bounds,
                                                           steps):
                    idx = [["slice", None, None, None]] * len(shape)
                    idx = list(idx)
                    idx[ax] = ["slice", start, stop, step]
                    yield {"nodes": [_input(shape),
                                     {"op": "index", "args": [["n", 0]],
                                      "p": {"idx": idx}}],
                           "outputs": [["o", 1]]}


def _shapes(max_axes: int, lens) -> list[tuple[int, ...]]:
    out: list[tuple[int, ...]] = []
    for nd in range(0, max_axes + 1):
        out.extend(itertools.product(lens, repeat=nd))
    return out


def reshape_cases(max_axes: int, max_len: int, zero_axes: int):
    by_size: dict[int, list] = {}
    for s in _shapes(max_axes, range(1, max_len + 1)):
        by_size.setdefault(int(np.prod(s, dtype=np.int64)), []).append(s)
    for s in _shapes(zero_axes, range(0, max_len + 1)):
        if 0 in s:
            by_size.setdefault(0, []).append(s)
    for size, shapes in sorted(by_size.items()):
        for old, new in itertools.product(shapes, shapes):
            # (NumPy and pytato's validation take the order letter case-
            # insensitively; lower case on the smaller shapes only)
            small = size <= 12
            for order in (("C", "F", "c", "f") if small else ("C", "F")):
                yield {"nodes": [_input(old),
                                 {"op": "reshape", "args": [["n", 0]],
                                  "p": {"shape": list(new), "order": order}}],
                       "outputs": [["o", 1]]}


def advanced_index_layouts():
    """a 4-D operand (2,3,2,3) indexed, on every axis, by a full slice, a
    proper slice, an integer, a 1-D index array or a (2,1)-shaped one - all
    layouts with at least one index array: contiguous and non-contiguous
    groups of advanced indices, preceded / separated / followed by slices"""
    shape = [2, 3, 2, 3]
    kinds = ("full", "slice", "int", "arr", "arr2")
    for layout in itertools.product(kinds, repeat=4):
        if not any(k.startswith("arr") for k in layout):
            continue
        if sum(k != "full" for k in layout) > 3 and "slice" in layout:
            continue                    # (keep the count near 300)
        nodes = [_input(shape)]
        args = [["n", 0]]
        idx = []
        for ax, k in enumerate(layout):
            n = shape[ax]
            if k == "full":
                idx.append(["slice", None, None, None])
            elif k == "slice":
                idx.append(["slice", 1, None, None])
            elif k == "int":
                idx.append(["int", n - 1])
            else:
                vals = [n - 1, 0] if k == "arr" else [0, n - 1]
                sh = [2] if k == "arr" else [2, 1]
                nodes.append({"op": "placeholder", "p": {
                    "name": f"i{ax}", "shape": sh, "dtype": "int32",
                    "values": vals, "scale": 0}})
                args.append(["n", len(nodes) - 1])
                idx.append(["arr", len(args) - 1])
        nodes.append({"op": "index", "args": args, "p": {"idx": idx}})
        yield {"nodes": nodes, "outputs": [["o", len(nodes) - 1]]}


def _enumerated(tier: str):
    pl = plan(tier)
    return itertools.chain(
        advanced_index_layouts(),
        slice_cases(pl["slice_nd"]),
        reshape_cases(pl["reshape_axes"], pl["reshape_len"], pl["zero_axes"]))

# }}}


GROUPS = frozenset({"stack", "concat", "roll", "transpose", "reshape", "expand",
                    "squeeze", "index", "advindex", "einsum", "matmul", "csr",
                    "arith", "astype", "broadcast"})


def run_shard(shard: int, nshards: int, seed: int, tier: str) -> ShardResult:
    pl = plan(tier)
    res = ShardResult()
    n_enum = 0
    for k, spec in enumerate(_enumerated(tier)):
        if k % nshards != shard:
            continue
        n_enum += 1
        res.evaluations += 1
        before = len(res.failures)
        check_program(spec, res, tags=False)
        if len(res.failures) > before and len(res.failures) > 40:
            break
        if k % 997 == 0:
            res.sample(spec)
    res.extra["enumerated_cases"] = n_enum
    res.extra["exhaustive_subscopes"] = (
        "1-D slices/ints n=0..5; reshapes <= %d axes of length 1..%d and "
        "zero-size <= %d axes" % (pl["reshape_axes"], pl["reshape_len"],
                                  pl["zero_axes"]))

    cfg = progen.GenCfg(min_ops=1, max_ops=6, groups=GROUPS, p_nan=0.05,
                        p_zero=0.2)

    def body(pv):
        spec, vals = pv
        spec = gc(spec)
        spec = add_tags(spec)
        res.evaluations += 1
        check_program(spec, res)
        res.sample(spec, limit=5)

    hyp_run(progen.programs(cfg), body, seed, pl["examples"])
    return res


def add_tags(spec):
    """deterministic user tags / axis tags on the high-level nodes (the spec's
    hash decides which), so that tag and axis preservation is exercised."""
    import copy
    h = int(spec_hash(spec), 16)
    s = copy.deepcopy(spec)
    for i, n in enumerate(s["nodes"]):
        if n["op"] in ("placeholder", "data", "sizeparam", "call_loopy", "item"):
            continue
        if (h >> (i % 48)) & 1:
            n.setdefault("tags", []).append(["User", f"t{i}"])
        if (h >> ((i + 7) % 48)) & 1:
            n.setdefault("tags", []).append(["Axis", 0, f"a{i}"])
    return s


def replay(case) -> Failure | None:
    res = ShardResult()
    check_program(case, res)
    if res.failures:
        f = res.failures[0]["failure"]
        return Failure(f["kind"], f["detail"], f.get("where", ""))
    return None


def minimize(case, fj):
    from pvf.minimize import minimize_spec
    key = fj["kind"] + "|" + fj.get("where", "")

    def still(s):
        f = replay(s)
        return f is not None and f.key() == key
    small = minimize_spec(case, still, budget=40)
    f = replay(small)
    return small, (f.to_json() if f is not None else fj)
