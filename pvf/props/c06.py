"""C06 - algebraic einsum rewrites never change the computed value."""
from __future__ import annotations

import itertools
import warnings

import numpy as np
from hypothesis import strategies as st

from pvf import progen, reflect
from pvf.oracle import Failure, Skip, exc_site, reference
from pvf.ptbuild import build_pt, gc, input_values, spec_hash
from pvf.refeval import RefEval, RefOutOfBounds, RefUnsupported
from pvf.runner import ShardResult, hyp_run

ID = "C06"
LEVEL = "exploration"
RULE = ("expressions with 1..3 (possibly nested) einsum/matmul/dot nodes whose "
        "operands are trees of + - * / (array and scalar operands in either "
        "position), powers, math functions, indexing, reshapes, transposes, "
        "broadcasts and unit axes, drawn from the grammar in three phases "
        "(operand trees, contractions, trees on top, contractions again); a "
        "policy maps every einsum occurrence (in reflective topological order)"
        " to DoNotDistribute or DoDistribute(i) for a drawn valid i.  Oracle: "
        "the value of every output of apply_distributive_property_to_einsums("
        "g, policy) and of rewrite_einsums_with_no_broadcasts(g) under the "
        "reference evaluator equals the original's - bit for bit when the "
        "NumPy reference is exact (dyadic inputs), else within 1e-9*max(1,M)^2"
        " with M the largest magnitude of any intermediate of either graph; "
        "after the no-broadcast rewrite no einsum operand has a unit axis "
        "where the einsum's axis is longer.  'Cannot distribute composed "
        "einsums' (RuntimeError) is the documented refusal.  non-trivial = the "
        "rewritten graph differs structurally from the original; distinct by "
        "(program, policy)")
RULE += '  Round-4 addition: 64 enumerated mixed-dtype products A @ (x +- y) with A, x of a narrow dtype whose products leave it (int8/uint8/int16 wrap, float32 rounds) and y wider: distributing would contract in the narrow dtype.  Round 5: 48 products A @ (x*3 | x+-z) with x, z narrow and A wide (the narrow operation wraps / rounds BEFORE the einsum widens it).'
ASSUMPTIONS = [
    "dtypes int32/int64/float64/complex128 only, so that the inexact-case "
    "tolerance stays 9 orders of magnitude below the effect of a wrong rewrite",
    "reference evaluator pvf/refeval.py",
]

GROUPS_TREE = ("arith", "div", "pow", "math", "index", "advindex", "reshape", "transpose",
               "broadcast", "expand", "squeeze", "unary")
GROUPS_CONTRACT = ("einsum", "matmul", "einsum_dist")


def plan(tier: str) -> dict:
    if tier == "thorough":
        return {"shards": 16, "examples": 4000}
    return {"shards": 16, "examples": 400}


def einsums_of(g) -> list:
    import pytato as pt
    return [n for n in reflect.topo_order(g) if isinstance(n, pt.Einsum)]


def make_policy(einsums, choices):
    from pytato.transform.einsum_distributive_law import (
        DoDistribute,
        DoNotDistribute,
    )
    table = {}
    for e, c in zip(einsums, choices):
        table[id(e)] = c

    def how(expr):
        c = table.get(id(expr), -1)
        if c < 0:
            return DoNotDistribute()
        return DoDistribute(c % len(expr.args))
    return how


def evaluate(g, env):
    ev = RefEval(env)
    out = {k: np.asarray(ev(g[k].expr)) for k in g.keys()}
    mag = 1.0
    for v in ev.memo.values():
        if isinstance(v, np.ndarray) and v.size and v.dtype.kind in "iufc":
            with np.errstate(all="ignore"):
                f = np.abs(v[np.isfinite(v)]) if v.dtype.kind in "fc" else \
                    np.abs(v.astype(np.float64))
            if f.size:
                mag = max(mag, float(f.max()))
    return out, mag


def close(a: dict, b: dict, exact: dict, mag: float) -> str | None:
    if sorted(a) != sorted(b):
        return f"output names {sorted(b)} vs {sorted(a)}"
    for k in a:
        x, y = a[k], b[k]
        if x.shape != y.shape:
            return f"{k}: shape {y.shape} vs {x.shape}"
        if x.size == 0:
            continue
        if exact.get(k) or x.dtype.kind in "biu":
            if y.dtype.kind in "biu" and x.dtype.kind in "biu":
                ok = np.array_equal(x, y)
            else:
                ok = np.array_equal(x.astype(np.complex128),
                                    y.astype(np.complex128), equal_nan=True)
            if not ok:
                return f"{k}: exact values differ (max |d| = " \
                    f"{np.max(np.abs(x.astype(np.complex128) - y)):.3e})"
        else:
            with np.errstate(all="ignore"):
                d = np.abs(x.astype(np.complex128) - y.astype(np.complex128))
            if not np.array_equal(np.isnan(d), np.isnan(
                    x.astype(np.complex128)) | np.isnan(y.astype(np.complex128))
                    ) or np.isnan(d).any():
                return f"{k}: NaN pattern differs"
            tol = 1e-9 * max(1.0, mag) ** 2
            if float(d.max()) > tol:
                return f"{k}: max |d| = {d.max():.3e} > {tol:.3e}"
    return None


def case_oracle(case):
    spec, choices = case["spec"], case["policy"]
    info = {}
    with warnings.catch_warnings():
        warnings.simplefilter("ignore")
        import pytato as pt
        from pytato.transform.einsum_distributive_law import (
            apply_distributive_property_to_einsums,
        )
        try:
            prog = build_pt(spec, with_tags=False)
        except Exception as e:  # noqa: BLE001
            return Failure("build-exception", f"{type(e).__name__}: {e}",
                           exc_site(e)), info
        if case.get("exact_all"):
            # (enumerated cases whose point is wrap-around / rounding in a
            # narrow dtype, which the error model refuses to follow: both
            # sides are evaluated by the same NumPy-semantics evaluator and
            # must agree exactly)
            ref = None
        else:
            try:
                ref = reference(spec, prog)
            except Skip as s:
                info["skip"] = str(s)
                return None, info
        g = pt.transform.deduplicate(prog.dict_of_named_arrays())
        env = dict(input_values(spec))
        exact = {k: bool(ref is None or (ref[i] is not None and ref[i].exact))
                 for k, i in spec["outputs"]}
        try:
            v0, m0 = evaluate(g, env)
        except Exception as e:  # noqa: BLE001 (a broken graph is a finding)
            return Failure("original-uninterpretable", str(e), "refeval"), info
        es = einsums_of(g)
        info["n_einsum"] = len(es)
        if not es:
            info["skip"] = "no einsum in program"
            return None, info
        info["distributed"] = sum(1 for c in choices[:len(es)] if c >= 0)
        # --- distributive law
        try:
            g1 = apply_distributive_property_to_einsums(
                g, make_policy(es, choices))
        except RuntimeError as e:
            if "Cannot distribute composed einsums" in str(e):
                info["refused"] = True
                g1 = None
            else:
                return Failure("distribute-exception", f"RuntimeError: {e}",
                               exc_site(e)), info
        except Exception as e:  # noqa: BLE001
            return Failure("distribute-exception", f"{type(e).__name__}: {e}",
                           exc_site(e)), info
        if g1 is not None:
            try:
                v1, m1 = evaluate(g1, env)
            except Exception as e:  # noqa: BLE001 (a broken graph is a finding)
                return Failure("distributed-uninterpretable", str(e),
                               "refeval"), info
            msg = close(v0, v1, exact, max(m0, m1))
            if msg:
                return Failure("distribute-changed-value", msg,
                               "apply_distributive_property_to_einsums"), info
            info["changed"] = reflect.structure(g1) != reflect.structure(g)
        # --- no-broadcast rewrite
        try:
            g2 = pt.rewrite_einsums_with_no_broadcasts(g)
        except Exception as e:  # noqa: BLE001
            return Failure("nobroadcast-exception", f"{type(e).__name__}: {e}",
                           exc_site(e)), info
        try:
            v2, m2 = evaluate(g2, env)
        except Exception as e:  # noqa: BLE001 (a broken graph is a finding)
            return Failure("nobroadcast-uninterpretable", str(e),
                           "refeval"), info
        msg = close(v0, v2, exact, max(m0, m2))
        if msg:
            return Failure("nobroadcast-changed-value", msg,
                           "rewrite_einsums_with_no_broadcasts"), info
        for e in einsums_of(g2):
            ln = {}
            for descrs, a in zip(e.access_descriptors, e.args):
                for d, s in zip(descrs, a.shape):
                    ln[d] = max(ln.get(d, 0), int(s))
            for descrs, a in zip(e.access_descriptors, e.args):
                for d, s in zip(descrs, a.shape):
                    if int(s) == 1 and ln[d] != 1:
                        return Failure("nobroadcast-left-broadcast",
                                       f"operand axis of length 1 against "
                                       f"{ln[d]}",
                                       "rewrite_einsums_with_no_broadcasts"
                                       ), info
        info["changed_nb"] = reflect.structure(g2) != reflect.structure(g)
    return None, info


def _outputs_through_contractions(spec, vals):
    """make sure the outputs depend on the contractions generated (the
    generic output choice may pick unrelated sinks)."""
    from pvf.ptbuild import node_refs
    nodes = spec["nodes"]
    con = {i for i, n in enumerate(nodes)
           if n["op"] in ("einsum", "matmul", "dot", "vdot")}
    if not con:
        return spec
    dep = set(con)
    used = set()
    for i, n in enumerate(nodes):
        refs = node_refs(n)
        used.update(refs)
        if any(r in dep for r in refs):
            dep.add(i)
    have = {i for _, i in spec["outputs"]}
    if have & dep:
        return spec
    sinks = [i for i in sorted(dep) if i not in used
             and isinstance(vals[i].a, np.ndarray)]
    tgt = sinks[-1] if sinks else max(con)
    spec = dict(spec)
    spec["outputs"] = [[spec["outputs"][0][0], tgt]] + [
        o for o in spec["outputs"][1:]]
    return spec


@st.composite
def cases(draw):
    cfg = progen.GenCfg(
        dtypes=("int32", "int64", "float64", "complex128", "bool"),
        p_nan=0.0, p_zero=0.05, p_complex=0.15, max_len=4, max_size=256,
        max_outputs=2, only_sink_outputs=True, outputs_may_be_inputs=False,
        phases=((0, 4, GROUPS_TREE), (1, 2, GROUPS_CONTRACT),
                (0, 3, GROUPS_TREE), (0, 1, GROUPS_CONTRACT)))
    spec, vals = draw(progen.programs(cfg))
    spec = _outputs_through_contractions(spec, vals)
    spec = gc(spec)
    # one entry per einsum in reflective topological order: -1 = do not
    # distribute, i = DoDistribute(i mod number of operands)
    policy = [draw(st.sampled_from([-1, 0, 0, 1, 1, 2])) for _ in range(6)]
    return {"spec": spec, "policy": policy}, vals


def mixed_dtype_gadgets():
    """A @ (x +- y) with A, x of a narrow dtype whose products do not fit it
    (int8/uint8/int16: wrap-around, float32: rounding) and y of a wider one:
    the sum - and so the contraction - is carried out in the wide dtype;
    distributing would contract A with x in the narrow one."""
    big = {"int8": [100, 90, -100, 77, 100, 95, 99, -98, 100],
           "uint8": [200, 190, 250, 177, 200, 195, 199, 198, 255],
           "int16": [300, 290, -300, 277, 300, 295, 299, -298, 300],
           "float32": [4097, 4099, -4097, 4101, 4097, 4103, 4099, -4101, 4097]}
    for narrow, wide in (("int8", "int64"), ("int8", "int32"),
                         ("int8", "float64"), ("uint8", "int64"),
                         ("int16", "int64"), ("int16", "float64"),
                         ("float32", "float64"), ("float32", "complex128")):
        for op, swap, first in itertools.product(("add", "sub"), (0, 1), (0, 1)):
            def ph(name, d, shape, values):
                if d.startswith("complex"):
                    values = [[v, 0] for v in values]
                return {"op": "placeholder", "p": {
                    "name": name, "dtype": d, "shape": shape, "scale": 0,
                    "values": values}}
            nodes = [ph("A", narrow, [3, 3], big[narrow]),
                     ph("x", narrow, [3], big[narrow][:3]),
                     ph("y", wide, [3], [1, 2, 3]),
                     {"op": op, "args": [["n", 2], ["n", 1]] if swap
                      else [["n", 1], ["n", 2]]}]
            if first:
                nodes.append({"op": "einsum", "p": {"spec": "j,ij->i"},
                              "args": [["n", 3], ["n", 0]]})
            else:
                nodes.append({"op": "einsum", "p": {"spec": "ij,j->i"},
                              "args": [["n", 0], ["n", 3]]})
            yield {"spec": {"nodes": nodes, "outputs": [["out0", 4]]},
                   "policy": [0 if first else 1]}


def narrow_operand_gadgets():
    """A @ (x * c), A @ (x + z), A @ (-x) with x (and z) of a NARROW dtype in
    which the operation wraps / rounds, and A of a wider one: the einsum
    widens what the narrow operation produced; distributed, it would widen
    x first"""
    big = {"int8": [100, 90, -100], "uint8": [200, 190, 250],
           "int16": [30000, 29000, -30000],
           "float32": [16777215, 16777213, -16777215]}
    for narrow, wide in (("int8", "int64"), ("int8", "float64"),
                         ("uint8", "int32"), ("int16", "int64"),
                         ("float32", "float64"), ("float32", "complex128")):
        def ph(name, d, shape, values):
            if d.startswith("complex"):
                values = [[v, 0] for v in values]
            return {"op": "placeholder", "p": {
                "name": name, "dtype": d, "shape": shape, "scale": 0,
                "values": values}}
        for how, first in itertools.product(("mul3", "rmul3", "add", "sub"),
                                            (0, 1)):
            if how == "sub" and narrow.startswith("uint"):
                # (the evaluator spells x - z as x + (-1)*z, which NumPy 2
                # refuses for an unsigned z)
                continue
            nodes = [ph("A", wide, [2, 3], [1, 2, 3, -1, 1, 2]),
                     ph("x", narrow, [3], big[narrow]),
                     ph("z", narrow, [3], big[narrow][::-1])]
            if how == "mul3":
                nodes.append({"op": "mul", "args": [["n", 1], ["py", 3]]})
            elif how == "rmul3":
                nodes.append({"op": "mul", "args": [["py", 3], ["n", 1]]})
            else:
                nodes.append({"op": how, "args": [["n", 1], ["n", 2]]})
            if first:
                nodes.append({"op": "einsum", "p": {"spec": "j,ij->i"},
                              "args": [["n", 3], ["n", 0]]})
            else:
                nodes.append({"op": "einsum", "p": {"spec": "ij,j->i"},
                              "args": [["n", 0], ["n", 3]]})
            yield {"spec": {"nodes": nodes, "outputs": [["out0", 4]]},
                   "policy": [0 if first else 1], "exact_all": True}


def nested_reshape_gadgets():
    """(B @ (x1 + x2)) reshaped twice (orders C/F mixed), transposed twice
    (non-commuting permutations) or rolled, then contracted again: the
    mapper rebuilds the movement nodes above a distributed einsum"""
    def ph(name, shape, values):
        return {"op": "placeholder", "p": {"name": name, "dtype": "float64",
                                           "shape": shape, "scale": 0,
                                           "values": values}}
    base = [ph("B", [6, 3], list(range(1, 19))), ph("x1", [3], [1, -2, 3]),
            ph("x2", [3], [5, 7, -1]),
            {"op": "add", "args": [["n", 1], ["n", 2]]},
            {"op": "einsum", "p": {"spec": "ij,j->i"},
             "args": [["n", 0], ["n", 3]]}]
    for o1, o2 in (("F", "C"), ("C", "F"), ("F", "F"), ("C", "C")):
        nodes = list(base) + [
            {"op": "reshape", "args": [["n", 4]],
             "p": {"shape": [2, 3], "order": o1}},
            {"op": "reshape", "args": [["n", 5]],
             "p": {"shape": [3, 2], "order": o2}},
            ph("w", [2], [2, -3]),
            {"op": "einsum", "p": {"spec": "ij,j->i"},
             "args": [["n", 6], ["n", 7]]}]
        for pol in ([1, -1], [1, 0], [-1, 0]):
            yield {"spec": {"nodes": nodes, "outputs": [["out0", 8]]},
                   "policy": pol}
    for p1, p2 in itertools.permutations(
            [[1, 2, 0], [0, 2, 1], [2, 0, 1], [1, 0, 2]], 2):
        nodes = list(base) + [
            {"op": "reshape", "args": [["n", 4]],
             "p": {"shape": [1, 2, 3], "order": "C"}},
            {"op": "transpose", "args": [["n", 5]], "p": {"axes": p1}},
            {"op": "transpose", "args": [["n", 6]], "p": {"axes": p2}},
            {"op": "sum", "args": [["n", 7]], "p": {"axis": None}}]
        yield {"spec": {"nodes": nodes, "outputs": [["out0", 7], ["out1", 8]]},
               "policy": [1]}
        # ... and the same two transposes INSIDE the distributed operand
        shp = [2, 3, 4]
        s1 = [shp[a] for a in p1]
        s2 = [s1[a] for a in p2]
        n = 24
        nodes = [ph("y1", shp, [(7 * i) % 11 - 5 for i in range(n)]),
                 ph("y2", shp, [(5 * i) % 13 - 6 for i in range(n)]),
                 {"op": "add", "args": [["n", 0], ["n", 1]]},
                 {"op": "transpose", "args": [["n", 2]], "p": {"axes": p1}},
                 {"op": "transpose", "args": [["n", 3]], "p": {"axes": p2}},
                 ph("w", [s2[-1]], [2, -3, 1, 4][:s2[-1]]),
                 {"op": "einsum", "p": {"spec": "abc,c->ab"},
                  "args": [["n", 4], ["n", 5]]}]
        yield {"spec": {"nodes": nodes, "outputs": [["out0", 6]]},
               "policy": [0]}


def run_shard(shard: int, nshards: int, seed: int, tier: str) -> ShardResult:
    pl = plan(tier)
    res = ShardResult()

    def body(cv):
        case, vals = cv
        f, info = case_oracle(case)
        res.evaluations += 1
        if "skip" in info:
            res.skip(info["skip"][:60])
            return
        res.count(f"einsums:{info.get('n_einsum')}")
        for key in ("refused", "changed", "changed_nb"):
            if info.get(key):
                res.count(key)
        if info.get("distributed"):
            res.count("policy_distributes")
        if info.get("changed") or info.get("changed_nb"):
            res.nontrivial.add(spec_hash(case))
        res.sample(case)
        if f is not None:
            res.fail(f, case)

    hyp_run(cases(), body, seed, pl["examples"])
    for k, case in enumerate(itertools.chain(mixed_dtype_gadgets(),
                                             narrow_operand_gadgets(),
                                             nested_reshape_gadgets())):
        if k % nshards == shard:
            res.count("mixed_dtype_gadget")
            body((case, None))
    return res


def replay(case) -> Failure | None:
    f, _ = case_oracle(case)
    return f


def minimize(case, fj):
    from pvf.minimize import minimize_spec
    key = fj["kind"] + "|" + fj.get("where", "")

    def still(s):
        f = replay({"spec": s, "policy": case["policy"]})
        return f is not None and f.key() == key
    small = minimize_spec(case["spec"], still, budget=60)
    best = {"spec": small, "policy": case["policy"]}
    f = replay(best)
    return best, (f.to_json() if f is not None else fj)
