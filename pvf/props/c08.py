"""C08 - partitioned distributed execution terminates and is faithful under
every schedule."""
from __future__ import annotations

import json
import warnings

import numpy as np

from pvf import distgen, distsim
from pvf.oracle import Failure, exc_site
from pvf.refeval import RefOutOfBounds, RefUnsupported
from pvf.runner import ShardResult, hyp_run

ID = "C08"
LEVEL = "exploration"
RULE = (
    "multi-rank programs from pvf/distgen.py: 1..4 ranks, a global plan of 0..6 "
    "messages emitted in data-flow order (acyclic by construction) following a "
    "drawn pattern {ring, dependent ring, star out/in/both, chain, two sends "
    "to one peer (optionally the same array), ping-pong, forwarding of a bare "
    "receive, 2-rank exchange, random}; payloads are inputs, computed arrays, "
    "arrays computed from receives or receives themselves; send holders are "
    "buried in the graph or stapled to outputs; outputs may be inputs or bare "
    "receives; ImplStored on ~10% of all nodes incl. receives; bodies: "
    "+ - * max/min, reductions, index/reshape/transpose/roll/stack/"
    "concatenate/broadcast over exact int32/int64/float64 data; communication "
    "tags are ints, strings, tuples, frozensets, frozen dataclasses, classes. "
    "Each rank: deduplicate -> find_distributed_partition -> "
    "number_distributed_tags -> execute_distributed_partition under the "
    "simulated MPI (pvf/shim), part programs = reference evaluator closures. "
    "Schedules: DFS over the choice tree of the partial-order-reduced "
    "scheduler (which rank's Waitsome returns next x which non-empty subset "
    "of its completable receives) - exhaustive when the tree has <= the leaf "
    "budget - else budget leaves + seeded random schedules (half without "
    "reduction) ; always 4 fixed adversarial policies without reduction. "
    "Oracle per schedule: no deadlock/livelock, no exception, output names "
    "and bit-identical values vs. the reference evaluator on the "
    "unpartitioned global graph (itself cross-checked against NumPy; a "
    "sample also with every part compiled by loopy+gcc), no read "
    "of a name absent from the executor's context, no input name left in the "
    "context, no message left unmatched/unconsumed.  non-trivial = >= 2 "
    "ranks, >= 2 messages, >= 2 parts on some rank and >= 2 distinct "
    "schedules (global event orders) explored; distinct by program JSON")
ASSUMPTIONS = [
    "each rank's graph is passed through pt.transform.deduplicate first "
    "(mappers reject graphs with structurally equal duplicate nodes; the "
    "documented precondition used throughout this framework)",
    "MPI is simulated: rendezvous sends, non-overtaking matching per "
    "(source, destination, tag), Waitsome may return any non-empty subset of "
    "the completable requests; collectives pickle their arguments",
    "partial-order reduction: only the timing of Waitsome returns can "
    "influence a rank (all other MPI calls return timing-independent values "
    "and only ever add posted messages), see pvf/shim/mpi4py/MPI.py",
    "part programs are reference-evaluator closures called with the "
    "BoundProgram calling convention; pyopencl.array.to_device is replaced "
    "by a host copy.  For a sample (every 15th program quick, every 10th "
    "thorough) every part is additionally sent through pt.generate_loopy (C "
    "target), gcc and executed natively under one schedule; that sub-check "
    "counts only when the same expressions compile and run correctly "
    "unpartitioned (class compiled_parts:*)",
    "verify_distributed_partition is not called here (C09 checks it), so a "
    "defect there does not mask execution defects",
    "send and receive shapes/dtypes always agree (generator invariant)",
]


def plan(tier: str) -> dict:
    if tier == "thorough":
        return {"shards": 16, "examples": 1000, "max_leaves": 3000,
                "n_random": 200, "compiled_every": 10}
    return {"shards": 16, "examples": 90, "max_leaves": 300, "n_random": 40,
            "compiled_every": 15}


# {{{ oracle for one execution

def _first_real_exc(sim):
    for r, e in enumerate(sim.excs):
        if e is not None and type(e).__name__ not in ("PeerAborted",
                                                      "DeadlockError"):
            return r, e
    for r, e in enumerate(sim.excs):
        if e is not None:
            return r, e
    return None, None


def check_exec(out, model, builds, partitions) -> Failure | None:
    sim = out.sim
    r, e = _first_real_exc(sim)
    if sim.deadlock is not None and (e is None or type(e).__name__ in (
            "PeerAborted", "DeadlockError")):
        # (a deadlock that follows from a rank's own exception is reported
        # as that exception, below)
        kind = "deadlock" if sim.deadlock.get("kind") == "deadlock" \
            else "livelock"
        return Failure(kind, json.dumps(sim.deadlock, default=str)[:900],
                       "execute_distributed_partition")
    if e is not None:
        name = type(e).__name__
        tb = sim.tracebacks[r] or ""
        site = exc_site(e)
        ctx = out.contexts[r]
        if isinstance(e, KeyError) and ctx.log:
            ev = ctx.log[-1]
            return Failure("read-of-missing-name",
                           f"rank {r}: executor reads '{ev[1]}' which is not "
                           f"in its context ({ev[2]})", site)
        if name in ("PartInputMissing", "PartInputMismatch"):
            return Failure("part-input", str(e), name)
        if name == "PartHasCommNode":
            return Failure("comm-node-in-part", str(e), "name_to_output")
        if isinstance(e, AssertionError) and "execute.py" in tb and (
                "assert count == 0" in tb or "not in context" in tb):
            return Failure("refcount", f"rank {r}: executor's final reference "
                           f"count assertion failed\n{tb[-300:]}", site)
        if name == "LivelockError":
            return Failure("livelock", f"rank {r}: {e}", site)
        return Failure("execute-exception", f"rank {r}: {name}: {str(e)[:300]}",
                       site or name)
    for b in builds:
        r = b.rank
        got = out.outputs[r]
        want = model[r]
        if not isinstance(got, dict) or sorted(got) != sorted(want):
            return Failure("output-names", f"rank {r}: returned "
                           f"{sorted(got) if isinstance(got, dict) else got!r},"
                           f" expected {sorted(want)}", "names")
        for k in sorted(want):
            g, w = np.asarray(got[k]), want[k]
            if g.shape != w.shape or g.dtype != w.dtype:
                return Failure("output-type", f"rank {r} '{k}': got "
                               f"{g.dtype}{g.shape}, reference "
                               f"{w.dtype}{w.shape}", "value")
            if g.tobytes() != w.tobytes() and not np.array_equal(
                    g, w, equal_nan=g.dtype.kind in "fc"):
                return Failure("output-value", f"rank {r} '{k}': got "
                               f"{g.ravel()[:6].tolist()}, reference "
                               f"{w.ravel()[:6].tolist()}", "value")
        ctx = out.contexts[r].child
        if ctx is not None:
            input_names = set()
            for p in partitions[r].parts.values():
                input_names |= set(p.user_input_names)
                input_names |= set(p.partition_input_names)
            left = sorted(nm for nm in input_names if nm in ctx
                          and nm not in partitions[r].overall_output_names)
            if left:
                return Failure("refcount", f"rank {r}: input names {left} are "
                               "still in the executor's context at the end",
                               "context")
    lo = sim.leftover
    if lo["sends"] or lo["recvs"] or lo["matched_uncompleted_recvs"]:
        return Failure("leftover-messages", json.dumps(lo, default=str)[:400],
                       "execute_distributed_partition")
    return None

# }}}


def reference(case, builds):
    """-> (model, skip reason | None); the NumPy values are left in
    ``reference.vals`` for the sampled generated-code check."""
    reference.vals = None
    try:
        model = distsim.model_outputs(builds)
    except (distsim.ModelError, RefUnsupported, RefOutOfBounds) as e:
        return None, f"model: {type(e).__name__}: {str(e)[:60]}"
    try:
        vals = distgen.eval_np_case(case)
    except Exception as e:  # noqa: BLE001
        return None, f"numpy reference: {type(e).__name__}: {str(e)[:60]}"
    for r, s in enumerate(case["ranks"]):
        for k, i in s["outputs"]:
            a, b = model[r][k], vals[r][i].a
            if a.shape != b.shape or a.dtype != b.dtype \
                    or not np.array_equal(a, b, equal_nan=True):
                return None, ("reference evaluator and NumPy disagree on the "
                              f"unpartitioned graph ({s['nodes'][i]['op']})")
    reference.vals = vals
    return model, None


def compiled_check(case, builds, partitions, model, vals):
    """generate_code_for_partition-equivalent: every part through
    pt.generate_loopy (C target) + gcc, one execution.  A failure counts only
    if the same expressions compile and run correctly *unpartitioned* (what
    loopy cannot do at all is C01's business).  -> (Failure | None, status)"""
    from pvf import cexec
    try:
        lc = distsim.local_case(case, vals)
        lvals = distgen.eval_np_case(lc)
        for b, s in zip(distgen.build_case(lc), lc["ranks"]):
            knl = cexec.generate_and_compile(b.outputs)
            bound = getattr(knl.bp, "bound_arguments", {}) or {}
            res = knl(**{k: v for k, v in b.inputs.items()
                         if k in knl.kernel.arg_dict and k not in bound})
            for k, i in s["outputs"]:
                w = lvals[b.rank][i].a
                if res[k].shape != w.shape or not np.array_equal(
                        res[k], w, equal_nan=True):
                    return None, "baseline-mismatch"
    except cexec.HarnessError:
        raise
    except Exception as e:  # noqa: BLE001
        return None, f"baseline-fails:{type(e).__name__}"
    try:
        prgs = [distsim.CompiledPrograms(b.rank, p)
                for b, p in zip(builds, partitions)]
    except cexec.HarnessError:
        raise
    except Exception as e:  # noqa: BLE001
        if "cache collision detected" in str(e) and "InputGatherer" in str(e):
            # generate_loopy strips ImplStored from every output *name*
            # separately; one stored array under two names (which parts have
            # routinely: 'out0' and '_pt_dist_id_N') then collides with its
            # own copy.  A code generation defect with or without partitioning
            # (pt.generate_loopy({"a": e, "b": e}) with e ImplStored); no
            # verdict here.
            return None, "no-verdict:generate_loopy-two-names-ImplStored"
        return Failure("part-codegen", "the unpartitioned expressions compile "
                       "and run, but a part does not: "
                       f"{type(e).__name__}: {str(e)[:300]}",
                       f"{type(e).__name__}|{exc_site(e)}"), "fail"
    out = distsim.execute_compiled(builds, partitions, prgs)
    f = check_exec(out, model, builds, partitions)
    if f is not None:
        f.kind = "compiled-" + f.kind
        return f, "fail"
    return None, "ok"


def partition_failure(po, what="partition") -> Failure | None:
    if po.all_done():
        return None
    if po.sim.deadlock is not None:
        return Failure(f"{what}-deadlock",
                       json.dumps(po.sim.deadlock, default=str)[:600], what)
    r, e = _first_real_exc(po.sim)
    stage = po.ranks[r].stage
    return Failure(f"{stage}-exception",
                   f"rank {r} in {stage}: {type(e).__name__}: {str(e)[:300]}",
                   f"{stage}|{exc_site(e)}")


def explore_execution(case, builds, partitions, model, *, max_leaves, n_random,
                      seed, info):
    cache: dict = {}

    def run_once(chooser, por):
        return distsim.execute_all(builds, partitions, chooser, por=por,
                                   cache=cache)
    if case.get("schedule"):
        sc = case["schedule"]
        out = run_once(distsim.ListChooser(sc["choices"]), sc["por"])
        f = check_exec(out, model, builds, partitions)
        if f is not None:
            f.extra["schedule"] = sc
            return f
    ex = distsim.Explorer(run_once, max_leaves=max_leaves, n_random=n_random,
                          seed=seed)
    for sched, out in ex:
        f = check_exec(out, model, builds, partitions)
        if f is not None:
            f.extra["schedule"] = sched
            info["schedules"] = ex.runs
            return f
    info.update(schedules=ex.runs, distinct=len(ex.identities),
                exhaustive=ex.exhaustive, leaves=ex.leaves,
                depth=ex.max_depth)
    return None


def case_oracle(case, *, max_leaves=300, n_random=40, seed=1,
                compiled=False):
    """-> (Failure | None, info)"""
    info: dict = {}
    distsim.install()
    with warnings.catch_warnings():
        warnings.simplefilter("ignore")
        try:
            builds = distgen.build_case(case)
        except Exception as e:  # noqa: BLE001
            return Failure("build-exception", f"{type(e).__name__}: {e}",
                           exc_site(e)), info
        model, skip = reference(case, builds)
        if skip:
            info["skip"] = skip
            return None, info
        po = distsim.partition_all(builds, do_verify=False)
        f = partition_failure(po)
        if f is not None:
            return f, info
        partitions = [r.numbered for r in po.ranks]
        info["parts"] = [len(p.parts) for p in partitions]
        f = explore_execution(case, builds, partitions, model,
                              max_leaves=max_leaves, n_random=n_random,
                              seed=seed, info=info)
        if f is None and (compiled or case.get("compiled")):
            f, info["compiled"] = compiled_check(case, builds, partitions,
                                                 model, reference.vals)
        return f, info


def _bucket(n: int) -> str:
    for lim in (1, 2, 4, 8, 16, 64, 256, 1024, 4096):
        if n <= lim:
            return f"<={lim}"
    return ">4096"


def record(res: ShardResult, case, info, feats=None) -> dict:
    """class distribution + non-triviality, shared with C09."""
    f = feats or distgen.features(case)
    res.count(f"ranks:{f['ranks']}")
    res.count(f"messages:{f['messages']}")
    res.count(f"rounds:{f['rounds']}")
    res.count(f"pattern:{case.get('pattern')}")
    for k in ("ring", "ring3", "star", "chain3", "two_sends_one_peer",
              "send_depends_on_recv", "forward_bare_recv", "recv_only_via_send",
              "output_is_input", "output_is_recv", "same_array_sent_twice",
              "send_of_input", "payload_via_holder_value", "impl_stored", "impl_stored_recv",
              "zero_size_message", "same_tag_two_pairs"):
        if f.get(k):
            res.count("has:" + k)
    for tk in f["tag_kinds"]:
        res.count("tagkind:" + tk)
    if "parts" in info:
        res.count(f"max_parts:{max(info['parts'])}")
    return f


def run_shard(shard: int, nshards: int, seed: int, tier: str) -> ShardResult:
    pl = plan(tier)
    res = ShardResult()
    res.extra["schedules_total"] = 0
    res.extra["programs_exhaustive"] = 0
    res.extra["programs_sampled"] = 0
    res.extra["exhaustive_scope"] = (
        "schedules, per program: every leaf of the reduced choice tree when it "
        f"has <= {pl['max_leaves']} leaves (programs_exhaustive), else "
        f"{pl['max_leaves']} leaves + {pl['n_random']} random schedules "
        "(programs_sampled); programs themselves are sampled")

    k = [0]

    def body(case):
        k[0] += 1
        f, info = case_oracle(case, max_leaves=pl["max_leaves"],
                              n_random=pl["n_random"],
                              seed=seed % (2 ** 31),
                              compiled=k[0] % pl["compiled_every"] == 0)
        res.evaluations += 1
        if "compiled" in info:
            res.count("compiled_parts:" + info["compiled"])
        if "skip" in info:
            res.skip(info["skip"][:80])
            return
        feats = record(res, case, info)
        if "schedules" in info:
            res.extra["schedules_total"] += info["schedules"]
        if "exhaustive" in info:
            res.extra["programs_exhaustive" if info["exhaustive"]
                      else "programs_sampled"] += 1
            res.count("schedules:" + _bucket(info["distinct"]))
            res.count("exhaustive:" + ("yes" if info["exhaustive"] else "no"))
            if feats["ranks"] >= 2 and feats["messages"] >= 2 \
                    and max(info["parts"]) >= 2 and info["distinct"] >= 2:
                res.nontrivial.add(distgen.case_hash(case))
                res.sample(case)
        if f is not None:
            c = dict(case)
            if f.extra.get("schedule"):
                c["schedule"] = f.extra["schedule"]
            if f.kind.startswith(("part-codegen", "compiled-")):
                c["compiled"] = True
            res.fail(f, c)

    hyp_run(distgen.cases(), body, seed, pl["examples"])
    return res


def replay(case) -> Failure | None:
    f, _ = case_oracle(case, max_leaves=600, n_random=40, seed=1)
    return f


def minimize(case, fj):
    key = fj["kind"] + "|" + fj.get("where", "")

    def still(c):
        f, _ = case_oracle(c, max_leaves=120, n_random=10, seed=1)
        return f is not None and f.key() == key
    sched = case.get("schedule")
    base = {k: v for k, v in case.items() if k != "schedule"}
    if not still(base):
        base = case
    small = distgen.minimize_case(base, still,
                                  budget=30 if case.get("compiled") else 70)
    f, _ = case_oracle(small, max_leaves=300, n_random=20, seed=1)
    if f is None and sched is not None:
        small = case
        f, _ = case_oracle(small)
    if f is not None and f.extra.get("schedule"):
        small = dict(small)
        small["schedule"] = f.extra["schedule"]
    return small, (f.to_json() if f is not None else fj)


def _forward_pred(case, failure) -> bool:
    base = {k: v for k, v in case.items() if k not in ("schedule", "hash_seeds")}
    return distsim.forwards_bare_recv(base)


def _holder_leak_pred(case, failure) -> bool:
    base = {k: v for k, v in case.items() if k not in ("schedule", "hash_seeds")}
    return distsim.holder_payload_dep_leak(base)


KNOWN_PREDICATES = {"forward_bare_recv": _forward_pred,
                    "holder_payload_dep_leak": _holder_leak_pred}
