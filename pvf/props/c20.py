"""C20 - graph analyses agree with the graph and with each other."""
from __future__ import annotations

import collections
import warnings

import numpy as np
from hypothesis import strategies as st

from pvf import graphs, reflect
from pvf.oracle import Failure, exc_site
from pvf.props.c13 import _dup_among, cases as c13_cases, graph_of
from pvf.ptbuild import spec_hash
from pvf.runner import ShardResult, hyp_run

ID = "C20"
LEVEL = "exploration"
RULE = ("C13's graph space (ladders, diamonds, every-edge-kind graphs with "
        "symbolic shapes, grammar graphs over every node kind incl. functions,"
        " loopy calls and distributed nodes; with and without structural "
        "duplicates; 1..5 outputs), plus drawn ImplStored/user tags.  Oracle: "
        "a reflective edge list E over dataclass fields.  (1) get_list_of_users"
        " lists v under u once per edge u->v of E and DirectPredecessorsGetter"
        "(v) is the set of such u: the two are converse (send payloads are the"
        " documented exception of the users collector); get_nusers is the list"
        " length; (2) rec_get_user_nodes(g, u) is the reflective ancestor set;"
        " (3) TopoSortMapper lists every array after everything it depends on;"
        " (4) get_num_nodes / get_node_type_counts / get_node_multiplicities "
        "equal the numbers of distinct nodes (by ==) or objects (by id) of the"
        " caller's namespace plus function definitions; (5) get_num_tags_of_"
        "type equals the number of distinct nodes carrying the tags; (6) "
        "collect_materialized_nodes lies between the documented lower bound "
        "(inputs, receives, send payloads, call and loopy-call bindings, "
        "ImplStored nodes, outputs if asked) and upper bound (plus the kinds "
        "materialised by type: CSR products, loopy/call results).  non-trivial"
        " = >= 1 node with >= 2 users; distinct by graph description")
RULE += '  Round-4 additions: a DistributedRecv with a symbolic shape whose size parameter is reachable only through it.  An edge through a COMPUTED shape (Roll, AxisPermutation: no field) that both relations leave out keeps them converse and is accepted.'
ASSUMPTIONS = [
    "edges through CSRMatrix objects are contracted (the matrix is not an "
    "array expression); the edge holder->send is not a data-flow edge "
    "(documented in ListOfUsersCollector)",
    "on graphs with structural duplicates users/predecessors are compared per"
    " equality class (the analyses key their results by ==)",
]


DEFERRED_CLASSES = {"container", "dict-value", "derived-shape"}


def plan(tier: str) -> dict:
    if tier == "thorough":
        return {"shards": 16, "examples": 250}
    return {"shards": 16, "examples": 30}


def _arrayish(n) -> bool:
    import pytato as pt
    return isinstance(n, (pt.Array, pt.array.AbstractResultWithNamedArrays))


def dataflow_edges(g):
    """[(parent, label, child, klass)] over the caller's namespace, CSRMatrix
    contracted; klass in {operand, shape, index, container, dict-value,
    send-payload, function, ...}"""
    import pytato as pt
    from pytato import array as A
    from pytato.distributed.nodes import (
        DistributedSend,
        DistributedSendRefHolder,
    )
    from pytato.function import Call, FunctionDefinition, NamedCallResult
    from pytato.loopy import LoopyCallResult
    res = []
    nodes = reflect.walk(g, into_functions=False, into_slices=False)
    for n in nodes.values():
        if not _arrayish(n):
            continue
        for path, ch in reflect.children(n, into_functions=False,
                                         into_slices=False):
            field = path[0]
            if isinstance(ch, A.CSRMatrix):
                for p2, c2 in reflect.children(ch):
                    res.append((n, ("matrix", *p2), c2, "operand"))
                continue
            if isinstance(ch, DistributedSend):
                res.append((n, ("send", "data"), ch.data, "send-payload"))
                continue
            if isinstance(ch, FunctionDefinition):
                continue
            if field in ("shape", "newshape"):
                klass = "shape"
            elif field == "indices":
                klass = "index"
            elif field == "_container":
                klass = "container"
            elif field == "_data":
                klass = "dict-value"
            else:
                klass = "operand"
            res.append((n, path, ch, klass))
        # derived shapes: array-valued components of a computed .shape
        if isinstance(n, pt.Array) and not any(
                f in ("shape", "newshape") for f, _ in reflect.fields_of(n)):
            try:
                for i, d in enumerate(n.shape):
                    # (only components that are nodes of the graph: a symbolic
                    # slice length is a fresh expression on every access)
                    if isinstance(d, pt.Array) and id(d) in nodes:
                        res.append((n, ("shape*", i), d, "derived-shape"))
            except Exception:  # noqa: BLE001
                pass
    return res


def case_oracle(case):
    info = {}
    with warnings.catch_warnings():
        warnings.simplefilter("ignore")
        import pytato as pt
        import pytato.analysis as an
        import pytato.transform as T
        from pytato.function import Call, FunctionDefinition
        try:
            g, ginfo = graph_of(case)
            g = _tagged(g, case.get("tag_picks", []))
        except Exception as e:  # noqa: BLE001
            return Failure("build-exception", f"{type(e).__name__}: {e}",
                           exc_site(e)), info
        top = [n for n in reflect.walk(g, into_functions=False,
                                       into_slices=False).values()
               if _arrayish(n)]
        dup = _dup_among(top)
        info["dup"] = dup
        top_ids = {id(n) for n in top}
        top_set = set()
        if dup:
            for n in top:
                try:
                    top_set.add(n)
                except Exception:  # noqa: BLE001
                    pass
        E = dataflow_edges(g)
        info["max_users"] = max(collections.Counter(
            id(c) for _, _, c, k in E).values(), default=0)

        def eqclass(n):
            return n if dup else id(n)

        # ---------------- (1) users vs predecessors
        try:
            users = an.get_list_of_users(g)
            nusers = an.get_nusers(g)
        except Exception as e:  # noqa: BLE001
            return Failure("analysis-exception", f"get_list_of_users: "
                           f"{type(e).__name__}: {e}", "get_list_of_users|"
                           + exc_site(e)), info
        got_users = collections.Counter()
        for u, lst in users.items():
            for v in lst:
                got_users[(eqclass(u), eqclass(v))] += 1
        pg = an.ListOfDirectPredecessorsGetter()
        got_preds = collections.Counter()
        for v in top:
            try:
                for u in pg(v):
                    if id(u) not in top_ids:
                        continue      # a freshly computed shape expression
                    got_preds[(eqclass(u), eqclass(v))] += 1
            except Exception as e:  # noqa: BLE001
                return Failure("analysis-exception", f"DirectPredecessorsGetter"
                               f"({type(v).__name__}): {type(e).__name__}: {e}",
                               f"predecessors|{type(v).__name__}"), info
        # the set-valued getter agrees with the list-valued one, with and
        # without function definitions
        for inc in (False, True):
            lg = an.ListOfDirectPredecessorsGetter(include_functions=inc)
            sg = an.DirectPredecessorsGetter(include_functions=inc)
            for v in top:
                try:
                    a_, b_ = lg(v), sg(v)
                except Exception:  # noqa: BLE001
                    continue
                if {id(x) for x in a_} != {id(x) for x in b_} and (
                        frozenset(a_) != frozenset(b_)):
                    return Failure(
                        "predecessor-getters-disagree",
                        f"{type(v).__name__}: DirectPredecessorsGetter("
                        f"include_functions={inc}) gives "
                        f"{sorted(type(x).__name__ for x in b_)}, the list "
                        f"getter {sorted(type(x).__name__ for x in a_)}",
                        "predecessors|" + type(v).__name__), info
        want = collections.Counter()
        klass_of = {}
        for p, path, c, klass in E:
            key = (eqclass(c), eqclass(p))
            want[key] += 1
            klass_of.setdefault(key, klass)
        # users side (send payloads are the documented exception)
        deferred = None
        for key in set(want) | set(got_users):
            klass = klass_of.get(key, "no-such-edge")
            w = want.get(key, 0)
            if klass == "send-payload" and want.get(key, 0) == sum(
                    1 for p, _, c, k in E
                    if (eqclass(c), eqclass(p)) == key and k == "send-payload"):
                w = 0
            elif klass_of.get(key) is not None:
                w = sum(1 for p, _, c, k in E
                        if (eqclass(c), eqclass(p)) == key
                        and k != "send-payload")
            if got_users.get(key, 0) != w:
                kinds = sorted({k for p, _, c, k in E
                                if (eqclass(c), eqclass(p)) == key}) or [klass]
                if set(kinds) == {"derived-shape"} and not got_users.get(
                        key, 0) and not got_preds.get(key, 0):
                    # a computed shape is no field of the node (Roll,
                    # AxisPermutation): both relations leave the edge out,
                    # which keeps them converse to each other
                    info["derived_shape_in_neither"] = info.get(
                        "derived_shape_in_neither", 0) + 1
                    continue
                if set(kinds) <= DEFERRED_CLASSES and got_users.get(
                        key, 0) == 0 and got_preds.get(key, 0) == want.get(
                            key, 0):
                    # listed findings (the predecessor getter has the edge,
                    # the users collector does not): keep checking
                    deferred = deferred or Failure(
                        "users-not-converse-of-predecessors",
                        f"edge class {kinds}: u is a direct predecessor of v "
                        f"but v is not listed as a user of u",
                        "users|" + "+".join(kinds))
                    info.setdefault("deferred_classes", set()).update(kinds)
                    continue
                return Failure("users-disagree-with-graph",
                               f"edge class {kinds}: get_list_of_users lists "
                               f"the user {got_users.get(key, 0)} time(s), the "
                               f"graph has {w} such reference(s)",
                               "users|" + "+".join(kinds)), info
        for key in set(want) | set(got_preds):
            kinds = sorted({k for p, _, c, k in E
                            if (eqclass(c), eqclass(p)) == key}) or [
                                "no-such-edge"]
            if kinds == ["derived-shape"] and not got_preds.get(key, 0) \
                    and not got_users.get(key, 0):
                continue
            if got_preds.get(key, 0) != want.get(key, 0):
                return Failure("predecessors-disagree-with-graph",
                               f"edge class {kinds}: predecessor getter lists "
                               f"it {got_preds.get(key, 0)} time(s), the graph "
                               f"has {want.get(key, 0)} such reference(s)",
                               "predecessors|" + "+".join(kinds)), info
        for u, lst in users.items():
            if nusers[u] != len(lst):
                return Failure("nusers-not-list-length", "get_nusers", "nusers"
                               ), info
        # ---------------- (2) transitive users
        parents = collections.defaultdict(set)
        for p, path, c, klass in E:
            if klass == "send-payload":
                continue          # the holder does not use the payload
            parents[id(c)].add(id(p))
        byid = {id(n): n for n in top}
        if not dup and not any(isinstance(n, (Call,)) for n in top):
            for u in top[:: max(1, len(top) // 6)]:
                anc = set()
                stack = [id(u)]
                while stack:
                    k = stack.pop()
                    for q in parents.get(k, ()):
                        if q not in anc:
                            anc.add(q)
                            stack.append(q)
                try:
                    got = T.rec_get_user_nodes(g, u)
                except Exception as e:  # noqa: BLE001
                    return Failure("analysis-exception", f"rec_get_user_nodes:"
                                   f" {type(e).__name__}: {e}",
                                   "rec_get_user_nodes|" + exc_site(e)), info
                got_ids = {id(x) for x in got if _arrayish(x)}
                if got_ids != anc:
                    extra = [type(byid[i]).__name__ for i in got_ids - anc
                             if i in byid]
                    miss = [type(byid[i]).__name__ for i in anc - got_ids]
                    return Failure("transitive-users-wrong",
                                   f"rec_get_user_nodes({type(u).__name__}): "
                                   f"missing {miss[:3]}, extra {extra[:3]}",
                                   "rec_get_user_nodes|" + (
                                       "missing:" + miss[0] if miss else
                                       "extra:" + (extra[0] if extra else "?"))
                                   ), info
        # ---------------- (3) topological order
        try:
            tm = T.TopoSortMapper()
            tm(g)
            order = tm.topological_order
        except Exception as e:  # noqa: BLE001
            return Failure("analysis-exception", f"TopoSortMapper: "
                           f"{type(e).__name__}: {e}", "toposort"), info
        pos = {}
        for i, n in enumerate(order):
            if id(n) in pos:
                return Failure("toposort-duplicate", f"{type(n).__name__} "
                               "listed twice", "toposort"), info
            pos[id(n)] = i
        for n in top:
            if isinstance(n, pt.Array) and id(n) not in pos:
                return Failure("toposort-missing", f"{type(n).__name__} not "
                               "in the order", "toposort"), info
        for p, path, c, klass in E:
            if klass == "derived-shape":
                continue
            if isinstance(p, pt.Array) and isinstance(c, pt.Array):
                if pos[id(c)] > pos[id(p)]:
                    return Failure("toposort-violates-edge",
                                   f"{type(p).__name__} before its {klass} "
                                   f"{type(c).__name__}", "toposort|" + klass
                                   ), info
        # ---------------- (4) counts
        fdefs = [n for n in reflect.walk(
            g, into_slices=False,
            stop=lambda n: isinstance(n, FunctionDefinition)).values()
            if isinstance(n, FunctionDefinition)]
        countable = [n for n in top if not isinstance(
            n, pt.DictOfNamedArrays)]
        body_nodes = []
        for fd in fdefs:
            for n in reflect.walk(list(fd.returns.values()),
                                  into_slices=False).values():
                if _arrayish(n) and not isinstance(n, pt.DictOfNamedArrays):
                    body_nodes.append(n)

        def distinct(ns):
            seen = {}
            k = 0
            for n in ns:
                try:
                    h = hash(n)
                except Exception:  # noqa: BLE001
                    k += 1
                    continue
                if not any(m == n for m in seen.get(h, [])):
                    seen.setdefault(h, []).append(n)
                    k += 1
            return k
        try:
            n_uni = an.get_num_nodes(g, count_duplicates=False)
            n_all = an.get_num_nodes(g, count_duplicates=True)
            tcounts = an.get_node_type_counts(g, count_duplicates=True)
            mult = an.get_node_multiplicities(g)
        except Exception as e:  # noqa: BLE001
            return Failure("analysis-exception", f"node counts: "
                           f"{type(e).__name__}: {e}", "counts|" + exc_site(e)
                           ), info
        want_all = {len({id(n) for n in countable}) + len({id(f) for f in fdefs}
                                                          ) + extra
                    for extra in {0, len({id(n) for n in body_nodes})}}
        if n_all not in want_all:
            return Failure("num-nodes-wrong", f"get_num_nodes(count_duplicates"
                           f"=True) = {n_all}, graph has {sorted(want_all)} "
                           "objects (without/with function bodies)",
                           "get_num_nodes|objects"), info
        want_uni = {distinct(countable) + distinct(fdefs),
                    distinct(countable + body_nodes) + distinct(fdefs),
                    distinct(countable) + distinct(fdefs) + distinct(body_nodes)}
        if n_uni not in want_uni:
            return Failure("num-nodes-wrong", f"get_num_nodes(count_duplicates"
                           f"=False) = {n_uni}, graph has {sorted(want_uni)} "
                           "distinct nodes", "get_num_nodes|distinct"), info
        if sum(tcounts.values()) != n_all:
            return Failure("type-counts-inconsistent", "sum of "
                           "get_node_type_counts != get_num_nodes",
                           "get_node_type_counts"), info
        want_t = collections.Counter(type(n) for n in {
            id(n): n for n in countable + fdefs}.values())
        for t, c in want_t.items():
            lo = c
            hi = c + sum(1 for n in {id(n): n for n in body_nodes}.values()
                         if type(n) is t)
            if not (lo <= tcounts.get(t, 0) <= hi):
                return Failure("type-count-wrong", f"{t.__name__}: "
                               f"{tcounts.get(t, 0)} reported, {lo}..{hi} in "
                               "the graph", "get_node_type_counts|"
                               + t.__name__), info
        for n, m in mult.items():
            pool = countable + fdefs + body_nodes
            w = len({id(x) for x in pool if type(x) is type(n) and x == n})
            w_top = len({id(x) for x in countable + fdefs
                         if type(x) is type(n) and x == n})
            if m not in (w, w_top):
                return Failure("multiplicity-wrong", f"{type(n).__name__}: "
                               f"{m} reported, {w_top} (or {w} with function "
                               "bodies) equal objects in the graph",
                               "get_node_multiplicities"), info
        # ---------------- (4b) call sites: every Call object, those inside
        # function bodies included, each function object walked once -
        # on the graph as built and on its deduplicated form (where equal
        # definitions have become one shared object)
        variants = [("as built", g)]
        try:
            variants.append(("deduplicated", T.deduplicate(g)))
        except Exception:  # noqa: BLE001
            pass
        for label, gv in variants:
            want_calls = len({id(n) for n in reflect.walk(
                gv, into_slices=False).values() if isinstance(n, Call)})
            try:
                got_calls = an.get_num_call_sites(gv)
            except Exception as e:  # noqa: BLE001
                return Failure("analysis-exception", f"get_num_call_sites: "
                               f"{type(e).__name__}: {e}",
                               "get_num_call_sites|" + exc_site(e)), info
            if got_calls != want_calls:
                return Failure("call-sites-wrong",
                               f"get_num_call_sites ({label}) = {got_calls}, "
                               f"the graph holds {want_calls} Call objects",
                               "get_num_call_sites"), info
            info["call_sites"] = max(info.get("call_sites", 0), want_calls)
        # ---------------- (5) tag counts
        from pvf.usertags import PvfTag
        if not any(isinstance(n, Call) for n in top):
            for tt in (pt.tags.ImplStored, PvfTag,
                       (pt.tags.ImplStored, PvfTag)):
                tset = frozenset(tt if isinstance(tt, tuple) else (tt,))
                try:
                    got = an.get_num_tags_of_type(g, tt)
                except NotImplementedError:
                    break
                except ValueError as e:
                    if dup and "collision" in str(e):
                        break      # documented: needs a duplicate-free graph
                    return Failure("analysis-exception", f"get_num_tags_of_type"
                                   f": ValueError: {e}", "tagcount"), info
                except Exception as e:  # noqa: BLE001
                    return Failure("analysis-exception", f"get_num_tags_of_type"
                                   f": {type(e).__name__}: {e}",
                                   "tagcount|" + exc_site(e)), info
                w = distinct([n for n in top if isinstance(n, pt.Array)
                              and tset <= {type(t) for t in n.tags}])
                if got != w:
                    return Failure("tag-count-wrong", f"{sorted(t.__name__ for t in tset)}: {got} "
                                   f"reported, {w} distinct tagged nodes",
                                   "get_num_tags_of_type"), info
        # ---------------- (6) materialised nodes
        from pytato.distributed.nodes import (
            DistributedRecv,
            DistributedSendRefHolder,
        )
        from pytato.function import NamedCallResult
        from pytato.loopy import LoopyCall, LoopyCallResult
        for include_outputs in (True, False):
            try:
                got = an.collect_materialized_nodes(
                    g, include_outputs=include_outputs)
            except Exception as e:  # noqa: BLE001
                return Failure("analysis-exception", f"collect_materialized_"
                               f"nodes: {type(e).__name__}: {e}",
                               "materialized|" + exc_site(e)), info
            lower = []
            for n in top:
                if isinstance(n, (pt.array.InputArgumentBase, DistributedRecv)):
                    lower.append(n)
                elif isinstance(n, pt.Array) and n.tags_of_type(
                        pt.tags.ImplStored) and not isinstance(
                            n, DistributedSendRefHolder):
                    # (a holder merely forwards its passthrough data's tags)
                    lower.append(n)
                if isinstance(n, DistributedSendRefHolder):
                    lower.append(n.send.data)
                if isinstance(n, LoopyCall):
                    lower += [b for b in n.bindings.values()
                              if isinstance(b, pt.Array)]
                if isinstance(n, Call):
                    lower += list(n.bindings.values())
            if include_outputs:
                lower += list(g._data.values())
            upper = list(lower) + [n for n in top if isinstance(
                n, (pt.array.CSRMatmul, LoopyCallResult, NamedCallResult))
                or (isinstance(n, DistributedSendRefHolder)
                    and n.tags_of_type(pt.tags.ImplStored))]
            body = body_nodes
            got_l = list(got)
            for n in lower:
                if not any(n is m or n == m for m in got_l):
                    return Failure("materialized-missing",
                                   f"{type(n).__name__} is materialised by "
                                   "definition but not reported "
                                   f"(include_outputs={include_outputs})",
                                   "materialized|missing:" + type(n).__name__
                                   ), info
            for m in got_l:
                if not any(m is n or m == n for n in upper + body):
                    return Failure("materialized-extra",
                                   f"{type(m).__name__} reported although it "
                                   "is neither an input/receive/payload/"
                                   "binding/stored node nor an output "
                                   f"(include_outputs={include_outputs})",
                                   "materialized|extra:" + type(m).__name__
                                   ), info
    return deferred, info


def _tagged(g, picks):
    """ImplStored / user tags on drawn non-input nodes (rebuilds ancestors)."""
    import pytato as pt
    from pvf.usertags import PvfTag
    if not picks:
        return g
    nodes = [n for n in reflect.topo_order(g, into_functions=False)
             if isinstance(n, pt.Array) and not isinstance(
                 n, (pt.array.InputArgumentBase, pt.array.NamedArray))
             and type(n).__name__ not in ("DistributedSendRefHolder",)]
    if not nodes:
        return g
    repl = {}
    for pick, kind in picks:
        n = nodes[min(int(pick * len(nodes)), len(nodes) - 1)]
        if id(n) in repl:
            continue
        try:
            repl[id(n)] = n.tagged(pt.tags.ImplStored() if kind == 0
                                   else PvfTag("c20") if kind == 1 else
                                   [pt.tags.ImplStored(), PvfTag("c20")])
        except Exception:  # noqa: BLE001
            continue
    try:
        return reflect.rebuild(g, repl)
    except Exception:  # noqa: BLE001
        return g


@st.composite
def cases(draw):
    case = draw(c13_cases())
    if case["kind"] == "family" and case["desc"]["family"] == "edges" \
            and "call" in case["desc"].get("kinds", []) \
            and draw(st.booleans()):
        case["desc"]["call_twice"] = True
    n = draw(st.integers(0, 3))
    case["tag_picks"] = [[draw(st.integers(0, 999)) / 1000.0,
                          draw(st.integers(0, 2))] for _ in range(n)]
    return case


def run_shard(shard: int, nshards: int, seed: int, tier: str) -> ShardResult:
    pl = plan(tier)
    res = ShardResult()

    def body(case):
        f, info = case_oracle(case)
        res.evaluations += 1
        res.count("graph:" + (case["desc"]["family"] if case["kind"] == "family"
                              else "zoo"))
        if info.get("dup"):
            res.count("with_duplicates")
        if case.get("tag_picks"):
            res.count("with_tags")
        if info.get("max_users", 0) >= 2:
            res.nontrivial.add(spec_hash(case))
        res.sample(case, limit=2)
        if f is not None:
            res.fail(f, case)

    hyp_run(cases(), body, seed, pl["examples"])
    return res


def replay(case) -> Failure | None:
    f, _ = case_oracle(case)
    return f
