"""C19 - raising an index lambda to a high-level operation never misreads it."""
from __future__ import annotations

import itertools
import operator
import warnings

import numpy as np
from hypothesis import strategies as st

from pvf.oracle import Failure, exc_site
from pvf.refeval import RefEval, RefOutOfBounds, RefUnsupported
from pvf.runner import ShardResult, hyp_run

ID = "C19"
LEVEL = "exploration"
RULE = ("(a) enumerated: every index lambda the array API produces for the "
        "listed operations - 12 arithmetic/bitwise operators, 6 comparisons, "
        "logical_and/or/not, maximum/minimum, where, 20 math functions, 6 "
        "reductions over every axis subset of shapes with <= 3 axes, full/"
        "zeros/ones, broadcast_to, astype, zeros_like/ones_like - in both "
        "operand orders, with array / 0-d array / Python scalar / NumPy scalar"
        " operands, broadcasting, and dtype pairs from {bool,int32,float32,"
        "float64,complex128}; (b) random hand-built index lambdas from a small"
        " scalar-expression grammar (permuted / offset / constant subscripts, "
        "2- and 3-operand sums and products, nested casts, conditionals, calls,"
        " reductions with zero and non-zero lower bounds over any subset of "
        "the subscript positions).  Oracle: the result is a HighLevelOp whose "
        "NumPy interpretation on the identified operands (cast to the index "
        "lambda's dtype) equals the pointwise value of the index lambda, or "
        "UnknownIndexLambdaExpr/NotImplementedError; API-produced lambdas of "
        "the listed kinds must be recognised; any other exception fails.  "
        "non-trivial = classified (not 'unknown') with >= 1 element, or a "
        "near-miss that must be refused; distinct by the canonical text of "
        "the index lambda and its operand shapes/dtypes")
RULE += '  Round-4 additions: NaN / +-inf fills; reductions over axes whose length is a NumPy integer; hand-built reductions with a declared but unused bound or with one reduction variable on two axes (diagonal); logical/bitwise operations with 1, 2 and 3 operands.'
ASSUMPTIONS = [
    "the NumPy interpretation of a HighLevelOp casts its result - and, for "
    "arithmetic operators and where, its operands - to the index lambda's "
    "declared dtype (raising deliberately drops casts; the lambda's dtype is "
    "known to every caller): classification is checked, not precision",
    "tolerance 1e-12 (float64) / 1e-5 (float32) relative between NumPy's "
    "vectorised and scalar evaluation of the same function",
    "pointwise evaluator pvf/refeval.py",
]


def plan(tier: str) -> dict:
    if tier == "thorough":
        return {"shards": 16, "examples": 2500, "full_enum": True}
    return {"shards": 16, "examples": 600, "full_enum": True}


# {{{ NumPy interpretation of a HighLevelOp

def _np_binop():
    from pytato.raising import BinaryOpType as B
    return {
        B.ADD: np.add, B.SUB: np.subtract, B.MULT: np.multiply,
        B.LOGICAL_OR: np.logical_or, B.LOGICAL_AND: np.logical_and,
        B.BITWISE_OR: np.bitwise_or, B.BITWISE_AND: np.bitwise_and,
        B.BITWISE_XOR: np.bitwise_xor, B.TRUEDIV: np.true_divide,
        B.FLOORDIV: np.floor_divide, B.POWER: np.power, B.MOD: np.remainder,
        B.LESS: np.less, B.LESS_EQUAL: np.less_equal, B.GREATER: np.greater,
        B.GREATER_EQUAL: np.greater_equal, B.EQUAL: np.equal,
        B.NOT_EQUAL: np.not_equal,
    }


_C99 = {"abs": np.abs, "sin": np.sin, "cos": np.cos, "tan": np.tan,
        "asin": np.arcsin, "acos": np.arccos, "atan": np.arctan,
        "sinh": np.sinh, "cosh": np.cosh, "tanh": np.tanh, "exp": np.exp,
        "log": np.log, "log10": np.log10, "isnan": np.isnan, "sqrt": np.sqrt,
        "conj": np.conj, "real": np.real, "imag": np.imag,
        "atan2": np.arctan2}


def interpret(hlo, il, ev: RefEval) -> np.ndarray:
    import pytato as pt
    from pytato import raising as R
    from pytato import reductions as red
    shape = tuple(int(s) for s in il.shape)

    def val(x):
        if isinstance(x, pt.Array):
            return np.asarray(ev(x))
        return x

    with np.errstate(all="ignore"):
        if isinstance(hlo, R.FullOp):
            r = np.full(shape, hlo.fill_value)
        elif isinstance(hlo, R.BinaryOp):
            x1, x2 = val(hlo.x1), val(hlo.x2)
            B = R.BinaryOpType
            if hlo.binary_op in (B.ADD, B.SUB, B.MULT, B.TRUEDIV, B.FLOORDIV,
                                 B.POWER, B.MOD) and np.dtype(
                                     il.dtype).kind in "fc":
                # the operation is carried out in the lambda's dtype (raising
                # drops the casts that say so)
                x1 = np.asarray(x1).astype(il.dtype)
                x2 = np.asarray(x2).astype(il.dtype)
            r = _np_binop()[hlo.binary_op](x1, x2)
        elif isinstance(hlo, R.C99CallOp):
            r = _C99[hlo.function](*[val(a) for a in hlo.args])
        elif isinstance(hlo, R.WhereOp):
            r = np.where(val(hlo.condition),
                         np.asarray(val(hlo.then)).astype(il.dtype),
                         np.asarray(val(hlo.else_)).astype(il.dtype))
        elif isinstance(hlo, R.BroadcastOp):
            r = val(hlo.x)
            # a broadcast converts nothing: reading a type conversion as a
            # plain broadcast silently drops it
            # (judged where the lambda spells the conversion out, as every
            # API-built one does; a hand-written lambda whose dtype merely
            # differs from its binding's has no conversion to lose)
            if np.asarray(r).dtype != np.dtype(il.dtype) and "TypeCast" in repr(
                    il.expr):
                raise ValueError(
                    f"BroadcastOp of a {np.asarray(r).dtype} array for an "
                    f"index lambda of dtype {il.dtype}: a conversion is lost")
        elif isinstance(hlo, R.LogicalNotOp):
            r = np.logical_not(val(hlo.x))
        elif isinstance(hlo, R.ZerosLikeOp):
            r = np.zeros_like(val(hlo.x))
        elif isinstance(hlo, R.ReduceOp):
            axes = tuple(sorted(hlo.axes))
            x = val(hlo.x)
            fn = {red.SumReductionOperation: np.sum,
                  red.ProductReductionOperation: np.prod,
                  red.MaxReductionOperation: np.max,
                  red.MinReductionOperation: np.min,
                  red.AllReductionOperation: np.all,
                  red.AnyReductionOperation: np.any}[type(hlo.op)]
            r = fn(x, axis=axes)
        else:
            raise TypeError(f"unknown HighLevelOp {type(hlo).__name__}")
        r = np.asarray(r)
        if r.shape != shape:
            if isinstance(hlo, (R.FullOp, R.BroadcastOp)) or (
                    isinstance(hlo, (R.BinaryOp, R.WhereOp, R.C99CallOp))
                    and r.shape == ()):
                # the target shape is a parameter of fill/broadcast; an
                # all-scalar elementwise operation is filled likewise
                r = np.broadcast_to(r, shape)
            else:
                raise ValueError(f"result shape {r.shape} is not the index "
                                 f"lambda's {shape}")
        return r.astype(il.dtype)


def same(a: np.ndarray, b: np.ndarray) -> str | None:
    if a.shape != b.shape:
        return f"shape {a.shape} vs {b.shape}"
    if a.size == 0:
        return None
    if a.dtype.kind in "biu" and b.dtype.kind in "biu":
        return None if np.array_equal(a, b) else "integer values differ"
    x = a.astype(np.complex128)
    y = b.astype(np.complex128)
    nx, ny = np.isnan(x), np.isnan(y)
    if not np.array_equal(nx, ny):
        return "NaN pattern differs"
    fin = ~nx
    ix = np.isinf(x) & fin
    if not np.array_equal(ix, np.isinf(y) & fin) or not np.array_equal(
            x[ix], y[ix]):
        return "infinity pattern differs"
    fin &= ~ix
    if not fin.any():
        return None
    tol = 1e-5 if a.dtype in (np.dtype(np.float32), np.dtype(np.complex64)) \
        else 1e-12
    d = np.abs(x[fin] - y[fin])
    lim = tol * np.maximum(1.0, np.abs(x[fin]))
    if (d > lim).any():
        k = int(np.argmax(d - lim))
        return f"value {y[fin][k]} vs pointwise {x[fin][k]}"
    return None


def check_il(il, env, *, must_recognise: bool, what: str):
    """-> (Failure|None, outcome) outcome in {'unknown', class name}"""
    from pytato.diagnostic import UnknownIndexLambdaExpr
    from pytato.raising import HighLevelOp, index_lambda_to_high_level_op
    with warnings.catch_warnings():
        warnings.simplefilter("ignore")
        try:
            hlo = index_lambda_to_high_level_op(il)
        except (UnknownIndexLambdaExpr, NotImplementedError) as e:
            if must_recognise:
                return Failure("not-recognised", f"{what}: "
                               f"{type(e).__name__}: {e}", what.split(":")[0]
                               ), "unknown"
            return None, "unknown"
        except Exception as e:  # noqa: BLE001
            return Failure("raising-exception", f"{what}: {type(e).__name__}: "
                           f"{e}", f"{what.split(':')[0]}|{exc_site(e)}"), "exc"
        if not isinstance(hlo, HighLevelOp):
            return Failure("not-a-hlo", f"{what}: {type(hlo).__name__}",
                           what.split(":")[0]), "bad"
        ev = RefEval(env)
        try:
            want = np.asarray(ev(il))
        except (RefOutOfBounds, RefUnsupported) as e:
            return None, "uninterpretable:" + type(e).__name__
        except (TypeError, ValueError, OverflowError, ZeroDivisionError) as e:
            # NumPy has no such operation on these operands (complex '//',
            # integer to a negative power, ...): the index lambda has no
            # pointwise value to compare with
            return None, "uninterpretable:" + type(e).__name__
        try:
            got = interpret(hlo, il, ev)
        except Exception as e:  # noqa: BLE001
            return Failure("hlo-not-applicable", f"{what}: {type(hlo).__name__}"
                           f" cannot be applied with NumPy: {type(e).__name__}:"
                           f" {e}", f"{what.split(':')[0]}|"
                           f"{type(hlo).__name__}"), type(hlo).__name__
        msg = same(want, got)
        if msg:
            return Failure("misread", f"{what}: classified as "
                           f"{type(hlo).__name__}: {msg}",
                           f"{what.split(':')[0]}|{type(hlo).__name__}"
                           ), type(hlo).__name__
        return None, type(hlo).__name__

# }}}


# {{{ (a) API-produced index lambdas

DT = ("bool", "int32", "float32", "float64", "complex128")
VALS = {"bool": [True, False, True, True, False, False],
        "int32": [3, -2, 0, 5, -7, 1],
        "float32": [1.5, -0.25, 0.0, 2.75, -3.0, 0.1],
        "float64": [0.3, -1.25, 0.0, 2.5, -3.0, 7.0],
        "complex128": [1 + 2j, -0.5j, 0, 2.5 - 1j, -3, 0.25 + 0.25j]}


def _arr(name, dtype, shape):
    import pytato as pt
    n = int(np.prod(shape, dtype=np.int64))
    base = VALS[dtype]
    v = np.array([base[(i * 5 + len(name)) % len(base)] for i in range(n)],
                 dtype=np.dtype(dtype)).reshape(shape)
    return pt.make_placeholder(name, shape, np.dtype(dtype)), v


BIN = {"add": operator.add, "sub": operator.sub, "mul": operator.mul,
       "truediv": operator.truediv, "floordiv": operator.floordiv,
       "mod": operator.mod, "pow": operator.pow, "and": operator.and_,
       "or": operator.or_, "xor": operator.xor}
CMP = ("equal", "not_equal", "less", "less_equal", "greater", "greater_equal")
LOGIC = ("logical_and", "logical_or")
MATH1 = ("abs", "sqrt", "sin", "cos", "tan", "arcsin", "arccos", "arctan",
         "sinh", "cosh", "tanh", "exp", "log", "log10", "isnan", "real", "imag",
         "conj")
SCALARS = {"bool": [True], "int32": [2, np.int32(3)],
           "float32": [np.float32(1.5), 0.5], "float64": [2.5, np.float64(0.5)],
           "complex128": [1 + 1j]}


def api_cases(full: bool):
    """yields (label, thunk) - thunk() -> (il_or_node, env)"""
    import pytato as pt
    shapes = [((3,), (3,)), ((2, 3), (3,)), ((2, 1), (1, 3)), ((), (2,))]
    if not full:
        shapes = shapes[:3]
    dts = DT
    for opname in list(BIN) + list(CMP) + list(LOGIC) + ["maximum", "minimum"]:
        for d1, d2 in itertools.product(dts, dts):
            for s1, s2 in shapes:
                def mk(opname=opname, d1=d1, d2=d2, s1=s1, s2=s2, rev=False):
                    a, av = _arr("a", d1, s1)
                    b, bv = _arr("b", d2, s2)
                    fn = BIN.get(opname) or getattr(pt, opname)
                    return (fn(b, a) if rev else fn(a, b)), {"a": av, "b": bv}
                yield f"{opname}:{d1},{d2},{s1},{s2}", mk
                if full:
                    yield f"{opname}:rev,{d1},{d2},{s1},{s2}", \
                        (lambda mk=mk: mk(rev=True))
            for sc in SCALARS[d2]:
                for rev in (False, True):
                    def mk2(opname=opname, d1=d1, sc=sc, rev=rev):
                        a, av = _arr("a", d1, (2, 3))
                        fn = BIN.get(opname) or getattr(pt, opname)
                        return (fn(sc, a) if rev else fn(a, sc)), {"a": av}
                    yield f"{opname}:scalar,{d1},{type(sc).__name__},{rev}", mk2
    # (unit-length axes too: an axis of length 1 that is not being broadcast
    # is subscripted like any other)
    ushapes = [(2, 3), (3, 1), (1, 4), (1,), (1, 1, 1)]
    for d in dts:
        for sh in ushapes:
            def mkn(d=d, sh=sh):
                a, av = _arr("a", d, sh)
                return pt.logical_not(a), {"a": av}
            yield f"logical_not:{d},{sh}", mkn

            def mkneg(d=d, sh=sh):
                a, av = _arr("a", d, sh)
                return -a, {"a": av}
            yield f"neg:{d},{sh}", mkneg

            def mkz(d=d, sh=sh):
                a, av = _arr("a", d, sh)
                return pt.zeros_like(a), {"a": av}
            yield f"zeros_like:{d},{sh}", mkz
    for fn in MATH1:
        for d in ("float32", "float64", "complex128"):
            for sh in ushapes:
                def mkm(fn=fn, d=d, sh=sh):
                    a, av = _arr("a", d, sh)
                    return getattr(pt, fn)(a), {"a": av}
                yield f"{fn}:{d},{sh}", mkm
    for d in ("float32", "float64"):
        for sh in ushapes:
            def mka2(d=d, sh=sh):
                a, av = _arr("a", d, sh)
                b, bv = _arr("b", d, sh)
                return pt.arctan2(a, b), {"a": av, "b": bv}
            yield f"arctan2:{d},{sh}", mka2
    for dc, dx, dy in itertools.product(("bool", "int32", "float64"), dts, dts):
        for kind in ("aaa", "asa", "aas", "ass", "bcast"):
            def mkw(dc=dc, dx=dx, dy=dy, kind=kind):
                c, cv = _arr("c", dc, (2, 3) if kind != "bcast" else (2, 1))
                x, xv = _arr("x", dx, (2, 3) if kind != "bcast" else (3,))
                y, yv = _arr("y", dy, (2, 3))
                xs = SCALARS[dx][0] if kind[1] == "s" else x
                ys = SCALARS[dy][0] if kind[2] == "s" else y
                return pt.where(c, xs, ys), {"c": cv, "x": xv, "y": yv}
            yield f"where:{dc},{dx},{dy},{kind}", mkw
    redshapes = [(3,), (2, 3), (2, 1, 3)] + ([(4,), (1, 1), (2, 2, 2)]
                                             if full else [])
    for rop in ("sum", "prod", "amax", "amin", "all", "any"):
        for d in ("int32", "float64", "bool", "complex128"):
            if d == "complex128" and rop in ("amax", "amin"):
                continue
            for shp in redshapes:
                nd = len(shp)
                subsets = [None] + [tuple(c) for k in range(1, nd + 1)
                                    for c in itertools.combinations(
                                        range(nd), k)] + list(range(nd))
                for ax in subsets:
                    def mkr(rop=rop, d=d, shp=shp, ax=ax):
                        a, av = _arr("a", d, shp)
                        return getattr(pt, rop)(a, axis=ax), {"a": av}
                    yield f"{rop}:{d},{shp},{ax}", mkr
    # axis lengths given as NumPy integers (ShapeComponent admits np.integer)
    for rop in ("sum", "amax", "any"):
        for shp, ax in (((np.int64(2), 3), 0), ((np.int64(2), 3), 1),
                        ((np.int32(3), np.int64(2)), None), ((np.int64(3),), 0)):
            def mkri(rop=rop, shp=shp, ax=ax):
                a, av = _arr("a", "float64", shp)
                return getattr(pt, rop)(a, axis=ax), {"a": av}
            yield f"{rop}:npint,{tuple(int(i) for i in shp)},{ax}", mkri
    for d in dts:
        for shp in ((), (3,), (2, 0), (2, 3)):
            def mkf(d=d, shp=shp):
                return pt.full(shp, SCALARS[d][0], np.dtype(d)), {}
            yield f"full:{d},{shp}", mkf

            def mkz(d=d, shp=shp):
                return pt.zeros(shp, np.dtype(d)), {}
            yield f"zeros:{d},{shp}", mkz

            if d in ("float32", "float64", "complex128"):
                # non-finite fill values (NaN is its own scalar primitive)
                for fv in ("nan", "inf", "-inf"):
                    def mkfn(d=d, shp=shp, fv=fv):
                        return pt.full(shp, np.dtype(d).type(float(fv)),
                                       np.dtype(d)), {}
                    yield f"full:{fv},{d},{shp}", mkfn

            def mko(d=d, shp=shp):
                return pt.ones(shp, np.dtype(d)), {}
            yield f"ones:{d},{shp}", mko
        for frm, to in (((3,), (2, 3)), ((2, 1), (2, 3)), ((), (2,)),
                        ((1, 1), (4, 2, 3)), ((2, 3), (2, 3)),
                        # (unit axes that stay unit axes)
                        ((1, 4), (3, 1, 4)), ((1,), (1,)), ((1,), (2, 1)),
                        ((2, 1, 1), (5, 2, 1, 3)), ((1, 1), (1, 1)),
                        ((3, 1), (3, 1))):
            def mkb(d=d, frm=frm, to=to):
                a, av = _arr("a", d, frm)
                return pt.broadcast_to(a, to), {"a": av}
            yield f"broadcast_to:{d},{frm},{to}", mkb
        for d2 in dts:
            def mkc(d=d, d2=d2):
                a, av = _arr("a", d, (2, 3))
                return a.astype(np.dtype(d2)), {"a": av}
            yield f"astype:{d},{d2}", mkc
    for d in ("float32", "float64", "complex128"):
        for fn in ("zeros_like", "ones_like"):
            def mkl(d=d, fn=fn):
                a, av = _arr("a", d, (2, 3))
                return getattr(pt, fn)(a), {"a": av}
            yield f"{fn}:{d}", mkl

# }}}


# {{{ (b) hand-built near misses

@st.composite
def near_miss(draw):
    """-> JSON description of an index lambda over 1..3 bindings"""
    nd = draw(st.integers(0, 3))
    shape = [draw(st.integers(1, 3)) for _ in range(nd)]
    nb = draw(st.integers(1, 3))
    binds = []
    for k in range(nb):
        bnd_nd = draw(st.integers(0, 3))
        # big enough for offsets up to +2 on every axis
        bshape = [draw(st.integers(1, 3)) + 2 for _ in range(bnd_nd)]
        binds.append({"name": draw(st.sampled_from(["_in0", "_in1", "in_0",
                                                    "in", "x"])) + (
                                                        "" if k == 0 else str(k)),
                      "shape": bshape,
                      # (no bool bindings: whether a sum over booleans
                      # counts or saturates is not defined for a hand-written
                      # lambda; the API enumeration covers booleans)
                      "dtype": draw(st.sampled_from(["int32", "float64"]))})

    def subscript(b, allow_red):
        idx = []
        for ax, n in enumerate(b["shape"]):
            kind = draw(st.sampled_from(["id", "id", "perm", "off", "zero",
                                         "red", "scaled"]))
            if kind == "red" and not allow_red:
                kind = "id"
            if nd == 0 and kind in ("id", "perm", "off", "scaled"):
                kind = "zero"
            if kind == "id":
                k = min(ax, nd - 1)
                idx.append(["v", k] if shape[k] <= n else ["c", 0])
            elif kind == "perm":
                k = draw(st.integers(0, nd - 1))
                idx.append(["v", k] if shape[k] <= n else ["c", 0])
            elif kind == "off":
                k = draw(st.integers(0, nd - 1))
                off = draw(st.integers(1, 2))
                idx.append(["o", k, off] if shape[k] + off <= n else ["c", 1])
            elif kind == "scaled":
                k = draw(st.integers(0, nd - 1))
                idx.append(["s", k, 2] if 2 * (shape[k] - 1) < n else ["c", 0])
            elif kind == "zero":
                idx.append(["c", draw(st.integers(0, n - 1))])
            else:
                idx.append(["r", draw(st.integers(0, 1))])
        return ["sub", b["name"], idx]

    def leaf(allow_red):
        r = draw(st.integers(0, 5))
        if r == 0:
            return ["const", draw(st.sampled_from([0, 1, 2, -1, 2.5, 0.5]))]
        b = draw(st.sampled_from(binds))
        if not b["shape"] and draw(st.booleans()):
            return ["var", b["name"]]
        return subscript(b, allow_red)

    def expr(depth, allow_red):
        k = draw(st.integers(0, 9)) if depth > 0 else 0
        if k <= 2:
            return leaf(allow_red)
        if k == 3:
            n = draw(st.integers(2, 3))
            return ["sum", [expr(depth - 1, allow_red) for _ in range(n)]]
        if k == 4:
            n = draw(st.integers(2, 3))
            return ["prod", [expr(depth - 1, allow_red) for _ in range(n)]]
        if k == 5:
            # value-preserving casts only (raising drops casts by design)
            return ["cast", "float64", expr(depth - 1, allow_red)]
        if k == 6:
            return ["cmp", draw(st.sampled_from(["<", "==", ">="])),
                    expr(depth - 1, allow_red), expr(depth - 1, allow_red)]
        if k == 7:
            return ["if", expr(depth - 1, allow_red), expr(depth - 1, allow_red),
                    expr(depth - 1, allow_red)]
        if k == 8:
            return ["call", draw(st.sampled_from(["sin", "abs", "exp"])),
                    expr(depth - 1, allow_red)]
        return ["sub2", expr(depth - 1, allow_red), expr(depth - 1, allow_red)]

    top = draw(st.integers(0, 3))
    if top == 0:
        # a reduction (maybe 'normal', maybe not)
        inner = expr(1, True)
        lb = draw(st.sampled_from([0, 0, 0, 1]))
        body = ["reduce", draw(st.sampled_from(["sum", "max", "any"])),
                {"_r0": [lb, 3], "_r1": [0, 3]}, inner]
        if draw(st.integers(0, 3)) == 0:
            # keep a bound no subscript uses: the reduction then also runs
            # over that variable (a sum is multiplied by its trip count)
            body.append("keep_unused")
    else:
        body = expr(2, False)
    return {"shape": shape, "dtype": draw(st.sampled_from(
        ["float64", "int32", "bool", "float32"])), "bindings": binds,
        "expr": body}


def build_near_miss(desc):
    """-> (IndexLambda, env) or raises ValueError if pytato rejects it"""
    import pymbolic.primitives as p
    import pytato as pt
    from pytato import reductions as red
    from pytato.scalar_expr import Reduce, TypeCast
    binds = {}
    env = {}
    for b in desc["bindings"]:
        arr, v = _arr(b["name"] + "_ph", b["dtype"], tuple(b["shape"]))
        binds[b["name"]] = arr
        env[b["name"] + "_ph"] = v
    used_red = set()

    def conv(e):
        t = e[0]
        if t == "const":
            return e[1]
        if t == "var":
            return p.Variable(e[1])
        if t == "sub":
            idx = []
            for i in e[2]:
                if i[0] == "v":
                    idx.append(p.Variable(f"_{i[1]}"))
                elif i[0] == "c":
                    idx.append(i[1])
                elif i[0] == "o":
                    idx.append(p.Variable(f"_{i[1]}") + i[2])
                elif i[0] == "s":
                    idx.append(p.Variable(f"_{i[1]}") * i[2])
                else:
                    used_red.add(f"_r{i[1]}")
                    idx.append(p.Variable(f"_r{i[1]}"))
            return p.Subscript(p.Variable(e[1]), tuple(idx)) if idx \
                else p.Variable(e[1])
        if t == "sum":
            return p.Sum(tuple(conv(c) for c in e[1]))
        if t == "prod":
            return p.Product(tuple(conv(c) for c in e[1]))
        if t == "nary":
            cls = {"lor": p.LogicalOr, "land": p.LogicalAnd,
                   "bor": p.BitwiseOr, "band": p.BitwiseAnd,
                   "bxor": p.BitwiseXor}[e[1]]
            return cls(tuple(conv(c) for c in e[2]))
        if t == "cast":
            return TypeCast(np.dtype(e[1]), conv(e[2]))
        if t == "cmp":
            return p.Comparison(conv(e[2]), e[1], conv(e[3]))
        if t == "if":
            return p.If(conv(e[1]), conv(e[2]), conv(e[3]))
        if t == "call":
            return p.Call(p.Variable(f"pytato.c99.{e[1]}"), (conv(e[2]),))
        if t == "sub2":
            return conv(e[1]) - conv(e[2])
        if t == "reduce":
            inner = conv(e[3])
            op = {"sum": red.SumReductionOperation,
                  "max": red.MaxReductionOperation,
                  "any": red.AnyReductionOperation}[e[1]]()
            from constantdict import constantdict
            bounds = {k: tuple(v) for k, v in e[2].items()
                      if k in used_red or (len(e) > 4 and used_red)}
            if not bounds:
                return inner
            return Reduce(inner, op, constantdict(bounds))
        raise ValueError(t)

    expr = conv(desc["expr"])
    from pytato.scalar_expr import get_dependencies
    deps = get_dependencies(expr, include_idx_lambda_indices=False)
    used = {k: v for k, v in binds.items() if k in deps}
    from pytato.array import make_index_lambda
    il = make_index_lambda(expr, used, tuple(desc["shape"]),
                           np.dtype(desc["dtype"]))
    return il, env

# }}}


def run_shard(shard: int, nshards: int, seed: int, tier: str) -> ShardResult:
    import pytato as pt
    pl = plan(tier)
    res = ShardResult()
    n_api = 0
    for k, (label, thunk) in enumerate(api_cases(pl["full_enum"])):
        if k % nshards != shard:
            continue
        with warnings.catch_warnings():
            warnings.simplefilter("ignore")
            try:
                node, env = thunk()
            except Exception:  # noqa: BLE001
                res.count("api_rejected_by_constructor")
                continue
        n_api += 1
        res.evaluations += 1
        if not isinstance(node, pt.IndexLambda):
            res.count("api_not_index_lambda")
            continue
        # (a cast is none of the operation classes raising knows: it may be
        # reported as unknown, but must not be misread)
        f, outcome = check_il(node, env,
                              must_recognise=not label.startswith("astype"),
                              what=label)
        res.count("api:" + outcome.split(":")[0])
        if f is not None:
            res.fail(f, {"api": label})
        elif outcome not in ("unknown",) and int(np.prod(
                [int(s) for s in node.shape], dtype=np.int64)) >= 1:
            res.nontrivial.add("api:" + label)
        if k % 501 == 0:
            res.sample({"api": label, "outcome": outcome})
    res.extra["api_cases"] = n_api

    def body(desc):
        res.evaluations += 1
        with warnings.catch_warnings():
            warnings.simplefilter("ignore")
            try:
                il, env = build_near_miss(desc)
            except Exception as e:  # noqa: BLE001
                res.count("near_miss_rejected_by_constructor")
                return
        f, outcome = check_il(il, env, must_recognise=False, what="hand-built")
        res.count("hand:" + outcome.split(":")[0])
        import json
        if outcome.split(":")[0] not in ("uninterpretable",):
            res.nontrivial.add("hand:" + json.dumps(desc, sort_keys=True))
        res.sample({"hand_built": desc, "outcome": outcome}, limit=4)
        if f is not None:
            res.fail(f, {"hand": desc})

    hyp_run(near_miss(), body, seed, pl["examples"])
    for k, desc in enumerate(itertools.chain(permuted_reductions(),
                                             negated_term_sums(),
                                             odd_bound_reductions(),
                                             nary_logic())):
        if k % nshards == shard:
            res.count("enumerated_hand_built")
            body(desc)
    return res


def negated_term_sums():
    """flat sums of two to four terms in which one term is (-1) * y or
    y * (-1), at every position: 'x + (-1)*y' is a subtraction only when
    nothing else is added"""
    b = [{"name": nm, "shape": [2, 3], "dtype": "float64"}
         for nm in ("x", "y", "z", "w")]

    def ref(nm):
        return ["sub", nm, [["v", 0], ["v", 1]]]
    for nterms in (2, 3, 4):
        for pos in range(nterms):
            for neg_first in (True, False):
                for const_tail in (False, True):
                    terms = []
                    for k in range(nterms):
                        t = ref("xyzw"[k])
                        if k == pos:
                            t = ["prod", [["const", -1], t] if neg_first
                                 else [t, ["const", -1]]]
                        terms.append(t)
                    if const_tail:
                        terms[-1] = ["const", 2.5] if pos != nterms - 1 \
                            else terms[-1]
                    yield {"shape": [2, 3], "dtype": "float64",
                           "bindings": b[:nterms], "expr": ["sum", terms]}


def permuted_reductions():
    """reductions over one axis of x whose remaining axes appear in the
    result in every order (and repeated), on shapes where the axis lengths
    coincide - where a positional check cannot tell x[_1, r, _0] from
    x[_0, r, _1]"""
    import itertools
    shapes = [(3, 3, 3), (2, 3, 2), (3, 2, 2), (2, 2, 3), (3, 3), (2, 3),
              (3, 2)]
    for S in shapes:
        for rpos in range(len(S)):
            if S[rpos] != 3:
                continue
            rest = [a for a in range(len(S)) if a != rpos]
            for out_nd in range(1, len(rest) + 1):
                for assign in itertools.product(range(out_nd),
                                                repeat=len(rest)):
                    if set(assign) != set(range(out_nd)):
                        continue
                    lens = {}
                    ok = True
                    for a, v in zip(rest, assign):
                        if lens.setdefault(v, S[a]) != S[a]:
                            ok = False
                    if not ok:
                        continue
                    idx = []
                    it = iter(assign)
                    for a in range(len(S)):
                        idx.append(["r", 0] if a == rpos else ["v", next(it)])
                    for op in ("sum", "max"):
                        yield {"shape": [lens[v] for v in range(out_nd)],
                               "dtype": "float64",
                               "bindings": [{"name": "x", "shape": list(S),
                                             "dtype": "float64"}],
                               "expr": ["reduce", op, {"_r0": [0, 3]},
                                        ["sub", "x", idx]]}


def nary_logic():
    """logical / bitwise operations with two and with THREE operands (the
    API only builds binary ones): three operands are not a BinaryOp"""
    b = [{"name": nm, "shape": [2, 3], "dtype": "int32"}
         for nm in ("x", "y", "z")]

    def ref(nm):
        return ["sub", nm, [["v", 0], ["v", 1]]]
    for op in ("lor", "land", "bor", "band", "bxor"):
        for dtype in ("bool",) if op in ("lor", "land") else ("int32",):
            yield {"shape": [2, 3], "dtype": dtype, "bindings": b[:2],
                   "expr": ["nary", op, [ref("x"), ref("y")]]}
            yield {"shape": [2, 3], "dtype": dtype, "bindings": b,
                   "expr": ["nary", op, [ref("x"), ref("y"), ref("z")]]}
            yield {"shape": [2, 3], "dtype": dtype, "bindings": b,
                   "expr": ["nary", op, [ref("x"), ["const", 1], ref("z")]]}
            yield {"shape": [2, 3], "dtype": dtype, "bindings": b[:1],
                   "expr": ["nary", op, [ref("x")]]}


def odd_bound_reductions():
    """reductions that are 'normal' except that (a) a further bound is
    declared that no subscript uses - the reduction then runs over it too -
    or (b) one reduction variable subscripts two axes (a diagonal)"""
    for op in ("sum", "max", "any"):
        for S, idx, shape in (
                ((2, 3), [["v", 0], ["r", 0]], [2]),
                ((3, 2), [["r", 0], ["v", 0]], [2]),
                ((3,), [["r", 0]], []),
                ((2, 3, 2), [["v", 0], ["r", 0], ["v", 1]], [2, 2])):
            for extra in ([0, 2], [0, 3], [0, 1], [1, 3]):
                yield {"shape": shape, "dtype": "float64",
                       "bindings": [{"name": "x", "shape": list(S),
                                     "dtype": "float64"}],
                       "expr": ["reduce", op, {"_r0": [0, 3], "_r1": extra},
                                ["sub", "x", idx], "keep_unused"]}
        for S, idx, shape in (
                ((3, 3), [["r", 0], ["r", 0]], []),
                ((3, 3, 2), [["r", 0], ["r", 0], ["v", 0]], [2]),
                ((2, 3, 3), [["v", 0], ["r", 0], ["r", 0]], [2]),
                ((3, 2, 3), [["r", 0], ["v", 0], ["r", 0]], [2])):
            yield {"shape": shape, "dtype": "float64",
                   "bindings": [{"name": "x", "shape": list(S),
                                 "dtype": "float64"}],
                   "expr": ["reduce", op, {"_r0": [0, 3]}, ["sub", "x", idx]]}


def replay(case) -> Failure | None:
    import pytato as pt
    with warnings.catch_warnings():
        warnings.simplefilter("ignore")
        if "api" in case:
            for label, thunk in api_cases(True):
                if label == case["api"]:
                    node, env = thunk()
                    if not isinstance(node, pt.IndexLambda):
                        return None
                    f, _ = check_il(node, env, must_recognise=True, what=label)
                    return f
            return None
        il, env = build_near_miss(case["hand"])
        f, _ = check_il(il, env, must_recognise=False, what="hand-built")
        return f
