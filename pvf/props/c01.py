"""C01 - code generated for the loopy target computes what NumPy computes."""
from __future__ import annotations

from pvf import progen
from pvf.minimize import minimize_spec
from pvf.oracle import Failure, c01_case
from pvf.ptbuild import gc, spec_hash
from pvf.runner import ShardResult, hyp_run

ID = "C01"
LEVEL = "exploration"
RULE = ("programs drawn from the value-directed grammar (pvf/progen.py: all "
        "operations of the C01 fragment, 0..4 axes of length 0..5, six dtypes, "
        "1..3 outputs, arbitrary sharing, ~10% NaN-mode, ~12% with a zero-length"
        " axis); each is built with pytato, deduplicated, lowered by "
        "generate_loopy to C, compiled with gcc and executed; non-trivial = "
        ">= 2 operation nodes with at least one operation consuming another "
        "operation's result; distinct = distinct canonical JSON of the program")
ASSUMPTIONS = [
    "loopy's C target + gcc stand in for the OpenCL target (no OpenCL platform)",
    "the harness target adds the HUGE_VAL/INFINITY/LONG_* type-inference "
    "symbols loopy's OpenCL target has and its plain C target lacks",
    "float comparison: bit-exact when the reference is computed without "
    "rounding, otherwise |got-ref| <= 4*forward-error-bound (pvf/npref.py)",
    "float '//' and '%', complex ordering/isnan/max, casts to bool and "
    "float->int casts are outside the fragment (loopy or pytato documents "
    "them as unsupported)",
    "np.pad corners with differing per-axis constants are masked (formally "
    "undefined in NumPy)",
    "on this image every reduction is stored (is_quasi_affine is always False "
    "with loopy 2025.2), so the inlined-reduction path is not reachable",
]


def plan(tier: str) -> dict:
    if tier == "thorough":
        return {"shards": 16, "examples": 400, "max_ops": 20}
    return {"shards": 16, "examples": 30, "max_ops": 12}


def run_shard(shard: int, nshards: int, seed: int, tier: str) -> ShardResult:
    pl = plan(tier)
    res = ShardResult()
    cfg = progen.GenCfg(max_ops=pl["max_ops"])
    counter = [0]

    def body(pv):
        spec, vals = pv
        spec = gc(spec)
        counter[0] += 1
        permute = counter[0] % 5 == 0
        f, info = c01_case(spec, permute=permute)
        res.evaluations += 1
        feats = progen.features(spec, vals)
        for k, v in feats.items():
            if v:
                res.count("feat:" + k)
        for op, c in progen.op_histogram(spec).items():
            res.count("op:" + op, c)
        if info.get("permuted"):
            res.count("permuted_output_order")
        if "skip" in info:
            res.skip(info["skip"][:80])
            return
        if feats["ops>=2"] and feats["op_consumes_op"]:
            res.nontrivial.add(spec_hash(spec))
        res.sample(spec)
        if f is not None:
            res.fail(f, spec)

    hyp_run(progen.programs(cfg), body, seed, pl["examples"])
    return res


def _variant_passes(variant) -> bool:
    f, _ = c01_case(variant, permute=True)
    return f is None


TRUTH_CONTEXT = ("logical_and", "logical_or", "logical_not", "all", "any")


def _derived(case, base) -> set[int]:
    """nodes satisfying base(node), or data-movement nodes all of whose array
    operands are such nodes (they are inlined into their consumer)."""
    from pvf.progen import MOVEMENT
    res: set[int] = set()
    for i, n in enumerate(case["nodes"]):
        if base(n):
            res.add(i)
        elif n["op"] in ("sum", "prod", "amax", "amin") and n.get(
                "p", {}).get("axis") == [] and n["args"][0][1] in res:
            res.add(i)          # reduction over no axes is the identity
        elif n["op"] in MOVEMENT:
            refs = [a[1] for a in n.get("args", [])[:1] if a[0] == "n"]
            if n["op"] in ("stack", "concatenate"):
                refs = [a[1] for a in n.get("args", []) if a[0] == "n"]
                if refs and any(r in res for r in refs):
                    res.add(i)
            elif refs and all(r in res for r in refs):
                res.add(i)
    return res


def _store(case, consumer_ok, operand_set, also=None):
    """copy of *case* with every operand in *operand_set* of a consumer
    accepted by consumer_ok(node, argpos) tagged ImplStored (C07: tags carry
    no semantics), or None if nothing was tagged."""
    import copy
    import warnings
    from pvf.ptbuild import build_pt
    v = copy.deepcopy(case)
    hit = False
    # an operation may return its operand as is (sum over no axes, x.real):
    # the tag then belongs on the node that object was created by
    try:
        with warnings.catch_warnings():
            warnings.simplefilter("ignore")
            objs = build_pt(case, with_tags=False).nodes
        root = [next(j for j in range(i + 1) if objs[j] is objs[i])
                for i in range(len(objs))]
    except Exception:  # noqa: BLE001
        root = list(range(len(case["nodes"])))
    for n in v["nodes"]:
        for pos, a in enumerate(n.get("args", [])):
            if a[0] == "n" and a[1] in operand_set and consumer_ok(n, pos):
                tags = v["nodes"][root[a[1]]].setdefault("tags", [])
                if ["ImplStored"] not in tags:
                    tags.append(["ImplStored"])
                hit = True
    if also is not None:
        hit = also(v) or hit
    return v if hit else None


def _is_cmp_consumer(n, pos) -> bool:
    from pvf.npref import COMPARE
    # all/any over no axes of a non-boolean array is 'x != 0' internally
    # (maximum/minimum are where(less/greater(a, b), a, b))
    return n["op"] in COMPARE + ("all", "any", "maximum", "minimum")


def _known_cmp_of_cmp(case, failure) -> bool:
    from pvf.npref import COMPARE
    ops = _derived(case, lambda n: n["op"] in COMPARE)
    v = _store(case, _is_cmp_consumer, ops)
    return v is not None and _variant_passes(v)


def _known_cmp_of_bitwise(case, failure) -> bool:
    from pvf.npref import BITWISE
    ops = _derived(case, lambda n: n["op"] in BITWISE)
    v = _store(case, _is_cmp_consumer, ops)
    return v is not None and _variant_passes(v)


def _is_bool_const(n) -> bool:
    p = n.get("p", {})
    return n["op"] in ("zeros", "ones", "full") and (
        p.get("dtype") == "bool" or (n["op"] == "full" and "dtype" not in p
                                     and isinstance(p.get("value"), bool)))


def _known_cmp_with_bool_const(case, failure) -> bool:
    from pvf.npref import COMPARE
    consts = _derived(case, _is_bool_const)

    def lits(v):
        hit = False
        for n in v["nodes"]:
            if n["op"] in COMPARE:
                for a in n["args"]:
                    if a[0] == "py" and isinstance(a[1], bool):
                        a[1] = int(a[1])
                        hit = True
        return hit
    v = _store(case, lambda n, pos: n["op"] in COMPARE, consts, also=lits)
    return v is not None and _variant_passes(v)


def _small(x) -> bool:
    return isinstance(x, float) and 0 < abs(x) < 1


def _small_lit(a) -> bool:
    return a[0] in ("py", "np") and _small(a[-1])


def _has_small_const(n) -> bool:
    """where/maximum/minimum/pad/full whose constants include 0<|v|<1"""
    if n["op"] in ("where", "maximum", "minimum"):
        return any(_small_lit(a) for a in n.get("args", []))
    if n["op"] == "pad":
        cv = n.get("p", {}).get("constant_values")

        def flat(c):
            if isinstance(c, list):
                for q in c:
                    yield from flat(q)
            else:
                yield c
        return cv is not None and any(_small(c) for c in flat(cv))
    if n["op"] == "full":
        return _small(n["p"].get("value"))
    if n["op"] == "arange":
        return _small(n["p"].get("start")) or _small(n["p"].get("step"))
    if n["op"] in ("add", "sub", "mul", "truediv", "pow", "arctan2"):
        return any(_small_lit(a) for a in n.get("args", []))
    return False


def _known_logical_small_literal(case, failure) -> bool:
    """a truth-value context (&&, ||, !, where condition, all/any) whose
    operand is a float literal below 1 or an inlined where/pad/max/min/full
    carrying one."""
    from pvf.ptbuild import node_refs
    ops = set()
    for i, n in enumerate(case["nodes"]):
        # everything computed from such a constant may be inlined with it
        if _has_small_const(n) or any(r in ops for r in node_refs(n)):
            ops.add(i)

    def truth(n, pos):
        return n["op"] in TRUTH_CONTEXT or (n["op"] == "where" and pos == 0)

    def lits(v):
        hit = False
        for n in v["nodes"]:
            if n["op"] in ("logical_and", "logical_or"):
                for a in n["args"]:
                    if _small_lit(a):
                        a[-1] = 1.0       # same truth value
                        hit = True
        return hit
    v = _store(case, truth, ops, also=lits)
    return v is not None and _variant_passes(v)


def _known_zeros_like_literal(case, failure) -> bool:
    """failure disappears when zeros_like(x) is replaced by the equally
    valued, explicitly typed full(x.shape, 0, x.dtype)."""
    import copy

    from pvf.ptbuild import eval_np
    if not any(n["op"] == "zeros_like" for n in case["nodes"]):
        return False
    try:
        vals = eval_np(case)
    except Exception:  # noqa: BLE001
        return False
    v = copy.deepcopy(case)
    for i, n in enumerate(v["nodes"]):
        if n["op"] == "zeros_like":
            a = vals[i].a
            tags = n.get("tags")
            v["nodes"][i] = {"op": "full", "args": [],
                             "p": {"shape": list(a.shape), "value": 0,
                                   "dtype": str(a.dtype)}}
            if tags:
                v["nodes"][i]["tags"] = tags
    return _variant_passes(v)


def _known_intdiv_of_iname_if(case, failure) -> bool:
    """// or % whose operand is an inlined expression in loop indices only
    that contains a conditional (eye, where over arange, ...)."""
    from pvf.ptbuild import node_refs
    noinput: set[int] = set()
    for i, n in enumerate(case["nodes"]):
        if n["op"] in ("placeholder", "data", "sizeparam"):
            continue
        if all(r in noinput for r in node_refs(n)):
            noinput.add(i)
    v = _store(case, lambda n, pos: n["op"] in ("floordiv", "mod"), noinput)
    return v is not None and _variant_passes(v)


def _known_where_nonbool_condition(case, failure) -> bool:
    """where() with a non-boolean condition: loopy derives the type of the
    conditional from the condition as well.  The failure disappears when the
    where node is stored (its temporary has the declared dtype)."""
    from pvf.ptbuild import eval_np
    try:
        vals = eval_np(case)
    except Exception:  # noqa: BLE001
        return False
    ws = set()
    for i, n in enumerate(case["nodes"]):
        if n["op"] == "where" and n["args"][0][0] == "n" \
                and vals[n["args"][0][1]].a.dtype.kind != "b":
            ws.add(i)
    ws = _derived(case, lambda n: any(n is case["nodes"][i] for i in ws))
    v = _store(case, lambda n, pos: True, ws)
    return v is not None and _variant_passes(v)


def _known_bitwise_under_cast(case, failure) -> bool:
    """an inlined bitwise operation below a cast to a floating type: loopy
    pushes the cast into the operands ('(double)a & (double)b')."""
    from pvf.npref import BITWISE
    ops = _derived(case, lambda n: n["op"] in BITWISE)
    v = _store(case, lambda n, pos: True, ops)
    return v is not None and _variant_passes(v)


def _known_index_with_cast(case, failure) -> bool:
    """an inlined index array expression containing a cast under '%'."""
    ops = set()
    for n in case["nodes"]:
        if n["op"] == "index":
            for a in n["args"][1:]:
                if a[0] == "n":
                    ops.add(a[1])
    v = _store(case, lambda n, pos: n["op"] == "index" and pos > 0, ops)
    return v is not None and _variant_passes(v)


def _known_boundscheck_nested_conditional(case, failure) -> bool:
    """a program with a loopy call (pytato then leaves loopy's bounds check
    on) in which a conditional is inlined into the CONDITION of another one
    (where(maximum(z, z), ...)): the failure disappears when the operands
    of where / maximum / minimum that are conditionals themselves are
    stored"""
    COND = ("where", "maximum", "minimum")
    if not any(n["op"] == "call_loopy" for n in case["nodes"]):
        return False
    ops = _derived(case, lambda n: n["op"] in COND)
    v = _store(case, lambda n, pos: n["op"] in COND, ops)
    return v is not None and _variant_passes(v)


def _known_reshape_of_reshape_floordiv(case, failure) -> bool:
    """a reshape inlined into another reshape (F order into C order): the
    failure disappears when the inner reshape is stored"""
    ops = _derived(case, lambda n: n["op"] == "reshape")
    v = _store(case, lambda n, pos: n["op"] == "reshape", ops)
    return v is not None and _variant_passes(v)


KNOWN_PREDICATES = {
    "reshape_of_reshape_floordiv": _known_reshape_of_reshape_floordiv,
    "boundscheck_nested_conditional": _known_boundscheck_nested_conditional,
    "bitwise_under_cast": _known_bitwise_under_cast,
    "index_with_cast": _known_index_with_cast,
    "where_nonbool_condition": _known_where_nonbool_condition,
    "cmp_of_cmp": _known_cmp_of_cmp,
    "cmp_of_bitwise": _known_cmp_of_bitwise,
    "logical_small_literal": _known_logical_small_literal,
    "zeros_like_literal": _known_zeros_like_literal,
    "cmp_with_bool_const": _known_cmp_with_bool_const,
    "intdiv_of_iname_if": _known_intdiv_of_iname_if,
}


def replay(case) -> Failure | None:
    f, info = c01_case(case, permute=True)
    return f


def minimize(case, fj):
    key = fj["kind"] + "|" + fj.get("where", "")

    def still(s):
        f, _ = c01_case(s, permute=fj["kind"].endswith("permuted")
                        or fj["kind"] == "output-order-dependence")
        return f is not None and f.key() == key
    small = minimize_spec(case, still)
    f, _ = c01_case(small, permute=True)
    return small, (f.to_json() if f is not None else fj)
