"""C13 - cached mappers visit each node once, preserve sharing and reach every
child."""
from __future__ import annotations

import collections
import json
import warnings

import numpy as np
from hypothesis import strategies as st

from pvf import graphs, reflect
from pvf.oracle import Failure, exc_site
from pvf.ptbuild import build_pt, spec_hash
from pvf.runner import ShardResult, hyp_run
from pvf.zoo import zoo_programs

ID = "C13"
LEVEL = "exploration"
RULE = ("graphs: ladders of depth 5..60 whose rungs cycle through seven node "
        "kinds (2^depth paths), diamonds, a graph whose two shared nodes are "
        "used through every edge kind (operand, shape component, index array, "
        "slice bound, CSR part, send payload, call binding, dict value, named "
        "array, loopy binding, stack/concatenate/einsum operand) in drawn "
        "subsets, and grammar graphs over every node kind; each with and "
        "without an injected structurally-equal duplicate.  Every public "
        "mapper class and mapper-based function of the recipe table (discovered"
        " classes without a recipe are listed in the evidence) is run through "
        "a subclass that counts map_* invocations per node.  Oracle on "
        "duplicate-free graphs: every node is mapped exactly once (abort at "
        "4N+50 invocations = 'visited repeatedly'); the mapped set contains "
        "every node a reflective walk over dataclass fields reaches (minus the"
        " mapper's documented exclusions); transformations: CopyMapper()(g) is"
        " g, never more distinct objects than given, one result object per "
        "shared node; with a duplicate: mappers that promise it raise the "
        "collision error, deduplicate merges.  Substitution oracle: every "
        "placeholder / data wrapper in turn is replaced by a tagged copy "
        "through map_and_copy - the original must be gone from the whole "
        "result (every field of every node reached) and no equal-but-distinct"
        " nodes may appear; 'merge' family: mapping placeholder b to a under "
        "identical shared sub-graphs must give exactly the deduplicated graph "
        "built over a alone.  non-trivial = a node with "
        "in-degree >= 2 through >= 2 different edge kinds or >= 2^10 paths; "
        "distinct by (graph description, mapper)")
RULE += '  Round-4 additions to the edge family: a size parameter reachable ONLY through the shape of index lambdas that have operands (broadcast_to of a static array to (kb, 4)); a second call site of the very same FunctionDefinition object (fd(**args)), next to the re-traced equal definition.'
ASSUMPTIONS = [
    "invocations are counted by subclassing (wrapping every map_* attribute); "
    "mappers taking extra per-path arguments are exercised through their "
    "public function and checked for the linear call budget only",
    "documented exclusions: function bodies for TopoSortMapper/UsersCollector/"
    "ListOfUsersCollector/Reprifier (separate namespace), DistributedSend and "
    "CSRMatrix objects themselves (not array expressions; their arrays must be"
    " reached), send payloads for the users collectors' *edges* (but they must"
    " still be visited)",
]


def plan(tier: str) -> dict:
    if tier == "thorough":
        return {"shards": 16, "examples": 150}
    return {"shards": 16, "examples": 20}


class Budget(Exception):
    pass


def instrument(cls):
    """subclass of *cls* counting map_* invocations per node (class-level
    counters, so that clones made for callees share them)."""
    ns = {"_pvf_counts": collections.Counter(), "_pvf_total": [0],
          "_pvf_budget": [10**9], "_pvf_keep": []}

    def wrap(name, orig):
        def wrapper(self, expr, *a, **k):
            c = type(self)
            c._pvf_counts[id(expr)] += 1
            c._pvf_total[0] += 1
            c._pvf_keep.append(expr)
            if c._pvf_total[0] > c._pvf_budget[0]:
                raise Budget()
            return orig(self, expr, *a, **k)
        wrapper.__name__ = name
        return wrapper
    for name in dir(cls):
        if name.startswith("map_") and name != "map_foreign":
            orig = getattr(cls, name)
            if callable(orig):
                ns[name] = wrap(name, orig)
    return type("Instr" + cls.__name__, (cls,), ns)


# {{{ recipes: name -> (class getter, runner(instr_cls, g) , flags)

def _recipes():
    import pytato as pt
    import pytato.analysis as an
    import pytato.transform as T
    from pytato.codegen import NamesValidityChecker
    from pytato.transform.calls import InlineMarker, Inliner
    from pytato.transform.dead_code_elimination import DeadCodeEliminator
    R = {}

    def simple(cls, *, into_functions=True, transform=False, call=None,
               needs_dedup=True, identity=False, kwargs=None):
        return {"cls": cls, "into_functions": into_functions,
                "transform": transform, "call": call or (
                    lambda m, g: m(g)), "needs_dedup": needs_dedup,
                "identity": identity, "kwargs": kwargs or {}}

    R["CopyMapper"] = simple(T.CopyMapper, transform=True, identity=True)
    R["Deduplicator"] = simple(T.Deduplicator, transform=True, identity=True,
                               needs_dedup=False)
    R["CachedMapAndCopyMapper"] = simple(
        T.CachedMapAndCopyMapper, transform=True, identity=True,
        kwargs={"map_fn": lambda x: x})
    R["DataWrapperDeduplicator"] = simple(T.DataWrapperDeduplicator,
                                          transform=True, identity=True)
    R["DeadCodeEliminator"] = simple(DeadCodeEliminator, transform=True)
    R["InlineMarker"] = simple(InlineMarker, transform=True)
    R["Inliner"] = simple(Inliner, transform=True, needs_dedup=False)
    # (callee bodies are a separate namespace: not traversed, or traversed
    # by a fresh, uninstrumented mapper)
    R["DependencyMapper"] = simple(T.DependencyMapper, into_functions=False)
    R["InputGatherer"] = simple(T.InputGatherer, into_functions=False)
    R["ListOfInputsGatherer"] = simple(T.ListOfInputsGatherer,
                                       into_functions=False, needs_dedup=False)
    R["SizeParamGatherer"] = simple(T.SizeParamGatherer,
                                    into_functions=False)
    R["TopoSortMapper"] = simple(T.TopoSortMapper, into_functions=False,
                                 needs_dedup=False)     # caches by id()
    R["UsersCollector"] = simple(T.UsersCollector, into_functions=False)
    R["ListOfUsersCollector"] = simple(an.ListOfUsersCollector,
                                       into_functions=False, needs_dedup=False)
    R["NodeCountMapper(unique)"] = simple(an.NodeCountMapper,
                                          kwargs={"count_duplicates": False},
                                          needs_dedup=False)
    R["NodeCountMapper(dups)"] = simple(an.NodeCountMapper,
                                        kwargs={"count_duplicates": True},
                                        needs_dedup=False)
    R["NodeMultiplicityMapper"] = simple(an.NodeMultiplicityMapper,
                                         needs_dedup=False)
    R["CallSiteCountMapper"] = simple(an.CallSiteCountMapper,
                                      needs_dedup=False)
    R["TagCountMapper"] = simple(an.TagCountMapper,
                                 kwargs={"tag_types": pt.tags.ImplStored})
    R["MaterializedNodeCollector"] = simple(an.MaterializedNodeCollector,
                                            needs_dedup=False)
    R["NamesValidityChecker"] = simple(NamesValidityChecker, needs_dedup=False)
    return R


FUNCTIONS = ("get_nusers", "get_list_of_users", "get_num_nodes",
             "get_node_type_counts", "get_node_multiplicities",
             "get_num_call_sites", "get_num_tags_of_type",
             "collect_materialized_nodes", "deduplicate", "map_and_copy",
             "eliminate_dead_code", "unify_axes_tags", "materialize_with_mpms",
             "rewrite_einsums_with_no_broadcasts", "repr", "equality",
             "get_dot_graph", "rec_get_user_nodes", "tag_all_calls_to_be_inlined",
             "inline_calls", "PytatoKeyBuilder")

# }}}


def _array_like(n) -> bool:
    import pytato as pt
    from pytato.function import FunctionDefinition
    return isinstance(n, (pt.Array, pt.array.AbstractResultWithNamedArrays,
                          FunctionDefinition))


def graph_of(case):
    if case["kind"] == "family":
        return graphs.build(dict(case["desc"], no_data=bool(
            case.get("no_data"))))
    import pytato as pt
    spec = case["spec"]
    if case.get("no_data"):
        from pvf.props.c04 import _no_data
        spec = _no_data(spec)
    g = build_pt(spec).dict_of_named_arrays()
    info = {"dup": False}
    if case.get("dup"):
        g2 = build_pt(spec).dict_of_named_arrays()
        outs = dict(g._data)
        k0 = sorted(g2._data)[0]
        outs["pvf_dup"] = g2._data[k0]
        g = pt.make_dict_of_named_arrays(outs)
        info["dup"] = True
    return g, info


def has_duplicates(g) -> bool:
    from pvf.props.c05 import has_duplicates as hd
    return hd(g)


def _dup_among(nodes) -> bool:
    import pytato as pt
    seen = {}
    for n in nodes:
        if not isinstance(n, (pt.Array, pt.array.AbstractResultWithNamedArrays)):
            continue
        try:
            h = hash(n)
        except Exception:  # noqa: BLE001
            continue
        for m in seen.get(h, []):
            if m is not n and m == n:
                return True
        seen.setdefault(h, []).append(n)
    return False


def check_mapper(name, rec, g, info) -> tuple[Failure | None, dict]:
    import pytato as pt
    stats = {}
    cls = instrument(rec["cls"])
    nodes_all = {i: n for i, n in reflect.walk(
        g, into_functions=True, into_slices=False).items() if _array_like(n)}
    nodes_top = {i: n for i, n in reflect.walk(
        g, into_functions=False, into_slices=False).items() if _array_like(n)}
    via_slices = {i: n for i, n in reflect.walk(
        g, into_functions=rec["into_functions"]).items()
        if _array_like(n) and i not in nodes_all}
    from pytato.function import FunctionDefinition
    expected = nodes_all if rec["into_functions"] else {
        i: n for i, n in nodes_top.items()
        if not isinstance(n, FunctionDefinition)}
    N = len(nodes_all)
    cls._pvf_budget[0] = 4 * N + 50
    dup = has_duplicates(g)
    try:
        m = cls(**rec["kwargs"])
        result = rec["call"](m, g)
    except Budget:
        return Failure("visited-repeatedly", f"{name}: more than 4N+50 = "
                       f"{4 * N + 50} map_* invocations on a graph of {N} "
                       f"nodes", name), stats
    except ValueError as e:
        # (a mapper that is there to REMOVE duplicates has no business
        # reporting them)
        if dup and rec["needs_dedup"] and (
                "collision" in str(e) or "duplicate" in str(e)
                or type(e).__name__ == "NameClashError"):
            # (two distinct equal inputs of one name are what the names
            # checker exists to report)
            stats["collision_reported"] = True
            return None, stats
        return Failure("mapper-exception", f"{name}: ValueError: {e}",
                       f"{name}|{exc_site(e)}"), stats
    except NotImplementedError:
        stats["unsupported_kind"] = True     # documented: not every mapper
        return None, stats                   # takes every node kind
    except Exception as e:  # noqa: BLE001
        if dup and type(e).__name__ == "NameClashError":
            # two distinct equal inputs of one name are what the names
            # checker exists to report
            stats["collision_reported"] = True
            return None, stats
        return Failure("mapper-exception", f"{name}: {type(e).__name__}: {e}",
                       f"{name}|{exc_site(e)}"), stats
    counts = cls._pvf_counts
    stats["invocations"] = cls._pvf_total[0]
    from pvf.props.c05 import has_duplicates as _hd
    dup_top = dup and _dup_among(list(nodes_top.values()))
    if dup_top and rec["needs_dedup"] \
            and rec["cls"].__name__ != "DeadCodeEliminator":
        # err_on_collision is on by default: the collision between the two
        # structurally equal nodes (of one namespace; the dead-code
        # eliminator does not visit dead operands) must have been reported
        return Failure("collision-hidden", f"{name}: graph contains "
                       "structurally equal distinct nodes but no collision "
                       "was reported", name), stats
    # (one and the same object mapped twice is never right for a cached
    # mapper, duplicates in the graph or not; with duplicates at the top level
    # the collision handling above has already returned)
    if not dup_top:
        multi = [nodes_all[i] for i, c in counts.items()
                 if c > 1 and i in nodes_all]
        if multi:
            return Failure("mapped-more-than-once",
                           f"{name}: {type(multi[0]).__name__} mapped "
                           f"{counts[id(multi[0])]} times", name), stats
    missing = [n for i, n in expected.items() if counts.get(i, 0) == 0]
    if dup and missing:
        # mappers that cache by value treat structurally equal nodes as one:
        # each *distinct* node must still be mapped
        seen_eq = {}
        for i, c in counts.items():
            if c and i in nodes_all:
                try:
                    seen_eq.setdefault(hash(nodes_all[i]), []).append(
                        nodes_all[i])
                except Exception:  # noqa: BLE001
                    pass
        missing = [n for n in missing
                   if not any(n == o for o in seen_eq.get(hash(n), []))]
    if rec["cls"].__name__ == "DeadCodeEliminator":
        missing = []    # it skips the dead operands of zeros_like on purpose
    if missing:
        return Failure("child-not-reached",
                       f"{name}: {len(missing)} node(s) never mapped, e.g. "
                       f"{type(missing[0]).__name__}", f"{name}|"
                       f"{type(missing[0]).__name__}"), stats
    unreached_bounds = [n for i, n in via_slices.items()
                        if counts.get(i, 0) == 0]
    if unreached_bounds:
        return Failure("slice-bound-not-reached",
                       f"{name}: {len(unreached_bounds)} array(s) referenced "
                       f"only as a NormalizedSlice bound never mapped",
                       name), stats
    if rec["transform"]:
        if not isinstance(result, type(g)):
            return Failure("transform-result-type", f"{name}: "
                           f"{type(result).__name__}", name), stats
        n_in = len({i for i, n in reflect.walk(g).items() if _array_like(n)})
        n_out = len({i for i, n in reflect.walk(result).items()
                     if _array_like(n)})
        if n_out > n_in:
            return Failure("sharing-lost", f"{name}: {n_out} distinct nodes in "
                           f"the result, {n_in} given", name), stats
        if rec["identity"] and not dup and result is not g:
            return Failure("not-identity", f"{name}: returned a new object "
                           "although nothing changed", name), stats
    return None, stats


def check_function(fname, g, info) -> Failure | None:
    """mapper-based public functions: must finish within the linear budget
    (instrumented through the base classes' rec) and not raise."""
    import pytato as pt
    import pytato.analysis as an
    import pytato.transform as T
    dup = has_duplicates(g)
    N = len(reflect.walk(g))
    calls = [0]
    budget = 40 * N + 400

    orig_rec = T.Mapper.rec

    def counting_rec(self, expr, *a, **k):
        calls[0] += 1
        if calls[0] > budget:
            raise Budget()
        return orig_rec(self, expr, *a, **k)

    T.Mapper.rec = counting_rec
    try:
        with warnings.catch_warnings():
            warnings.simplefilter("ignore")
            if fname == "get_nusers":
                an.get_nusers(g)
            elif fname == "get_list_of_users":
                an.get_list_of_users(g)
            elif fname == "get_num_nodes":
                an.get_num_nodes(g, count_duplicates=False)
                an.get_num_nodes(g, count_duplicates=True)
            elif fname == "get_node_type_counts":
                an.get_node_type_counts(g)
            elif fname == "get_node_multiplicities":
                an.get_node_multiplicities(g)
            elif fname == "get_num_call_sites":
                an.get_num_call_sites(g)
            elif fname == "get_num_tags_of_type":
                an.get_num_tags_of_type(g, pt.tags.ImplStored)
            elif fname == "collect_materialized_nodes":
                an.collect_materialized_nodes(g)
            elif fname == "deduplicate":
                T.deduplicate(g)
            elif fname == "map_and_copy":
                T.map_and_copy(g, lambda x: x)
            elif fname == "eliminate_dead_code":
                from pytato.transform.dead_code_elimination import (
                    eliminate_dead_code,
                )
                eliminate_dead_code(g)
            elif fname == "unify_axes_tags":
                pt.unify_axes_tags(g)
            elif fname == "materialize_with_mpms":
                from pytato.transform.materialize import materialize_with_mpms
                materialize_with_mpms(g)
            elif fname == "rewrite_einsums_with_no_broadcasts":
                pt.rewrite_einsums_with_no_broadcasts(g)
            elif fname == "repr":
                for k in g.keys():
                    repr(g[k].expr)
            elif fname == "equality":
                # (data wrappers compare by identity: use placeholders)
                c2 = dict(info["case"], no_data=True)
                ga, _ = graph_of(c2)
                gb, _ = graph_of(c2)
                if not (ga == gb):
                    return Failure("rebuilt-not-equal", "equality", "equality")
            elif fname == "get_dot_graph":
                pt.get_dot_graph(g)
            elif fname == "rec_get_user_nodes":
                some = next(iter(g._data.values()))
                T.rec_get_user_nodes(g, some)
            elif fname == "tag_all_calls_to_be_inlined":
                pt.tag_all_calls_to_be_inlined(g)
            elif fname == "inline_calls":
                pt.inline_calls(pt.tag_all_calls_to_be_inlined(
                    T.deduplicate(g)))
            elif fname == "PytatoKeyBuilder":
                an.PytatoKeyBuilder()(g)
    except Budget:
        return Failure("visited-repeatedly", f"{fname}: more than {budget} "
                       f"Mapper.rec calls on a graph of {N} nodes", fname)
    except RecursionError as e:
        return Failure("function-exception", f"{fname}: RecursionError",
                       fname)
    except NotImplementedError:
        return None         # documented: not every function takes every kind
    except ValueError as e:
        if dup and ("collision" in str(e) or "duplicate" in str(e)):
            return None
        return Failure("function-exception", f"{fname}: ValueError: {e}",
                       f"{fname}|{exc_site(e)}")
    except Exception as e:  # noqa: BLE001
        return Failure("function-exception", f"{fname}: {type(e).__name__}: "
                       f"{e}", f"{fname}|{exc_site(e)}")
    finally:
        T.Mapper.rec = orig_rec
    return None


def substitution_check(g, info) -> Failure | None:
    """copying mappers reach every occurrence and keep the result free of
    equal-but-distinct nodes: every input in turn is replaced by a tagged
    copy through map_and_copy - afterwards the original must be gone from
    the whole result and no duplicates may have appeared; on the 'merge'
    family b is mapped to a and the result must be the graph built with a
    alone, with as few nodes."""
    import pytato as pt
    from pvf import reflect
    from pvf.usertags import PvfTag
    try:
        gd = pt.transform.deduplicate(g)
    except Exception:  # noqa: BLE001
        return None                      # (graphs with clashing duplicates)
    nodes = list(reflect.walk(gd, into_functions=False).values())
    # (size parameters too, unless the graph reaches one only through the
    # bound of a slice: the listed finding C13-slice-bound-arrays)
    leaves = [n for n in nodes if isinstance(n, (pt.Placeholder,
                                                 pt.DataWrapper,
                                                 pt.SizeParam))]

    def same(x, L):
        return x is L or (isinstance(L, (pt.Placeholder, pt.SizeParam))
                          and type(x) is type(L) and x == L)
    for L in leaves:
        Lt = L.tagged(PvfTag("subst"))
        try:
            r = pt.transform.map_and_copy(
                gd, lambda x, L=L, Lt=Lt: Lt if same(x, L) else x)
        except Exception as e:  # noqa: BLE001
            return Failure("substitution-exception",
                           f"map_and_copy replacing {type(L).__name__} "
                           f"'{getattr(L, 'name', None)}': "
                           f"{type(e).__name__}: {e}", exc_site(e))
        # (what hangs only on the bound of a slice is not traversed by any
        # mapper - the listed finding C13-slice-bound-arrays - and is not
        # looked at here for size parameters)
        rn = list(reflect.walk(
            r, into_functions=False,
            into_slices=not isinstance(L, pt.SizeParam)).values())
        left = [n for n in rn if same(n, L)]
        if left:
            users = [type(n).__name__ for n in rn if any(
                ch is left[0] for _, ch in reflect.children(
                    n, into_functions=False))]
            return Failure("substitution-not-applied-everywhere",
                           f"after replacing {type(L).__name__} "
                           f"'{getattr(L, 'name', None)}' everywhere the "
                           f"original is still referenced by {users[:3]}",
                           (users or ["?"])[0])
        if _dup_among(rn):
            return Failure("copy-created-duplicates",
                           f"map_and_copy replacing {type(L).__name__} "
                           f"'{getattr(L, 'name', None)}' returned equal but "
                           "distinct nodes", "map_and_copy")
    if "merge" in info:
        b, a = info["merge"]
        if b is not a:
            r = pt.transform.map_and_copy(g, lambda x: a if x == b else x)
            rn = list(reflect.walk(r).values())
            if _dup_among(rn):
                return Failure("copy-created-duplicates",
                               "mapping placeholder b to a left equal but "
                               "distinct nodes in the result (the two merged "
                               "sides are not shared)", "merge")
            want, _ = graphs.build(dict(info["case"]["desc"], merged=True))
            want = pt.transform.deduplicate(want)
            if r != want:
                return Failure("merged-graph-differs", "mapping b to a does "
                               "not give the graph built over a alone",
                               "merge")
            if len([n for n in rn if _array_like(n)]) != len(
                    [n for n in reflect.walk(want).values()
                     if _array_like(n)]):
                return Failure("copy-created-duplicates",
                               "merged graph has more nodes than the graph "
                               "built over a alone", "merge")
    return None


def case_oracle(case, res: ShardResult | None = None):
    with warnings.catch_warnings():
        warnings.simplefilter("ignore")
        try:
            g, info = graph_of(case)
        except Exception as e:  # noqa: BLE001
            return Failure("build-exception", f"{type(e).__name__}: {e}",
                           exc_site(e)), {}
        info["case"] = case
        recipes = _recipes()
        which = case.get("mappers") or sorted(recipes)
        deferred = None
        # graphs whose only duplicates are equal function definitions traced
        # separately are also walked in deduplicated form, where those
        # definitions are one shared object (the once-per-node check applies)
        variants = [g]
        if not info.get("dup"):
            try:
                import pytato as pt
                gd = pt.transform.deduplicate(g)
                if gd is not g:
                    variants.append(gd)
            except Exception:  # noqa: BLE001
                pass
        for name, gv in [(nm, v) for v in variants for nm in which]:
            f, stats = check_mapper(name, recipes[name], gv, info)
            if res is not None:
                res.count("mapper:" + name)
                if stats.get("collision_reported"):
                    res.count("collision_reported")
            if f is not None:
                if f.kind == "slice-bound-not-reached":
                    # listed finding: keep searching behind it
                    deferred = deferred or f
                    continue
                return f, info
        if not case.get("mappers") and not case.get("functions"):
            f = substitution_check(g, info)
            if res is not None:
                res.count("substitution_checks")
            if f is not None:
                return f, info
        for fname in (case.get("functions") or FUNCTIONS):
            f = check_function(fname, g, info)
            if res is not None:
                res.count("function:" + fname)
            if f is not None:
                if deferred is not None and f.kind == "function-exception":
                    # a slice with an array-valued bound (symbolic axis) can
                    # be built but not lowered; the functions that lower are
                    # outside this property for such graphs
                    if res is not None:
                        res.count("function_skipped_symbolic_slice")
                    continue
                return f, info
    return deferred, info


def nontrivial(case) -> bool:
    if case["kind"] == "family":
        d = case["desc"]
        if d["family"] == "ladder":
            return d["depth"] >= 10
        if d["family"] == "edges":
            return len(d.get("kinds", graphs.EDGE_KINDS)) >= 2
        return d.get("n", 0) >= 2
    return True


@st.composite
def cases(draw):
    kind = draw(st.sampled_from(["ladder", "ladder", "diamond", "edges", "edges",
                                 "zoo", "zoo", "merge"]))
    dup = draw(st.integers(0, 3)) == 0
    if kind == "ladder":
        return {"kind": "family", "desc": {
            "family": "ladder", "depth": draw(st.integers(5, 60)),
            "variant": draw(st.integers(0, 6)), "dup": dup,
            "second_output": draw(st.booleans())}}
    if kind == "merge":
        return {"kind": "family", "desc": {
            "family": "merge", "users": draw(st.integers(1, 4)),
            "depth": draw(st.integers(1, 4)),
            "second_output": draw(st.booleans())}}
    if kind == "diamond":
        return {"kind": "family", "desc": {"family": "diamond",
                                           "n": draw(st.integers(1, 12)),
                                           "dup": dup}}
    if kind == "edges":
        kinds = [k for k in graphs.EDGE_KINDS if draw(st.integers(0, 3)) > 0]
        return {"kind": "family", "desc": {"family": "edges",
                                           "kinds": kinds or ["operand"],
                                           "dup": dup}}
    spec = draw(zoo_programs(max_ops=10))
    return {"kind": "zoo", "spec": spec, "dup": dup}


def discovered_without_recipe() -> list[str]:
    import importlib
    import inspect
    import pkgutil

    import pytato
    import pytato.transform as T
    have = {r["cls"].__name__ for r in _recipes().values()}
    names = set()
    for m in pkgutil.walk_packages(pytato.__path__, "pytato."):
        try:
            mod = importlib.import_module(m.name)
        except Exception:  # noqa: BLE001
            continue
        for name, obj in vars(mod).items():
            if inspect.isclass(obj) and issubclass(obj, T.Mapper) \
                    and obj.__module__.startswith("pytato") \
                    and not name.startswith("_"):
                names.add(name)
    return sorted(names - have)


def run_shard(shard: int, nshards: int, seed: int, tier: str) -> ShardResult:
    pl = plan(tier)
    res = ShardResult()

    def body(case):
        f, info = case_oracle(case, res)
        res.evaluations += 1
        res.count("graph:" + (case["desc"]["family"] if case["kind"] == "family"
                              else "zoo"))
        if case.get("dup") or case.get("desc", {}).get("dup"):
            res.count("with_duplicate")
        if nontrivial(case):
            res.nontrivial.add(spec_hash(case))
        res.sample(case, limit=2)
        if f is not None:
            res.fail(f, case)

    hyp_run(cases(), body, seed, pl["examples"])
    if shard == 0:
        res.extra["mapper_classes_without_recipe"] = ", ".join(
            discovered_without_recipe())
    return res


def replay(case) -> Failure | None:
    f, _ = case_oracle(case)
    return f
