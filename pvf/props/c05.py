"""C05 - graph transformations preserve every output and never mutate their
input."""
from __future__ import annotations

import json
import warnings

import numpy as np
from hypothesis import strategies as st

from pvf import progen, reflect
from pvf.oracle import Failure, Skip, compare_values, exc_site, reference
from pvf.ptbuild import build_pt, gc, input_values, spec_hash
from pvf.refeval import RefEval, RefOutOfBounds, RefUnsupported
from pvf.runner import ShardResult, hyp_run

ID = "C05"
LEVEL = "exploration"
RULE = ("programs from the grammar built WITHOUT prior deduplication, with "
        "injected structural duplicates (20% of operation draws re-emit an "
        "existing node), zeros_like/ones_like dead references, 1..3 outputs, "
        "user/axis/ImplStored tags and data wrappers sharing one buffer; each "
        "is sent through a drawn pipeline of 1..4 of {CopyMapper, map_and_copy"
        "(identity), deduplicate, deduplicate_data_wrappers, "
        "eliminate_dead_code, materialize_with_mpms, unify_axes_tags, codegen "
        "preprocess}.  After every step: same output names/shape/dtype; values "
        "under the reference evaluator bit-identical to the original graph's "
        "(which itself must agree with NumPy); reflective fingerprint and data "
        "bytes of the step's input unchanged; T(T(g)) == T(g) for the three "
        "idempotent ones; tag-stripped fingerprints equal for the two "
        "tag-adding ones.  non-trivial = graph has sharing, a duplicate or a "
        "dead reference and >= 3 operation nodes; distinct by (program, "
        "pipeline)")
RULE += '  Round-4 addition: one pipeline in six carries a reshape gadget (axis groups of unequal lengths merged / split, Fortran or C order).  Round 5: one in eight a 4-D operand with non-contiguous / late-starting groups of advanced indices.'
ASSUMPTIONS = [
    "a transformation that raises the documented 'cache collision' / "
    "'mapper-created duplicate' ValueError on a graph that really contains "
    "structural duplicates is a rejected input; deduplicate is then applied "
    "first (counted) and the step retried",
    "values are compared under pvf/refeval.py (NumPy semantics for high-level "
    "nodes, pointwise interpreter for index lambdas)",
    "thorough tier additionally executes the final graph's generated C code "
    "for a tenth of the cases",
]

TNAMES = ("copy", "map_and_copy", "deduplicate", "deduplicate_data_wrappers",
          "eliminate_dead_code", "materialize_with_mpms", "unify_axes_tags",
          "preprocess")
IDEMPOTENT = ("deduplicate", "eliminate_dead_code", "materialize_with_mpms")
TAG_ONLY = ("materialize_with_mpms", "unify_axes_tags")


def plan(tier: str) -> dict:
    if tier == "thorough":
        return {"shards": 16, "examples": 3000, "cexec_every": 10}
    return {"shards": 16, "examples": 300, "cexec_every": 0}


def apply_transform(name: str, g):
    import pytato as pt
    from pytato.transform import CopyMapper, map_and_copy
    if name == "copy":
        return CopyMapper()(g), None
    if name == "map_and_copy":
        return map_and_copy(g, lambda x: x), None
    if name == "deduplicate":
        return pt.transform.deduplicate(g), None
    if name == "deduplicate_data_wrappers":
        return pt.transform.deduplicate_data_wrappers(g), None
    if name == "eliminate_dead_code":
        from pytato.transform.dead_code_elimination import eliminate_dead_code
        return eliminate_dead_code(g), None
    if name == "materialize_with_mpms":
        from pytato.transform.materialize import materialize_with_mpms
        return materialize_with_mpms(g), None
    if name == "unify_axes_tags":
        return pt.unify_axes_tags(g), None
    if name == "preprocess":
        from pytato.codegen import preprocess
        from pvf.cexec import c_target
        r = preprocess(g, c_target())
        return r.outputs, dict(r.bound_arguments)
    raise ValueError(name)


def has_duplicates(g) -> bool:
    nodes = list(reflect.walk(g).values())
    import pytato as pt
    seen = {}
    for n in nodes:
        if not isinstance(n, (pt.Array, pt.array.AbstractResultWithNamedArrays)):
            continue
        try:
            h = hash(n)
        except Exception:  # noqa: BLE001
            continue
        for m in seen.get(h, []):
            if m is not n and m == n:
                return True
        seen.setdefault(h, []).append(n)
    return False


def evaluate(g, env) -> dict[str, np.ndarray]:
    ev = RefEval(env)
    return {k: np.asarray(ev(g[k].expr if hasattr(g[k], "expr") else g[k]))
            for k in g.keys()}


def same_values(a: dict, b: dict) -> str | None:
    if sorted(a) != sorted(b):
        return f"output names {sorted(b)} vs {sorted(a)}"
    for k in a:
        x, y = a[k], b[k]
        if x.shape != y.shape:
            return f"{k}: shape {y.shape} vs {x.shape}"
        if x.dtype != y.dtype:
            return f"{k}: dtype {y.dtype} vs {x.dtype}"
        if not np.array_equal(x, y, equal_nan=x.dtype.kind in "fc"):
            return f"{k}: values differ"
    return None


def case_oracle(case, *, cexec: bool = False):
    """-> (Failure|None, info)"""
    spec, pipeline = case["spec"], case["pipeline"]
    info = {"dedup_inserted": 0}
    with warnings.catch_warnings():
        warnings.simplefilter("ignore")
        try:
            prog = build_pt(spec)
        except Exception as e:  # noqa: BLE001
            return Failure("build-exception", f"{type(e).__name__}: {e}",
                           exc_site(e)), info
        try:
            ref = reference(spec, prog)
        except Skip as s:
            info["skip"] = str(s)
            return None, info
        g = prog.dict_of_named_arrays()
        env = dict(input_values(spec))
        try:
            v0 = evaluate(g, env)
        except Exception as e:  # noqa: BLE001 (a broken graph is a finding)
            return Failure("original-uninterpretable", str(e), "refeval"), info
        # the original graph must mean what NumPy says (ties the reference
        # evaluator to NumPy, and the API-built index lambdas to both)
        for key, idx in spec["outputs"]:
            if ref[idx] is None or not isinstance(ref[idx].a, np.ndarray):
                continue
            from pvf.oracle import _tainted, pad_masks
            masks = pad_masks(spec, ref)
            if idx in _tainted(spec, set(masks)):
                continue
            msg = compare_values(v0[key], ref[idx])
            if msg:
                return Failure("original-vs-numpy", f"{key}: {msg}",
                               spec["nodes"][idx]["op"]), info
        info["dups"] = has_duplicates(g)
        for step, name in enumerate(pipeline):
            fp_before = reflect.fingerprint(g)
            try:
                g1, bound = apply_transform(name, g)
            except ValueError as e:
                msg = str(e)
                if ("cache collision" in msg or "mapper-created duplicate" in msg
                        or "created duplicate" in msg) and has_duplicates(g):
                    info["dedup_inserted"] += 1
                    import pytato as pt
                    try:
                        g = pt.transform.deduplicate(g)
                    except Exception as e2:  # noqa: BLE001
                        return Failure("transform-exception",
                                       f"deduplicate on a graph with "
                                       f"duplicates (inserted before step "
                                       f"{step} {name}): {type(e2).__name__}: "
                                       f"{e2}", f"deduplicate|{exc_site(e2)}"
                                       ), info
                    fp_before = reflect.fingerprint(g)
                    try:
                        g1, bound = apply_transform(name, g)
                    except Exception as e2:  # noqa: BLE001
                        return Failure("transform-exception",
                                       f"step {step} {name} (after "
                                       f"deduplicate): {type(e2).__name__}: "
                                       f"{e2}", f"{name}|{exc_site(e2)}"), info
                else:
                    return Failure("transform-exception",
                                   f"step {step} {name}: ValueError: {e}",
                                   f"{name}|{exc_site(e)}"), info
            except Exception as e:  # noqa: BLE001
                return Failure("transform-exception",
                               f"step {step} {name}: {type(e).__name__}: {e}",
                               f"{name}|{exc_site(e)}"), info
            if reflect.fingerprint(g) != fp_before:
                return Failure("input-mutated", f"step {step} {name} changed "
                               "its input graph or wrapped data", name), info
            if bound:
                for k, v in bound.items():
                    env[k] = v
            try:
                v1 = evaluate(g1, env)
            except Exception as e:  # noqa: BLE001 (a broken graph is a finding)
                return Failure("result-uninterpretable",
                               f"step {step} {name}: {e}", name), info
            msg = same_values(v0, v1)
            if msg:
                return Failure("output-changed", f"step {step} {name}: {msg}",
                               name), info
            if name in IDEMPOTENT:
                try:
                    g2, _ = apply_transform(name, g1)
                except Exception as e:  # noqa: BLE001
                    return Failure("transform-exception",
                                   f"second application of {name}: "
                                   f"{type(e).__name__}: {e}",
                                   f"{name}|{exc_site(e)}"), info
                if reflect.structure(g2) != reflect.structure(g1):
                    return Failure("not-idempotent", f"{name}(T(g)) != T(g)",
                                   name), info
            if name in TAG_ONLY:
                # (nodes that become equal through the added tags may be
                # merged: compare the unfoldings, not the sharing pattern)
                if reflect.structure(g1, strip_tags=True) != \
                        reflect.structure(g, strip_tags=True):
                    return Failure("not-tags-only", f"{name} changed more than "
                                   "tags", name), info
            g = g1
        if cexec:
            import pytato as pt
            from pvf.cexec import CodegenFailure, generate_and_compile
            try:
                knl = generate_and_compile(pt.transform.deduplicate(g))
                res = knl(**{k: v for k, v in env.items()
                             if k in knl.kernel.arg_dict
                             and k not in knl.bp.bound_arguments})
            except Exception as e:  # noqa: BLE001
                from pvf.cexec import HarnessError
                if isinstance(e, HarnessError):
                    raise
                info["cexec_exception"] = f"{type(e).__name__}: {str(e)[:100]}"
                return None, info     # C01's business (known loopy findings)
            info["cexec"] = True
            for key, idx in spec["outputs"]:
                if ref[idx] is None:
                    continue
                from pvf.oracle import _tainted, pad_masks
                if idx in _tainted(spec, set(pad_masks(spec, ref))):
                    continue
                msg = compare_values(res[key], ref[idx])
                if msg:
                    info["cexec_mismatch"] = msg   # likewise C01's business
    return None, info


def add_tags(draw, spec):
    """user tags, axis tags, ImplStored on drawn nodes; shared buffers."""
    nodes = spec["nodes"]
    share_key = 0
    first_data: dict[tuple, int] = {}
    for i, n in enumerate(nodes):
        if n["op"] == "data":
            key = (n["p"]["dtype"], tuple(n["p"]["shape"]),
                   str(n["p"]["values"]), n["p"].get("scale", 0))
            if key in first_data:
                n["p"]["share"] = first_data[key]
            else:
                first_data[key] = share_key
                n["p"]["share"] = share_key
                share_key += 1
            continue
        if n["op"] in ("placeholder", "sizeparam", "call_loopy", "item"):
            continue
        r = draw(st.integers(0, 11))
        if r == 0:
            n.setdefault("tags", []).append(["User", f"u{i % 3}"])
        elif r == 1:
            n.setdefault("tags", []).append(["Axis", 0, f"a{i % 2}"])
        elif r == 2:
            n.setdefault("tags", []).append(["ImplStored"])
        elif r == 3:
            n.setdefault("tags", []).append(["Redn", f"r{i % 2}"])
    return spec


def add_minus_one_two_gadget(draw, spec):
    """sibling nodes that differ only in a constant -1 vs -2 (in CPython
    hash(-1) == hash(-2): whatever tells them apart by hash alone, or forgets
    the constant in ==, merges them): a one-sided stencil"""
    nodes = spec["nodes"]
    k = len(nodes)
    nodes.append({"op": "placeholder", "p": {
        "name": "stencil_u", "shape": [5], "dtype": "float64", "scale": 0,
        "values": [draw(st.integers(-9, 9)) for _ in range(5)]}})
    how = draw(st.sampled_from(["roll", "sub", "both"]))
    outs = []
    if how in ("roll", "both"):
        nodes.append({"op": "roll", "args": [["n", k]],
                      "p": {"shift": -1, "axis": 0}})
        nodes.append({"op": "roll", "args": [["n", k]],
                      "p": {"shift": -2, "axis": 0}})
        nodes.append({"op": "sub", "args": [["n", len(nodes) - 2],
                                            ["n", len(nodes) - 1]]})
        outs.append(len(nodes) - 1)
    if how in ("sub", "both"):
        nodes.append({"op": "add", "args": [["n", k], ["py", -1]]})
        nodes.append({"op": "add", "args": [["n", k], ["py", -2]]})
        nodes.append({"op": "mul", "args": [["n", len(nodes) - 2],
                                            ["n", len(nodes) - 1]]})
        outs.append(len(nodes) - 1)
    spec["outputs"] = list(spec["outputs"]) + [
        [f"stencil{j}", i] for j, i in enumerate(outs)]
    return spec


def add_reshape_gadget(draw, spec):
    """a reshape that merges / splits axis groups of unequal lengths, in
    either order (the strides of Fortran order are easy to get wrong, and the
    lowering transformations are where they are computed)"""
    old, new = draw(st.sampled_from([
        ([3, 2], [6]), ([6], [2, 3]), ([2, 3, 4], [6, 4]), ([2, 3, 4], [2, 12]),
        ([4, 6], [2, 2, 3, 2]), ([2, 3, 4], [4, 3, 2]), ([12], [3, 4])]))
    order = draw(st.sampled_from(["F", "F", "C"]))
    nodes = spec["nodes"]
    k = len(nodes)
    n = 1
    for d in old:
        n *= d
    nodes.append({"op": "placeholder", "p": {
        "name": "reshape_u", "shape": old, "dtype": "float64", "scale": 0,
        "values": [draw(st.integers(-9, 9)) + 3 * i for i in range(n)]}})
    nodes.append({"op": "reshape", "args": [["n", k]],
                  "p": {"shape": new, "order": order}})
    nodes.append({"op": "mul", "args": [["n", k + 1], ["py", 2]]})
    spec["outputs"] = list(spec["outputs"]) + [["reshaped", k + 2]]
    return spec


def add_advindex_gadget(draw, spec):
    """a 4-D operand with advanced indices that are separated by slices and
    do not start on axis 0 (x[:, i, :, j], x[1:, 2, :, j], ...): the result
    axes are ordered differently from the contiguous case"""
    layout = draw(st.sampled_from([
        ("full", "arr", "full", "arr"), ("slice", "int", "full", "arr"),
        ("full", "arr", "slice", "arr2"), ("arr", "full", "arr", "full"),
        ("full", "full", "arr", "arr"), ("full", "arr", "arr", "full"),
        ("slice", "arr", "full", "int")]))
    shape = [2, 3, 2, 3]
    nodes = spec["nodes"]
    k = len(nodes)
    nodes.append({"op": "placeholder", "p": {
        "name": "adv_u", "shape": shape, "dtype": "float64", "scale": 0,
        "values": [draw(st.integers(-5, 5)) + 2 * i for i in range(36)]}})
    args = [["n", k]]
    idx = []
    for ax, kind in enumerate(layout):
        n = shape[ax]
        if kind == "full":
            idx.append(["slice", None, None, None])
        elif kind == "slice":
            idx.append(["slice", 1, None, None])
        elif kind == "int":
            idx.append(["int", n - 1])
        else:
            nodes.append({"op": "placeholder", "p": {
                "name": f"adv_i{ax}", "shape": [2] if kind == "arr" else [2, 1],
                "dtype": "int32", "scale": 0,
                "values": [n - 1, 0] if kind == "arr" else [0, n - 1]}})
            args.append(["n", len(nodes) - 1])
            idx.append(["arr", len(args) - 1])
    nodes.append({"op": "index", "args": args, "p": {"idx": idx}})
    nodes.append({"op": "mul", "args": [["n", len(nodes) - 1], ["py", 2]]})
    spec["outputs"] = list(spec["outputs"]) + [["advidx", len(nodes) - 1]]
    return spec


def add_layout_gadget(draw, spec):
    """two data wrappers that are views of ONE buffer with the same start
    address, shape and dtype but (for kinds T / step) different strides,
    combined into an extra output: deduplicate_data_wrappers may merge them
    only when the layout is the same too."""
    import numpy as np
    kind = draw(st.sampled_from(["T", "step", "same"]))
    dtype = draw(st.sampled_from(["float64", "int32", "float32"]))
    arena = 1000 + len(spec["nodes"])
    if kind == "step":
        m = draw(st.integers(2, 4))
        base = [draw(st.integers(-9, 9)) for _ in range(2 * m)]
        a = {"values": base[::2], "shape": [m], "kind": "step2"}
        b = {"values": base[:m], "shape": [m], "kind": "prefix"}
        bshape = [2 * m]
    else:
        n = draw(st.integers(2, 3))
        base = [draw(st.integers(-9, 9)) for _ in range(n * n)]
        arr = np.array(base).reshape(n, n)
        a = {"values": base, "shape": [n, n], "kind": "plain"}
        b = ({"values": [int(x) for x in arr.T.flatten()], "shape": [n, n],
              "kind": "T"} if kind == "T" else dict(a))
        bshape = [n, n]
    nodes = spec["nodes"]
    idx = []
    for d in (a, b):
        nodes.append({"op": "data", "p": {
            "dtype": dtype, "scale": 0, "shape": d["shape"],
            "values": d["values"],
            "view": {"arena": arena, "kind": d["kind"], "base_values": base,
                     "base_shape": bshape}}})
        idx.append(len(nodes) - 1)
    nodes.append({"op": "mul", "args": [["n", idx[1]], ["py", 2]]})
    nodes.append({"op": "sub", "args": [["n", idx[0]], ["n", len(nodes) - 1]]})
    spec["outputs"] = list(spec["outputs"]) + [["layout", len(nodes) - 1]]
    return spec


FN_SAFE = ("copy", "map_and_copy", "deduplicate", "deduplicate_data_wrappers")


def mpms_spec(draw):
    """a layered DAG of binary operations over three inputs with much
    sharing, some nodes pre-tagged ImplStored and interior nodes among the
    outputs: the setting in which materialize_with_mpms has decisions to
    make (nodes with several users and several materialised predecessors)"""
    nodes = []
    for k, nm in enumerate(("a", "b", "c")):
        nodes.append({"op": "placeholder", "p": {
            "name": nm, "shape": [3], "dtype": "float64", "scale": 1,
            "values": [draw(st.integers(-4, 4)) for _ in range(3)]}})
    n = draw(st.integers(4, 12))
    for _ in range(n):
        i = draw(st.integers(max(0, len(nodes) - 5), len(nodes) - 1))
        j = draw(st.integers(0, len(nodes) - 1))
        node = {"op": draw(st.sampled_from(["add", "sub", "add", "maximum"])),
                "args": [["n", i], ["n", j]]}
        # (no structural twins: a node pre-tagged ImplStored next to an equal
        # untagged one is the listed finding C05-mpms-tagged-twin, whose
        # allowance would hide other idempotence failures in the same graph)
        if any(m.get("op") == node["op"] and m.get("args") == node["args"]
               for m in nodes):
            continue
        if draw(st.integers(0, 3)) == 0:
            node["tags"] = [["ImplStored"]]
        nodes.append(node)
    outs = sorted({len(nodes) - 1} | {draw(st.integers(3, len(nodes) - 1))
                                      for _ in range(draw(st.integers(0, 2)))})
    return {"nodes": nodes, "outputs": [[f"out{k}", i]
                                        for k, i in enumerate(outs)]}


@st.composite
def cases(draw):
    if draw(st.integers(0, 7)) == 0:
        # programs with traced function calls (C12's generator): the copying
        # transformations must cope with callee bodies too
        from pvf.props import c12
        spec = draw(c12.cases())
        n = draw(st.integers(1, 3))
        return {"spec": spec, "pipeline": [draw(st.sampled_from(FN_SAFE))
                                           for _ in range(n)]}, None
    if draw(st.integers(0, 6)) == 0:
        spec = mpms_spec(draw)
        rest = [draw(st.sampled_from(TNAMES))
                for _ in range(draw(st.integers(0, 2)))]
        return {"spec": spec, "pipeline": ["materialize_with_mpms", *rest]}, None
    cfg = progen.GenCfg(min_ops=4, max_ops=12, dup_prob=0.2, max_len=4,
                        max_size=200, p_nan=0.08)
    # make duplicated data wrappers likely: few distinct values
    spec, vals = draw(progen.programs(cfg))
    spec = gc(spec)
    # duplicate one data input node's content occasionally
    spec = add_tags(draw, spec)
    if draw(st.integers(0, 3)) == 0:
        spec = add_layout_gadget(draw, spec)
    if draw(st.integers(0, 7)) == 0:
        spec = add_minus_one_two_gadget(draw, spec)
    if draw(st.integers(0, 5)) == 0:
        spec = add_reshape_gadget(draw, spec)
    if draw(st.integers(0, 7)) == 0:
        spec = add_advindex_gadget(draw, spec)
    n = draw(st.integers(1, 4))
    pipeline = [draw(st.sampled_from(TNAMES)) for _ in range(n)]
    return {"spec": spec, "pipeline": pipeline}, vals


def run_shard(shard: int, nshards: int, seed: int, tier: str) -> ShardResult:
    pl = plan(tier)
    res = ShardResult()
    k = [0]

    def body(cv):
        case, vals = cv
        k[0] += 1
        cexec = bool(pl["cexec_every"]) and k[0] % pl["cexec_every"] == 0
        f, info = case_oracle(case, cexec=cexec)
        res.evaluations += 1
        for t in case["pipeline"]:
            res.count("transform:" + t)
        if "skip" in info:
            res.skip(info["skip"][:80])
            return
        feats = progen.features(case["spec"], vals)
        dead = any(n["op"] in ("zeros_like", "ones_like")
                   for n in case["spec"]["nodes"])
        nops = len([n for n in case["spec"]["nodes"]
                    if n["op"] not in ("placeholder", "data")])
        if info.get("dups"):
            res.count("graph_with_duplicates")
        if dead:
            res.count("dead_reference")
        if feats["sharing"]:
            res.count("sharing")
        if info.get("dedup_inserted"):
            res.count("deduplicate_inserted", info["dedup_inserted"])
        for key in ("cexec", "cexec_exception", "cexec_mismatch"):
            if info.get(key):
                res.count(key)
        if (feats["sharing"] or info.get("dups") or dead) and nops >= 3:
            res.nontrivial.add(spec_hash(case))
        res.sample(case)
        if f is not None:
            res.fail(f, case)

    hyp_run(cases(), body, seed, pl["examples"])
    return res


def replay(case) -> Failure | None:
    f, _ = case_oracle(case)
    return f


def minimize(case, fj):
    from pvf.minimize import minimize_spec
    key = fj["kind"] + "|" + fj.get("where", "")
    best = dict(case)
    # shorten the pipeline first
    for k in range(len(best["pipeline"])):
        for cand_p in ([best["pipeline"][k]], best["pipeline"][:k + 1]):
            cand = {"spec": best["spec"], "pipeline": cand_p}
            f = replay(cand)
            if f is not None and f.key() == key:
                best = cand
                break
        else:
            continue
        break

    def still(s):
        f = replay({"spec": s, "pipeline": best["pipeline"]})
        return f is not None and f.key() == key
    small = minimize_spec(best["spec"], still, budget=60)
    best = {"spec": small, "pipeline": best["pipeline"]}
    f = replay(best)
    return best, (f.to_json() if f is not None else fj)


def _known_mpms_tagged_twin(case, failure) -> bool:
    """an untagged node that is structurally equal to a node pre-tagged
    ImplStored: the failure disappears when the twin carries the tag too"""
    import copy
    spec = case["spec"]
    nodes = spec["nodes"]

    def sig(n):
        return json.dumps({k: v for k, v in n.items() if k != "tags"},
                          sort_keys=True)
    c = copy.deepcopy(case)
    hit = False
    for i, a in enumerate(nodes):
        if ["ImplStored"] not in a.get("tags", []):
            continue
        for j, b in enumerate(nodes):
            if j != i and sig(a) == sig(b) and ["ImplStored"] not in b.get(
                    "tags", []):
                c["spec"]["nodes"][j].setdefault("tags", []).append(
                    ["ImplStored"])
                hit = True
    return hit and replay(c) is None


KNOWN_PREDICATES = {"mpms_tagged_twin": _known_mpms_tagged_twin}
