"""C16 - symbolic shapes: decisions are sound and one kernel serves every
size."""
from __future__ import annotations

import itertools
import warnings

import numpy as np
from hypothesis import strategies as st

from pvf.oracle import Failure, compare_values, exc_site
from pvf.npref import Val
from pvf.ptbuild import spec_hash
from pvf.refeval import RefEval
from pvf.runner import ShardResult, hyp_run

ID = "C16"
LEVEL = "exploration"
RULE = ("(a) pairs of affine shape expressions c0 + c1*n + c2*m (+ c3*k) with "
        "coefficients in [-3, 3], each built with pytato arithmetic on size "
        "parameters in a drawn association order (sums of scaled parameters, "
        "repeated addition, subtraction, negation, constants first or last): "
        "are_shape_components_equal(f, g) must be True exactly when the "
        "coefficient vectors are equal (the generator's ground truth, cross-"
        "checked by evaluating both forms on the affinely spanning grid "
        "{0,1}^k u unit points); exhaustive over all pairs for one and two "
        "parameters in the thorough tier.  (b) programs over placeholders "
        "whose axes are affine forms (n, m, n+1, 2n, n+m, m+2, 2n+m, n+2m+1, "
        "static), using "
        "elementwise operations with broadcasting, where, transpose, roll, "
        "stack, einsum (also reducing several symbolic axes), pad, "
        "expand_dims, integer indexing of provably long axes, reductions over"
        " static axes, zeros/full: every node's "
        "shape evaluated at every valuation in 1..6 per parameter equals "
        "NumPy's shape of the concrete program; operand combinations are "
        "accepted exactly when the forms are identically equal or 1 (also "
        "drawn: deliberately mismatching forms - in a sum, a stack, under one "
        "einsum letter, in three-operand broadcasting around a unit axis - "
        "which must be rejected).  (c) "
        "the program is compiled ONCE (generate_loopy + gcc) and launched for "
        "every valuation in {1..6}^k (36 sizes for two parameters): values "
        "equal NumPy's each time.  non-trivial: (a) forms differ "
        "syntactically; (b,c) >= 2 distinct symbolic axes; distinct by case")
RULE += '  Round-4 additions to the must-be-refused operations: matrix products whose contracted axes are two different forms, or a symbolic form against the static 1; calls of a FunctionDefinition with an argument whose axis is another form, or that has one axis more or less than the parameter.'
RULE += "  Round-5 addition: 36 programs x[::k] (k = 2, 3, 4) along a symbolic axis of four layouts, one kernel each, run at every n in 0..7: shape and values must be NumPy's."
ASSUMPTIONS = [
    "input values for every size are generated from a fixed integer formula "
    "of the indices (exact arithmetic: results are compared bit for bit "
    "unless a math function is involved)",
    "size 0 is covered by C01's zero-length axes and the launcher prototype; "
    "valuations here start at 1 as the property states",
]

PARAMS = ("n", "m", "k")


def plan(tier: str) -> dict:
    if tier == "thorough":
        return {"shards": 16, "pairs_exhaustive": True, "pairs": 0,
                "programs": 250, "valuations": 6}
    return {"shards": 16, "pairs_exhaustive": False, "pairs": 500,
            "programs": 8, "valuations": 3}


# {{{ (a) affine forms

def build_form(coeffs, order_bits: int):
    """pytato expression for c0 + sum c_i * p_i; *order_bits* selects among
    several association orders / spellings.  Returns an int if all parameter
    coefficients are zero."""
    import pytato as pt
    c0, cs = coeffs[0], coeffs[1:]
    terms = []
    for i, c in enumerate(cs):
        if c == 0:
            continue
        p = pt.make_size_param(PARAMS[i])
        style = (order_bits >> (2 * i)) & 3
        if style == 0:
            t = c * p
        elif style == 1:
            t = p * c
        elif style == 2:
            # repeated addition / negation
            t = p
            for _ in range(abs(c) - 1):
                t = t + p
            if c < 0:
                t = -t
        else:
            t = (c + 1) * p - p
        terms.append(t)
    if not terms:
        return c0
    if (order_bits >> 7) & 1:
        terms.reverse()
    e = terms[0]
    for t in terms[1:]:
        e = (e + t) if not ((order_bits >> 8) & 1) else (t + e)
    if c0 != 0 or (order_bits >> 9) & 1:
        e = (c0 + e) if (order_bits >> 10) & 1 else (e + c0)
    return e


def eval_form(coeffs, point):
    return coeffs[0] + sum(c * x for c, x in zip(coeffs[1:], point))


def check_pair(f, g, ob_f, ob_g) -> Failure | None:
    from pytato.utils import are_shape_components_equal
    with warnings.catch_warnings():
        warnings.simplefilter("ignore")
        try:
            ef, eg = build_form(f, ob_f), build_form(g, ob_g)
        except Exception as e:  # noqa: BLE001
            return Failure("form-build-exception", f"{f} / {g}: "
                           f"{type(e).__name__}: {e}", exc_site(e))
        try:
            got = bool(are_shape_components_equal(ef, eg))
        except Exception as e:  # noqa: BLE001
            return Failure("equality-decision-exception",
                           f"are_shape_components_equal({f}, {g}): "
                           f"{type(e).__name__}: {e}", exc_site(e))
    want = tuple(f) == tuple(g)
    # cross-check the ground truth on an affinely spanning grid
    k = len(f) - 1
    grid = list(itertools.product((0, 1), repeat=k))
    assert want == all(eval_form(f, p) == eval_form(g, p) for p in grid)
    if got != want:
        return Failure("shape-equality-wrong",
                       f"forms {f} and {g} (c0, c_n, c_m, ...): decided "
                       f"{'equal' if got else 'different'}",
                       "equal-forms-rejected" if want else
                       "different-forms-accepted")
    return None


def all_forms(k):
    return list(itertools.product(range(-3, 4), repeat=k + 1))

# }}}


# {{{ (b), (c) programs with symbolic axes

AXES = {
    "n": ("n", (0, 1, 0)), "m": ("m", (0, 0, 1)), "n+1": ("n+1", (1, 1, 0)),
    "2n": ("2n", (0, 2, 0)), "n+m": ("n+m", (0, 1, 1)), "3": ("3", (3, 0, 0)),
    "1": ("1", (1, 0, 0)), "2": ("2", (2, 0, 0)), "m+2": ("m+2", (2, 0, 1)),
    "2n+m": ("2n+m", (0, 2, 1)), "n+2m+1": ("n+2m+1", (1, 1, 2)),
}


def axis_len(name, val):
    c = AXES[name][1]
    return c[0] + c[1] * val["n"] + c[2] * val["m"]


def axis_pt(name, sp, alt=False):
    c = AXES[name][1]
    if c[1] == 0 and c[2] == 0:
        return c[0]
    if alt:
        # the same form spelled differently: constant first, parameters in
        # the other order, scaling by repeated addition
        e = None
        if c[2]:
            e = sp["m"]
            for _ in range(c[2] - 1):
                e = e + sp["m"]
        if c[1]:
            t = sp["n"]
            for _ in range(c[1] - 1):
                t = sp["n"] + t
            e = t if e is None else e + t
        if c[0]:
            e = c[0] + e
        return e
    e = None
    if c[1]:
        e = sp["n"] if c[1] == 1 else c[1] * sp["n"]
    if c[2]:
        t = sp["m"] if c[2] == 1 else c[2] * sp["m"]
        e = t if e is None else e + t
    if c[0]:
        e = e + c[0]
    return e


def input_values(shape, seed):
    idx = np.indices(shape) if shape else np.zeros((0,), dtype=np.int64)
    v = np.full(shape, seed % 7, dtype=np.int64)
    for d in range(len(shape)):
        v = v + (2 * d + 3) * idx[d]
    return ((v * 5 + seed) % 11 - 5).astype(np.float64) / 2


@st.composite
def sym_programs(draw):
    """a small program description; ops refer to earlier nodes"""
    pool = draw(st.sampled_from([["n", "m", "3", "1"], ["n", "n+1", "2", "1"],
                                 ["n", "m", "n+m", "1"], ["n", "2n", "3", "1"],
                                 ["m", "m+2", "2", "1"],
                                 ["n", "2n+m", "2", "1"],
                                 ["m", "n+2m+1", "3", "1"]]))
    nodes = []
    shapes = []          # list of axis-name lists

    def add(node, shape):
        nodes.append(node)
        shapes.append(shape)
        return len(nodes) - 1
    nin = draw(st.integers(1, 3))
    for i in range(nin):
        nd = draw(st.integers(1, 3))
        shape = [draw(st.sampled_from(pool)) for _ in range(nd)]
        add({"op": "in", "name": f"x{i}", "shape": shape,
             "seed": draw(st.integers(0, 50))}, shape)
    nops = draw(st.integers(2, 7))
    for _ in range(nops):
        kind = draw(st.sampled_from(["bin", "bin", "un", "T", "roll", "stack",
                                     "einsum", "red", "ctor", "where",
                                     "bad", "alt", "esum", "esum", "pad",
                                     "expand", "pick"]))
        i = draw(st.sampled_from([j for j, s in enumerate(shapes)
                                  if s is not None]))
        sh = shapes[i]
        if kind == "bin":
            # partner: same shape, a trailing sub-shape, or unit-broadcast
            cands = [j for j, s in enumerate(shapes)
                     if _bcast(sh, s) is not None]
            j = draw(st.sampled_from(cands))
            op = draw(st.sampled_from(["add", "sub", "mul", "maximum"]))
            add({"op": op, "args": [i, j]}, _bcast(sh, shapes[j]))
        elif kind == "un":
            op = draw(st.sampled_from(["neg", "abs", "sin", "exp_small"]))
            add({"op": op, "args": [i]}, sh)
        elif kind == "T":
            if len(sh) == 3 and draw(st.booleans()):
                # a general permutation (3-cycles are not their own inverse)
                perm = draw(st.sampled_from([[1, 2, 0], [2, 0, 1], [0, 2, 1],
                                             [1, 0, 2]]))
                add({"op": "perm", "args": [i], "axes": perm},
                    [sh[a] for a in perm])
            else:
                add({"op": "T", "args": [i]}, sh[::-1])
        elif kind == "roll":
            ax = draw(st.integers(0, len(sh) - 1)) if sh else 0
            if not sh:
                continue
            add({"op": "roll", "args": [i], "shift": draw(st.integers(-3, 3)),
                 "axis": ax}, sh)
        elif kind == "stack":
            same = [j for j, s in enumerate(shapes) if s == sh]
            j = draw(st.sampled_from(same))
            ax = draw(st.integers(0, len(sh)))
            if len(sh) >= 4:
                continue
            add({"op": "stack", "args": [i, j], "axis": ax},
                sh[:ax] + ["2"] + sh[ax:])
        elif kind == "einsum":
            if not (1 <= len(sh) <= 2):
                continue
            js = [j for j, s in enumerate(shapes)
                  if s is not None and len(s) in (1, 2) and s[0] == sh[-1]]
            if not js:
                continue
            j = draw(st.sampled_from(js))
            s2 = shapes[j]
            a = "ij"[:len(sh)] if len(sh) == 2 else "j"
            b = "jk" if len(s2) == 2 else "j"
            out = (a[0] if len(sh) == 2 else "") + ("k" if len(s2) == 2 else "")
            osh = (sh[:1] if len(sh) == 2 else []) + (s2[1:] if len(s2) == 2
                                                      else [])
            add({"op": "einsum", "args": [i, j], "spec": f"{a},{b}->{out}"},
                osh)
        elif kind == "pad":
            if not sh:
                continue
            widths = [[draw(st.integers(0, 2)), draw(st.integers(0, 2))]
                      for _ in sh]
            # padded axes get new lengths: keep them expressible
            PADDED = {("n", 1): "n+1", ("m", 2): "m+2", ("1", 1): "2",
                      ("1", 2): "3", ("2", 1): "3", ("n", 0): "n", ("m", 0): "m",
                      ("n+1", 0): "n+1", ("2n", 0): "2n", ("n+m", 0): "n+m",
                      ("3", 0): "3", ("1", 0): "1", ("2", 0): "2",
                      ("m+2", 0): "m+2", ("2n+m", 0): "2n+m",
                      ("n+2m+1", 0): "n+2m+1"}
            osh = []
            for ax, w in zip(sh, widths):
                tot = w[0] + w[1]
                if (ax, tot) not in PADDED:
                    w[0] = w[1] = 0
                    tot = 0
                osh.append(PADDED[(ax, tot)])
            add({"op": "pad", "args": [i], "widths": widths,
                 "value": draw(st.integers(-2, 2)) / 2}, osh)
        elif kind == "expand":
            if len(sh) >= 3:
                continue
            ax = draw(st.integers(0, len(sh)))
            add({"op": "expand", "args": [i], "axis": ax},
                sh[:ax] + ["1"] + sh[ax:])
        elif kind == "pick":
            # integer index into an axis that is provably long enough
            ok = [(d, a) for d, a in enumerate(sh)
                  if a in ("n+1", "m+2", "2", "3", "1", "n+2m+1")]
            if not ok:
                continue
            d, a = draw(st.sampled_from(ok))
            hi = {"n+1": 0, "m+2": 1, "2": 1, "3": 2, "1": 0, "n+2m+1": 0}[a]
            add({"op": "pick", "args": [i], "axis": d,
                 "index": draw(st.integers(0, hi))}, sh[:d] + sh[d + 1:])
        elif kind == "esum":
            # einsum reducing any non-empty subset of (symbolic) axes, of one
            # operand or of the product of two operands of the same shape
            if not (1 <= len(sh) <= 3):
                continue
            letters = "ijk"[:len(sh)]
            keep = [draw(st.booleans()) for _ in sh]
            if all(keep):
                keep[draw(st.integers(0, len(sh) - 1))] = False
            out = "".join(c for c, k in zip(letters, keep) if k)
            osh = [a for a, k in zip(sh, keep) if k]
            same = [j for j, s in enumerate(shapes) if s == sh]
            if draw(st.booleans()):
                j = draw(st.sampled_from(same))
                add({"op": "einsum", "args": [i, j],
                     "spec": f"{letters},{letters}->{out}"}, osh)
            else:
                add({"op": "einsum1", "args": [i],
                     "spec": f"{letters}->{out}"}, osh)
        elif kind == "red":
            static = [d for d, a in enumerate(sh) if a in ("1", "2", "3")]
            if not static:
                continue
            ax = draw(st.sampled_from(static))
            op = draw(st.sampled_from(["sum", "amax"]))
            add({"op": op, "args": [i], "axis": ax},
                sh[:ax] + sh[ax + 1:])
        elif kind == "ctor":
            add({"op": draw(st.sampled_from(["zeros", "full"])), "shape": sh,
                 "value": draw(st.integers(-3, 3)) / 2}, sh)
        elif kind == "where":
            cands = [j for j, s in enumerate(shapes) if s == sh]
            j = draw(st.sampled_from(cands))
            add({"op": "where", "args": [i, j]}, sh)
        elif kind == "alt":
            # a fresh operand whose axes are the same forms spelled
            # differently: must be accepted
            if not sh:
                continue
            add({"op": "altadd", "args": [i], "shape": sh,
                 "seed": draw(st.integers(0, 50)),
                 "name": f"alt{len(nodes)}"}, sh)
        elif kind == "bad" and sh and draw(st.booleans()):
            # other places where axis forms are matched: stack, an einsum
            # letter repeated within one operand, three-operand broadcasting
            # with a unit axis in the middle - each must refuse forms that
            # are not identically equal (static vs symbolic included)
            d = draw(st.integers(0, len(sh) - 1))
            others = [a for a in AXES if a != "1" and sh[d] != "1"
                      and AXES[a][1] != AXES[sh[d]][1]]
            if not others:
                continue
            bad = list(sh)
            bad[d] = draw(st.sampled_from(others))
            how = draw(st.sampled_from(["stack", "einsum_repeat", "where3",
                                        "matmul", "matmul_unit", "call",
                                        "call_rank"]))
            nodes.append({"op": "badop", "how": how, "args": [i], "shape": bad,
                          "axis": d})
            shapes.append(None)
            nodes.append({"op": "alias", "args": [i]})
            shapes.append(sh)
        else:
            # deliberately mismatching axes: must be rejected
            if not sh:
                continue
            bad = list(sh)
            d = draw(st.integers(0, len(sh) - 1))
            others = [a for a in AXES if a != sh[d] and a != "1"
                      and sh[d] != "1"
                      and AXES[a][1] != AXES[sh[d]][1]]
            if not others:
                continue
            bad[d] = draw(st.sampled_from(others))
            nodes.append({"op": "badadd", "args": [i], "shape": bad})
            shapes.append(None)
            # a rejected node cannot be used further: replace by operand
            nodes.append({"op": "alias", "args": [i]})
            shapes.append(sh)
    outs = [len(nodes) - 1]
    extra = draw(st.integers(0, len(nodes) - 1))
    if shapes[extra] is not None and extra not in outs:
        outs.append(extra)
    return {"nodes": nodes, "outputs": outs}


def _bcast(a, b):
    """broadcast of two axis-name lists under the 'identical or 1' rule"""
    if a is None or b is None:
        return None
    n = max(len(a), len(b))
    pa = ["1"] * (n - len(a)) + list(a)
    pb = ["1"] * (n - len(b)) + list(b)
    out = []
    for x, y in zip(pa, pb):
        if x == y or y == "1":
            out.append(x)
        elif x == "1":
            out.append(y)
        else:
            return None
    return out


def build_sym(desc, names=None):
    """-> (nodes, info); raises on an unexpected rejection.  *names*
    optionally renames size parameters and placeholders (C15)."""
    import pytato as pt
    names = names or {}
    sp = {"n": pt.make_size_param(names.get("n", "n")),
          "m": pt.make_size_param(names.get("m", "m"))}
    env = []
    rejected_ok = 0
    for nd in desc["nodes"]:
        op = nd["op"]
        a = [env[i] for i in nd.get("args", [])]
        if op == "in":
            env.append(pt.make_placeholder(
                names.get(nd["name"], nd["name"]),
                tuple(axis_pt(x, sp) for x in nd["shape"]), np.float64))
        elif op in ("add", "sub", "mul"):
            import operator
            env.append(getattr(operator, op)(a[0], a[1]))
        elif op == "maximum":
            env.append(pt.maximum(a[0], a[1]))
        elif op == "neg":
            env.append(-a[0])
        elif op == "abs":
            env.append(pt.abs(a[0]))
        elif op == "sin":
            env.append(pt.sin(a[0]))
        elif op == "exp_small":
            env.append(pt.exp(a[0] * 0.125))
        elif op == "T":
            env.append(a[0].T)
        elif op == "perm":
            env.append(pt.transpose(a[0], tuple(nd["axes"])))
        elif op == "roll":
            env.append(pt.roll(a[0], nd["shift"], nd["axis"]))
        elif op == "stack":
            env.append(pt.stack([a[0], a[1]], axis=nd["axis"]))
        elif op == "einsum":
            env.append(pt.einsum(nd["spec"], a[0], a[1]))
        elif op == "einsum1":
            env.append(pt.einsum(nd["spec"], a[0]))
        elif op == "pad":
            env.append(pt.pad(a[0], tuple(tuple(w) for w in nd["widths"]),
                              constant_values=nd["value"]))
        elif op == "expand":
            env.append(pt.expand_dims(a[0], nd["axis"]))
        elif op == "pick":
            env.append(a[0][(slice(None),) * nd["axis"] + (nd["index"],)])
        elif op in ("sum", "amax"):
            env.append(getattr(pt, op)(a[0], axis=nd["axis"]))
        elif op == "zeros":
            env.append(pt.zeros(tuple(axis_pt(x, sp) for x in nd["shape"]),
                                np.float64))
        elif op == "full":
            env.append(pt.full(tuple(axis_pt(x, sp) for x in nd["shape"]),
                               nd["value"], np.float64))
        elif op == "where":
            env.append(pt.where(pt.less(a[0], 0), a[0], a[1]))
        elif op == "alias":
            env.append(a[0])
        elif op == "altadd":
            other = pt.make_placeholder(
                names.get(nd["name"], nd["name"]),
                tuple(axis_pt(x, sp, alt=True)
                                  for x in nd["shape"]), np.float64)
            env.append(a[0] + other)
        elif op == "badop":
            other = pt.make_placeholder(
                "bad", tuple(axis_pt(x, sp) for x in nd["shape"]), np.float64)
            d = nd["axis"]
            try:
                if nd["how"] == "stack":
                    r = pt.stack([a[0], other])
                elif nd["how"] == "einsum_repeat":
                    # a two-axis operand whose axes are the two mismatching
                    # forms, under one letter
                    two = pt.make_placeholder(
                        "bad2", (a[0].shape[d], other.shape[d]), np.float64)
                    r = pt.einsum("ii->i", two)
                elif nd["how"] == "matmul":
                    # the contracted axis: form A against form B
                    left = pt.make_placeholder(
                        "badl", (3, a[0].shape[d]), np.float64)
                    right = pt.make_placeholder(
                        "badr", (other.shape[d], 2), np.float64)
                    r = left @ right
                elif nd["how"] == "matmul_unit":
                    # ... and against the static 1 (which an einsum would
                    # broadcast, a matrix product must not)
                    left = pt.make_placeholder(
                        "badl", (3, a[0].shape[d]), np.float64)
                    right = pt.make_placeholder("badr", (1, 2), np.float64)
                    r = (left @ right) if nd["shape"][d] != "2" else (
                        right.T @ left.T)
                elif nd["how"] in ("call", "call_rank"):
                    # call argument checking: a parameter declared with the
                    # other form / with one axis more or less
                    if nd["how"] == "call":
                        pshape = tuple(other.shape)
                    elif len(a[0].shape) > 1 and nd["shape"][d] != "2":
                        pshape = tuple(a[0].shape[:-1])
                    else:
                        pshape = tuple(a[0].shape) + (a[0].shape[d],)
                    par = pt.make_placeholder("badp", pshape, np.float64)
                    res = pt.trace_call(lambda x: x * 2, par)
                    fd = res._container.function
                    (pname,) = tuple(fd.parameters)
                    r = fd(**{pname: a[0]})
                else:
                    # cond: (form A,), x: (1,), y: (form B,)
                    c = pt.make_placeholder("badc", (a[0].shape[d],), np.float64)
                    x1 = pt.make_placeholder("bad1", (1,), np.float64)
                    y = pt.make_placeholder("bady", (other.shape[d],),
                                            np.float64)
                    r = pt.where(pt.greater(c, 0), x1, y)
            except ValueError:
                # (CannotBroadcastError is one)
                rejected_ok += 1
                env.append(None)
                continue
            except AssertionError as e:
                # (an internal assertion further down is not a diagnosis:
                # under python -O the mismatch would go through)
                raise AcceptedMismatch(
                    f"{nd['how']}: mismatching forms reach an internal "
                    f"assertion instead of being refused: {e}") from e
            raise AcceptedMismatch(
                f"{nd['how']}: axes {nd['shape']} (position {d}) against the "
                "operand's were matched although the forms differ")
        elif op == "badadd":
            other = pt.make_placeholder(
                "bad", tuple(axis_pt(x, sp) for x in nd["shape"]), np.float64)
            try:
                r = a[0] + other
            except ValueError:
                rejected_ok += 1
                env.append(None)
                continue
            raise AcceptedMismatch(
                f"operands with axes {nd['shape']} vs the other's "
                "were broadcast although the forms differ")
        else:
            raise ValueError(op)
    return env, {"rejected_ok": rejected_ok}


class AcceptedMismatch(Exception):
    pass


def eval_sym(desc, val):
    env = []
    for nd in desc["nodes"]:
        op = nd["op"]
        a = [env[i] for i in nd.get("args", [])]
        with np.errstate(all="ignore"):
            if op == "in":
                env.append(input_values(tuple(axis_len(x, val)
                                              for x in nd["shape"]),
                                        nd["seed"]))
            elif op == "add":
                env.append(a[0] + a[1])
            elif op == "sub":
                env.append(a[0] - a[1])
            elif op == "mul":
                env.append(a[0] * a[1])
            elif op == "maximum":
                env.append(np.maximum(a[0], a[1]))
            elif op == "neg":
                env.append(-a[0])
            elif op == "abs":
                env.append(np.abs(a[0]))
            elif op == "sin":
                env.append(np.sin(a[0]))
            elif op == "exp_small":
                env.append(np.exp(a[0] * 0.125))
            elif op == "T":
                env.append(a[0].T)
            elif op == "perm":
                env.append(np.transpose(a[0], tuple(nd["axes"])))
            elif op == "roll":
                env.append(np.roll(a[0], nd["shift"], nd["axis"]))
            elif op == "stack":
                env.append(np.stack([a[0], a[1]], axis=nd["axis"]))
            elif op == "einsum":
                env.append(np.einsum(nd["spec"], a[0], a[1]))
            elif op == "einsum1":
                env.append(np.einsum(nd["spec"], a[0]))
            elif op == "pad":
                env.append(np.pad(a[0], nd["widths"],
                                  constant_values=nd["value"]))
            elif op == "expand":
                env.append(np.expand_dims(a[0], nd["axis"]))
            elif op == "pick":
                env.append(a[0][(slice(None),) * nd["axis"] + (nd["index"],)])
            elif op in ("sum", "amax"):
                env.append(getattr(np, op)(a[0], axis=nd["axis"]))
            elif op == "zeros":
                env.append(np.zeros(tuple(axis_len(x, val)
                                          for x in nd["shape"])))
            elif op == "full":
                env.append(np.full(tuple(axis_len(x, val)
                                         for x in nd["shape"]), nd["value"]))
            elif op == "where":
                env.append(np.where(a[0] < 0, a[0], a[1]))
            elif op == "alias":
                env.append(a[0])
            elif op == "altadd":
                env.append(a[0] + input_values(tuple(
                    axis_len(x, val) for x in nd["shape"]), nd["seed"]))
            elif op in ("badadd", "badop"):
                env.append(None)
    return env


def program_oracle(desc, valuations: int, cexec: bool = True):
    info = {"sizes": 0}
    with warnings.catch_warnings():
        warnings.simplefilter("ignore")
        import pytato as pt
        try:
            env, binfo = build_sym(desc)
        except AcceptedMismatch as e:
            return Failure("mismatching-forms-accepted", str(e),
                           "broadcast"), info
        except Exception as e:  # noqa: BLE001
            return Failure("symbolic-build-exception",
                           f"{type(e).__name__}: {e}", exc_site(e)), info
        info.update(binfo)
        vals = [{"n": a, "m": b} for a in range(1, valuations + 1)
                for b in range(1, valuations + 1)]
        # (b) shapes of every node at every valuation
        for val in vals:
            ref = eval_sym(desc, val)
            ev = RefEval(val)
            for i, (node, r) in enumerate(zip(env, ref)):
                if node is None or r is None:
                    continue
                try:
                    shape = ev.shape(node)
                except Exception as e:  # noqa: BLE001
                    return Failure("symbolic-shape-unavailable",
                                   f"node {i} ({desc['nodes'][i]['op']}): "
                                   f"{type(e).__name__}: {e}",
                                   desc["nodes"][i]["op"]), info
                if tuple(shape) != r.shape:
                    return Failure("symbolic-shape-wrong",
                                   f"node {i} ({desc['nodes'][i]['op']}) at "
                                   f"{val}: inferred {shape}, NumPy {r.shape}",
                                   desc["nodes"][i]["op"]), info
        if not cexec:
            return None, info
        # (c) one kernel, all sizes
        outs = {f"out{k}": env[i] for k, i in enumerate(desc["outputs"])}
        from pvf.cexec import HarnessError, generate_and_compile
        try:
            knl = generate_and_compile(pt.transform.deduplicate(
                pt.make_dict_of_named_arrays(outs)))
        except HarnessError:
            raise
        except Exception as e:  # noqa: BLE001
            return Failure("symbolic-codegen-exception",
                           f"{type(e).__name__}: {str(e)[:300]}",
                           exc_site(e) or type(e).__name__), info
        inexact = any(nd["op"] in ("sin", "exp_small") for nd in desc["nodes"])
        for val in vals:
            ref = eval_sym(desc, val)
            args = {}
            for nd, r in zip(desc["nodes"], ref):
                if nd["op"] == "in" and nd["name"] in knl.kernel.arg_dict:
                    args[nd["name"]] = r
                if nd["op"] == "altadd" and nd["name"] in knl.kernel.arg_dict:
                    args[nd["name"]] = input_values(tuple(
                        axis_len(x, val) for x in nd["shape"]), nd["seed"])
            for p in ("n", "m"):
                if p in knl.kernel.arg_dict:
                    args[p] = val[p]
            try:
                res = knl(**args)
            except HarnessError:
                raise
            except Exception as e:  # noqa: BLE001
                return Failure("symbolic-launch-exception",
                               f"at {val}: {type(e).__name__}: {e}",
                               type(e).__name__), info
            info["sizes"] += 1
            for k, i in enumerate(desc["outputs"]):
                got = res[f"out{k}"]
                want = ref[i]
                if got.shape != want.shape:
                    return Failure("symbolic-output-shape",
                                   f"out{k} at {val}: {got.shape} vs "
                                   f"{want.shape}", "shape"), info
                mag = max(1.0, float(np.max(np.abs(want))) if want.size else 1.0)
                v = Val(want, 0.0 if not inexact else 1e-13 * mag * 50,
                        0 if not inexact else None, False)
                if not inexact:
                    if not np.array_equal(got, want):
                        return Failure("symbolic-output-value",
                                       f"out{k} at {val}: values differ "
                                       f"(max |d| = "
                                       f"{np.max(np.abs(got - want)):.3e})",
                                       "value"), info
                else:
                    msg = compare_values(got, v)
                    if msg:
                        return Failure("symbolic-output-value",
                                       f"out{k} at {val}: {msg}", "value"), info
    return None, info

# }}}


def run_shard(shard: int, nshards: int, seed: int, tier: str) -> ShardResult:
    pl = plan(tier)
    res = ShardResult()
    # (a)
    if pl["pairs_exhaustive"]:
        n = 0
        for k in (1, 2):
            forms = all_forms(k)
            for idx, (f, g) in enumerate(itertools.product(forms, forms)):
                if idx % nshards != shard:
                    continue
                n += 1
                res.evaluations += 1
                ob = (idx * 2654435761) & 0x7FF
                fl = check_pair(f, g, ob, (ob >> 3) ^ 0x155)
                if f != g or ob != ((ob >> 3) ^ 0x155):
                    res.nontrivial.add(f"pair:{f}:{g}")
                if fl is not None:
                    res.fail(fl, {"pair": [list(f), list(g), ob,
                                           (ob >> 3) ^ 0x155]})
                if idx % 9973 == 0:
                    res.sample({"pair": [list(f), list(g)]})
        res.extra["exhaustive_pairs_k<=2"] = n
        res.extra["exhaustive"] = True

    def pair_body(x):
        f, g, obf, obg, same = x
        if same:
            g = f
        res.evaluations += 1
        res.count("pairs_sampled")
        if tuple(f) == tuple(g):
            res.count("pairs_equal_forms")
        fl = check_pair(tuple(f), tuple(g), obf, obg)
        res.nontrivial.add(f"pair:{f}:{g}:{obf}:{obg}")
        if fl is not None:
            res.fail(fl, {"pair": [list(f), list(g), obf, obg]})

    k_strat = st.integers(1, 3).flatmap(lambda k: st.tuples(
        st.lists(st.integers(-3, 3), min_size=k + 1, max_size=k + 1),
        st.lists(st.integers(-3, 3), min_size=k + 1, max_size=k + 1),
        st.integers(0, 2047), st.integers(0, 2047), st.booleans()))
    hyp_run(k_strat, pair_body, seed, pl["pairs"] or 300)

    # (b), (c)
    def prog_body(desc):
        res.evaluations += 1
        f, info = program_oracle(desc, pl["valuations"])
        res.count("programs")
        res.count("kernel_launches", info.get("sizes", 0))
        res.count("mismatches_rejected", info.get("rejected_ok", 0))
        axes = {a for nd in desc["nodes"] if nd["op"] == "in"
                for a in nd["shape"] if a not in ("1", "2", "3")}
        if len(axes) >= 2:
            res.nontrivial.add(spec_hash(desc))
        res.sample({"program": desc}, limit=2)
        if f is not None:
            res.fail(f, {"program": desc})

    hyp_run(sym_programs(), prog_body, seed + 1, pl["programs"])
    for j, desc in enumerate(strided_slice_cases()):
        if j % nshards != shard:
            continue
        res.evaluations += 1
        res.count("strided_symbolic_slices")
        f = strided_slice_oracle(desc)
        res.nontrivial.add(spec_hash(desc))
        if f is not None:
            res.fail(f, {"strided": desc})
    return res


def strided_slice_cases():
    """x[::k] along a symbolic axis (the one kind of slice pytato lowers
    there): the length ceil(n/k) is no affine form, so these stand apart from
    the grammar above"""
    for k in (2, 3, 4):
        for layout in ("n", "n2", "2n", "nm"):
            for post in ("mul", "addself", "sum"):
                yield {"k": k, "layout": layout, "post": post}


def strided_slice_oracle(desc) -> Failure | None:
    """one kernel, every size 0..7: shape and values must be NumPy's"""
    import pytato as pt
    from pvf.cexec import HarnessError, generate_and_compile
    with warnings.catch_warnings():
        warnings.simplefilter("ignore")
        n = pt.make_size_param("n")
        m = pt.make_size_param("m")
        k = desc["k"]
        shp = {"n": (n,), "n2": (n, 2), "2n": (2, n), "nm": (n, m)}[
            desc["layout"]]
        ax = 1 if desc["layout"] == "2n" else 0
        idx = (slice(None),) * ax + (slice(None, None, k),)
        try:
            x = pt.make_placeholder("x", shp, np.float64)
            y = x[idx]
            y = {"mul": lambda: y * 2, "addself": lambda: y + y,
                 "sum": lambda: pt.sum(y, axis=ax ^ 1) if len(shp) == 2
                 else y * 3}[desc["post"]]()
            knl = generate_and_compile(pt.transform.deduplicate(
                pt.make_dict_of_named_arrays({"out": y})))
        except HarnessError:
            raise
        except (NotImplementedError, TypeError, ValueError):
            return None         # (pytato refuses it: nothing to compare)
        for nv in range(0, 8):
            for mv in ((1, 3) if desc["layout"] == "nm" else (0,)):
                cshape = tuple({"n": nv, "m": mv}.get(
                    {id(n): "n", id(m): "m"}.get(id(s)), s) for s in shp)
                xv = input_values(cshape, 3)
                want = xv[idx]
                want = {"mul": lambda: want * 2, "addself": lambda: want + want,
                        "sum": lambda: want.sum(axis=ax ^ 1)
                        if len(shp) == 2 else want * 3}[desc["post"]]()
                args = {"x": xv, "n": nv}
                if desc["layout"] == "nm":
                    args["m"] = mv
                try:
                    got = knl(**args)["out"]
                except HarnessError:
                    raise
                except Exception as e:  # noqa: BLE001
                    return Failure("symbolic-launch-exception",
                                   f"x[::{k}] ({desc['layout']}) at n={nv}: "
                                   f"{type(e).__name__}: {str(e)[:200]}",
                                   "strided")
                if got.shape != want.shape:
                    return Failure("symbolic-shape-wrong",
                                   f"x[::{k}] ({desc['layout']}, "
                                   f"{desc['post']}) at n={nv}: shape "
                                   f"{got.shape}, NumPy {want.shape}",
                                   "strided")
                if not np.array_equal(got, want):
                    return Failure("symbolic-output-value",
                                   f"x[::{k}] ({desc['layout']}, "
                                   f"{desc['post']}) at n={nv}: values differ",
                                   "strided")
    return None


def replay(case) -> Failure | None:
    if "strided" in case:
        return strided_slice_oracle(case["strided"])
    if "pair" in case:
        f, g, obf, obg = case["pair"]
        return check_pair(tuple(f), tuple(g), obf, obg)
    f, _ = program_oracle(case["program"], 6)
    return f
