"""C11 - generated kernels are memory-safe for every admissible size."""
from __future__ import annotations

import warnings

import numpy as np
from hypothesis import strategies as st

from pvf import progen
from pvf.oracle import Failure, exc_site
from pvf.ptbuild import build_pt, gc, input_values, spec_hash
from pvf.runner import ShardResult, hyp_run

ID = "C11"
LEVEL = "exploration"
RULE = ("generated programs: C01's grammar (static shapes; three configurations"
        ": all groups, an index-heavy one restricted to slices with steps and "
        "negative bounds / roll / reshape / pad / concatenate / stack / "
        "broadcast / advanced indexing plus reductions, and one with zero-"
        "length axes) and C16's symbolic-shape programs (size parameters n, m;"
        " roll, stack, einsum, broadcasting, transposes).  Oracle per program "
        "(symbolic, not sampled): the kernel from generate_loopy is "
        "preprocessed by loopy and EVERY subscript of every instruction is "
        "checked with ISL: under the instruction's iteration domain, the "
        "kernel's assumptions, n >= 0 for every size parameter, the equalities"
        " defining reduction-bound temporaries, and the (affine) conditions of"
        " all enclosing if-then-else branches, the access range must be a "
        "subset of [0, shape) of the accessed argument or temporary.  "
        "Subscripts that depend on array data (advanced indexing: the "
        "caller's responsibility) or are not quasi-affine (modulo by a size "
        "parameter) are counted as undecided, never as failures.  Second "
        "oracle (dynamic, static shapes): the compiled kernel is run twice "
        "with differently filled red zones around every buffer; red zones "
        "must come back intact and the outputs must not depend on their "
        "content.  non-trivial = >= 1 decided subscript that is not the "
        "identity of the iteration indices, or >= 1 decided subscript under a "
        "condition; distinct by canonical JSON")
RULE += '  Round-4 additions: CSR products whose row_starts has nrows+delta entries, delta in 0..3, static and symbolic (only delta=1 is well formed: whatever pytato accepts must be in bounds); two stored intermediates of different shapes under one Named name in both output orders (refused, or separate storage).'
ASSUMPTIONS = [
    "hand-written callee kernels of call_loopy are not checked (user code); "
    "the sub-array references passed to them are",
    "ISL decides quasi-affine accesses; '% n' / '// n' with a size parameter "
    "n (roll of a symbolic axis) is outside ISL's fragment and reported as "
    "undecided in the evidence",
    "on this image every reduction is stored with bound temporaries; their "
    "defining assignments are added as equalities",
]


def plan(tier: str) -> dict:
    if tier == "thorough":
        return {"shards": 16, "examples": 1200, "max_ops": 14, "sym": 400}
    return {"shards": 16, "examples": 60, "max_ops": 10, "sym": 20}


# {{{ symbolic checker

class Stats(dict):
    def bump(self, k, n=1):
        self[k] = self.get(k, 0) + n


def _scalar_temp_definitions(kernel):
    """temp name -> list of defining expressions (scalar temporaries)"""
    import loopy as lp
    from pymbolic.primitives import Subscript, Variable
    defs = {}
    for insn in kernel.instructions:
        if not isinstance(insn, lp.Assignment):
            continue
        a = insn.assignee
        name = None
        if isinstance(a, Variable):
            name = a.name
        elif isinstance(a, Subscript) and a.index in ((), ):
            name = a.aggregate.name
        if name is not None and name in kernel.temporary_variables:
            defs.setdefault(name, []).append(insn.expression)
    return defs


def check_kernel(t_unit, stats: Stats) -> list[str]:
    """-> list of out-of-bounds descriptions"""
    import islpy as isl
    import loopy as lp
    from islpy import dim_type
    from loopy.check import _AccessCheckMapper
    from loopy.diagnostic import UnableToDetermineAccessRangeError
    from loopy.kernel.instruction import get_insn_domain
    from loopy.symbolic import (
        condition_to_set,
        get_access_map,
        get_dependencies,
        isl_set_from_expr,
    )
    from pymbolic.mapper import WalkMapper
    from pymbolic.primitives import Comparison, Variable

    kernel = t_unit.default_entrypoint
    problems: list[str] = []
    temp_defs = _scalar_temp_definitions(kernel)
    size_params = {a.name for a in kernel.args if isinstance(a, lp.ValueArg)}

    class Checker(WalkMapper):
        def __init__(self):
            super().__init__()
            self.depth = 0

        def map_subscript(self, expr, domain, insn_id):
            WalkMapper.map_subscript(self, expr, domain, insn_id)
            name = expr.aggregate.name
            if name in kernel.arg_dict:
                shape = kernel.arg_dict[name].shape
            elif name in kernel.temporary_variables:
                shape = kernel.temporary_variables[name].shape
            else:
                stats.bump("subscript_of_unknown_variable")
                return
            stats.bump("subscripts")
            sub = expr.index if isinstance(expr.index, tuple) else (expr.index,)
            avail = set(domain.get_var_dict())
            deps = get_dependencies(sub)
            shape_deps = set()
            for s in shape:
                if s is not None:
                    shape_deps |= get_dependencies(s)
            missing = (deps | shape_deps) - avail
            if missing:
                if missing <= size_params:
                    for p in sorted(missing):
                        domain = domain.add_dims(dim_type.param, 1)
                        domain = domain.set_dim_name(
                            dim_type.param, domain.dim(dim_type.param) - 1, p)
                        domain = domain & isl_set_from_expr(
                            domain.space, Comparison(Variable(p), ">=", 0))
                else:
                    stats.bump("undecided:data_dependent_index")
                    return
            if len(sub) != len(shape):
                problems.append(f"{insn_id}: {expr}: {len(sub)} indices for "
                                f"{len(shape)} axes")
                return
            try:
                rng = get_access_map(domain, sub).range()
            except UnableToDetermineAccessRangeError:
                stats.bump("undecided:not_quasi_affine")
                return
            except NotImplementedError:
                stats.bump("undecided:operator_unknown_to_isl_conversion")
                return
            from loopy.isl_helpers import make_slab
            box = isl.BasicSet.universe(rng.get_space())
            try:
                for d, s in enumerate(shape):
                    if s is not None:
                        box = box & make_slab(box.get_space(),
                                              (dim_type.in_, d), 0, s)
            except Exception:  # noqa: BLE001
                stats.bump("undecided:shape_not_affine")
                return
            stats.bump("decided")
            if self.depth:
                stats.bump("decided_under_condition")
            inames = [str(i) for i in sub]
            if not all(isinstance(i, Variable) for i in sub):
                stats.bump("decided_non_identity")
            if not rng.is_subset(box):
                stats.bump("out_of_bounds")
                bad = (rng - box)
                problems.append(
                    f"{insn_id}: {expr} leaves [0, {shape}): e.g. "
                    f"{bad.sample_point()} (domain {domain})"[:600])

        def map_if(self, expr, domain, insn_id):
            try:
                then_set = condition_to_set(domain.space, expr.condition)
            except Exception:  # noqa: BLE001
                # (loopy's converter has no case for e.g. bitwise operators
                # in a condition: not an affine condition either way)
                then_set = None
            if then_set is None:
                stats.bump("conditions_not_affine")
                then_set = else_set = isl.BasicSet.universe(domain.space)
            else:
                stats.bump("conditions_affine")
                else_set = then_set.complement()
            self.rec(expr.condition, domain, insn_id)
            self.depth += 1
            self.rec(expr.then, domain & then_set, insn_id)
            self.rec(expr.else_, domain & else_set, insn_id)
            self.depth -= 1

        def map_reduction(self, expr, domain, insn_id):
            stats.bump("unrealized_reduction")

        def map_sub_array_ref(self, expr, domain, insn_id):
            # swept sub-array: the swept inames range over their own domain
            inames = [v.name for v in expr.swept_inames]
            d2 = kernel.get_inames_domain(frozenset(inames))
            d1, d2 = isl.align_two(domain, d2)
            self.rec(expr.subscript, d1 & d2, insn_id)

        def map_type_cast(self, expr, domain, insn_id):
            self.rec(expr.child, domain, insn_id)

        def map_resolved_function(self, expr, domain, insn_id):
            pass

    chk = Checker()
    for insn in kernel.instructions:
        domain = get_insn_domain(insn, kernel)
        # reduction-bound temporaries: add their defining equalities
        tparams = set(domain.get_var_names(dim_type.param)) & set(
            kernel.temporary_variables)
        ok = True
        for tp in sorted(tparams):
            ds = temp_defs.get(tp, [])
            if len(ds) != 1:
                ok = False
                break
            need = get_dependencies(ds[0]) - set(domain.get_var_dict())
            if not need <= size_params:
                ok = False
                break
            for p in sorted(need):
                domain = domain.add_dims(dim_type.param, 1)
                domain = domain.set_dim_name(
                    dim_type.param, domain.dim(dim_type.param) - 1, p)
            try:
                domain = domain & isl_set_from_expr(
                    domain.space, Comparison(Variable(tp), "==", ds[0]))
            except Exception:  # noqa: BLE001
                ok = False
                break
        if not ok:
            stats.bump("undecided:instruction_with_data_dependent_bounds")
            continue
        if not kernel.assumptions.is_universe():
            domain, assumptions = isl.align_two(domain, kernel.assumptions)
            domain = domain & assumptions
        for p in sorted(set(domain.get_var_names(dim_type.param))
                        & size_params):
            domain = domain & isl_set_from_expr(
                domain.space, Comparison(Variable(p), ">=", 0))
        stats.bump("instructions")

        def run(expr, domain=domain, insn=insn):
            chk(expr, domain, insn.id)
            return expr
        insn.with_transformed_expressions(run)
    return problems

# }}}


def symbolic_oracle(outs, stats) -> Failure | None:
    import loopy as lp
    import pytato as pt
    from pvf.cexec import c_target
    try:
        bp = pt.generate_loopy(outs, target=c_target())
    except Exception as e:  # noqa: BLE001
        stats.bump("skipped:generation_fails")
        return None
    try:
        t = lp.preprocess_program(bp.program)
    except Exception as e:  # noqa: BLE001
        stats.bump("skipped:loopy_preprocess_fails")
        return None
    problems = check_kernel(t, stats)
    if problems:
        return Failure("out-of-bounds-access", "; ".join(problems)[:900],
                       problems[0].split(":")[0])
    return None


def redzone_oracle(spec, prog, stats) -> Failure | None:
    """dynamic: outputs must not depend on what surrounds the buffers"""
    import pytato as pt
    from pvf import cexec
    from pvf.cexec import HarnessError, MemoryViolation, generate_and_compile
    outs = pt.transform.deduplicate(prog.dict_of_named_arrays())
    try:
        knl = generate_and_compile(outs)
    except HarnessError:
        raise
    except Exception:  # noqa: BLE001
        return None
    env = {k: v for k, v in input_values(spec).items()
           if k in knl.kernel.arg_dict}
    results = []
    for fill in (0xA5, 0x00, 0x7F):
        old = cexec.RZ_FILL
        cexec.RZ_FILL = fill
        try:
            results.append(knl(**env))
        except MemoryViolation as e:
            return Failure("red-zone-written", str(e)[:300], "write")
        except HarnessError:
            raise
        except Exception:  # noqa: BLE001
            return None
        finally:
            cexec.RZ_FILL = old
    stats.bump("redzone_runs")
    for r in results[1:]:
        for k in results[0]:
            if results[0][k].tobytes() != r[k].tobytes():
                return Failure("output-depends-on-red-zone",
                               f"output {k} changes with the bytes around "
                               "the buffers: an out-of-bounds read", "read")
    return None


def case_oracle(case, stats=None):
    stats = stats if stats is not None else Stats()
    with warnings.catch_warnings():
        warnings.simplefilter("ignore")
        import pytato as pt
        if "sym" in case:
            from pvf.props import c16
            try:
                env, _ = c16.build_sym(case["sym"])
            except Exception:  # noqa: BLE001
                stats.bump("skipped:build_fails")
                return None, stats
            outs = pt.transform.deduplicate(pt.make_dict_of_named_arrays(
                {f"out{k}": env[i]
                 for k, i in enumerate(case["sym"]["outputs"])}))
            return symbolic_oracle(outs, stats), stats
        if "named_twin" in case:
            # two stored intermediates of different shapes under one Named
            # name: refused, or else given separate, large enough storage
            c = case["named_twin"]
            from pytato.tags import ImplStored, Named
            a = pt.make_placeholder("a", tuple(c["shapes"][0]), np.float64)
            b = pt.make_placeholder("b", tuple(c["shapes"][1]), np.float64)
            t1 = (a + 1).tagged([ImplStored(), Named("buf")])
            t2 = (b * 2).tagged([ImplStored(), Named("buf")])
            o = {"o1": pt.sum(t1) + a[0], "o2": pt.sum(t2) * b[0]}
            if c["order"]:
                o = dict(reversed(list(o.items())))
            stats.bump("named_twin_programs")
            outs = pt.transform.deduplicate(pt.make_dict_of_named_arrays(o))
            return symbolic_oracle(outs, stats), stats
        if "csr" in case:
            # a CSR product whose row_starts array has nrows + delta entries:
            # only delta == 1 is well-formed; whatever pytato accepts must
            # still give in-bounds (affine) accesses
            c = case["csr"]
            if c["sym"]:
                n = pt.make_size_param("n")
                m = pt.make_size_param("m")
            else:
                n, m = 4, 3
            try:
                ev = pt.make_placeholder("ev", (7,), np.float64)
                ci = pt.make_placeholder("ci", (7,), np.int32)
                rs = pt.make_placeholder("rs", (n + c["delta"],), np.int32)
                mat = pt.make_csr_matrix((n, m), ev, ci, rs)
                x = pt.make_placeholder("x", (m,) if c["vec"] else (m, 2),
                                        np.float64)
                y = mat @ x
            except (ValueError, TypeError):
                stats.bump("csr_rejected")
                return None, stats
            stats.bump("csr_accepted")
            outs = pt.transform.deduplicate(pt.make_dict_of_named_arrays(
                {"out0": y}))
            return symbolic_oracle(outs, stats), stats
        spec = case["spec"]
        try:
            prog = build_pt(spec)
        except Exception:  # noqa: BLE001
            stats.bump("skipped:build_fails")
            return None, stats
        outs = pt.transform.deduplicate(prog.dict_of_named_arrays())
        f = symbolic_oracle(outs, stats)
        if f is None:
            f = redzone_oracle(spec, prog, stats)
        return f, stats


INDEX_HEAVY = None


def configs(pl):
    heavy = frozenset({"roll", "transpose", "reshape", "expand", "squeeze",
                       "pad", "broadcast", "index", "advindex", "stack",
                       "concat", "reduce", "arith", "einsum"})
    cfgs = [progen.GenCfg(max_ops=pl["max_ops"])]
    if heavy:
        cfgs.append(progen.GenCfg(max_ops=pl["max_ops"], groups=heavy))
    cfgs.append(progen.GenCfg(max_ops=pl["max_ops"], p_zero=0.6))
    return cfgs


def run_shard(shard: int, nshards: int, seed: int, tier: str) -> ShardResult:
    pl = plan(tier)
    res = ShardResult()

    def tally(case, f, stats, key):
        for k, v in stats.items():
            res.count(k, v)
        if stats.get("decided_non_identity") or stats.get(
                "decided_under_condition"):
            res.nontrivial.add(key)
        res.sample(case, limit=2)
        if f is not None:
            res.fail(f, case)

    cfgs = configs(pl)
    for ci, cfg in enumerate(cfgs):
        def body(pv):
            spec, vals = pv
            spec = gc(spec)
            res.evaluations += 1
            case = {"spec": spec}
            f, stats = case_oracle(case)
            tally(case, f, stats, spec_hash(spec))
        hyp_run(progen.programs(cfg), body, seed + ci,
                max(1, pl["examples"] // len(cfgs)))

    from pvf.props import c16

    def sym_body(desc):
        res.evaluations += 1
        case = {"sym": desc}
        f, stats = case_oracle(case)
        res.count("symbolic_programs")
        tally(case, f, stats, spec_hash(desc))

    hyp_run(c16.sym_programs(), sym_body, seed + 11, pl["sym"])
    k = 0
    for shapes in ([[6], [4]], [[4], [6]], [[2, 3], [3, 2]], [[2, 3], [7]]):
        for order in (0, 1):
            k += 1
            if k % nshards != shard:
                continue
            res.evaluations += 1
            case = {"named_twin": {"shapes": shapes, "order": order}}
            f, stats = case_oracle(case)
            tally(case, f, stats, spec_hash(case))
    for sym in (False, True):
        for delta in (0, 1, 2, 3):
            for vec in (True, False):
                k += 1
                if k % nshards != shard:
                    continue
                res.evaluations += 1
                case = {"csr": {"sym": sym, "delta": delta, "vec": vec}}
                f, stats = case_oracle(case)
                tally(case, f, stats, spec_hash(case))
    return res


def replay(case) -> Failure | None:
    f, _ = case_oracle(case)
    return f


def _known_reshape_of_reshape_floordiv(case, failure) -> bool:
    """same root cause as C01-loopy-floordiv-negative-numerator: the failure
    disappears when reshapes inlined into reshapes are stored"""
    if "spec" not in case:
        return False
    from pvf.props import c01
    ops = c01._derived(case["spec"], lambda n: n["op"] == "reshape")
    v = c01._store(case["spec"], lambda n, pos: n["op"] == "reshape", ops)
    return v is not None and replay({"spec": v}) is None


KNOWN_PREDICATES = {
    "reshape_of_reshape_floordiv": _known_reshape_of_reshape_floordiv}
