"""C03 - shape and dtype are inferred eagerly and agree with NumPy."""
from __future__ import annotations

import itertools
import operator
import warnings

import numpy as np

from pvf import progen
from pvf.oracle import Failure, exc_site
from pvf.ptbuild import build_pt, gc, spec_hash
from pvf.runner import ShardResult, hyp_run

ID = "C03"
LEVEL = "exploration"
RULE = ("(a) enumerated, always complete for the tier's dtype set (quick: bool,"
        " int32, int64, uint8, float32, float64, complex128; thorough: all 13):"
        " every binary operator / comparison / logical function / maximum / "
        "minimum x operand kinds (array, 0-d array, Python bool/int/float/"
        "complex, NumPy scalar) x dtype pairs; unary functions, casts, "
        "reductions, where, stack/concatenate promotion, constructors x "
        "dtypes; every pair of shapes with 0..3 axes of length 0..4 under "
        "broadcasting; every slice and int index on axis lengths 0..6; every "
        "axis argument in [-ndim-1, ndim+1] for stack/concatenate/roll/"
        "expand_dims/squeeze/transpose/reductions; reshape/broadcast_to/matmul/"
        "einsum/pad argument validity.  (b) every node of random grammar "
        "programs.  Oracle: the same call on concrete NumPy operands: if "
        "pytato accepts, .shape and .dtype are available at once and equal "
        "NumPy's; if NumPy raises a shape/axis/index error pytato must raise "
        "while building.  NumPy TypeErrors are outside the statement; pytato "
        "being stricter is not a violation.  non-trivial = both accept and "
        "(operand dtypes differ or shapes broadcast or the index is not ':'),"
        " or NumPy rejects; distinct by call description")
RULE += '  Round-4 addition: eye(N, M, k) over N in {0,1,3}, M in {None,0,1,4}, k in {-2,0,1,5} (shape only).'
ASSUMPTIONS = [
    "installed NumPy's promotion rules (NEP 50); Python scalars are passed as "
    "Python scalars to both sides",
    "deviations are bucketed by (function, operand kinds, dtype kinds): "
    "listed findings are matched on that key, any other bucket fails",
]

ALL_DT = ("bool", "int8", "int16", "int32", "int64", "uint8", "uint16",
          "uint32", "uint64", "float32", "float64", "complex64", "complex128")
QUICK_DT = ("bool", "int32", "int64", "uint8", "float32", "float64",
            "complex128")
PY = {"pybool": True, "pyint": 2, "pyfloat": 2.5, "pycomplex": 1 + 1j}


def plan(tier: str) -> dict:
    if tier == "thorough":
        return {"shards": 16, "examples": 600, "dtypes": ALL_DT}
    return {"shards": 16, "examples": 60, "dtypes": QUICK_DT}


def _k(dt) -> str:
    return np.dtype(dt).kind


# {{{ running one call on both sides

SHAPE_ERRORS = (ValueError, IndexError)


def run_np(thunk):
    try:
        with np.errstate(all="ignore"), warnings.catch_warnings():
            warnings.simplefilter("ignore")
            r = thunk()
        r = np.asarray(r)
        return ("ok", tuple(r.shape), r.dtype)
    except TypeError:
        return ("type-error",)
    except np.exceptions.AxisError:
        return ("shape-error", "AxisError")
    except SHAPE_ERRORS as e:
        return ("shape-error", type(e).__name__)
    except Exception as e:  # noqa: BLE001
        return ("other", type(e).__name__)


def run_pt(thunk):
    import pytato as pt
    try:
        with warnings.catch_warnings():
            warnings.simplefilter("ignore")
            r = thunk()
    except Exception as e:  # noqa: BLE001
        return ("raise", type(e).__name__, exc_site(e))
    if not isinstance(r, pt.Array):
        try:
            a = np.asarray(r)
            return ("ok", tuple(a.shape), a.dtype)
        except Exception as e:  # noqa: BLE001
            return ("raise", type(e).__name__, "")
    try:
        shape = tuple(int(s) for s in r.shape)
        dtype = np.dtype(r.dtype)
        nd = r.ndim
    except Exception as e:  # noqa: BLE001
        return ("late", type(e).__name__, exc_site(e))
    if nd != len(shape):
        return ("late", "ndim", "")
    return ("ok", shape, dtype)


def judge(label: str, key: str, npo, pto) -> tuple[Failure | None, str]:
    """-> (failure, class)"""
    if npo[0] in ("type-error", "other"):
        return None, "numpy-type-error"
    if pto[0] == "late":
        return Failure("shape-or-dtype-not-eager", f"{label}: accepted, but "
                       f"reading shape/dtype raised {pto[1]}", key), "late"
    if npo[0] == "shape-error":
        if pto[0] == "ok":
            return Failure("accepts-what-numpy-rejects", f"{label}: NumPy "
                           f"raises {npo[1]}, pytato built an array of shape "
                           f"{pto[1]}", key), "np-rejects"
        return None, "both-reject"
    if pto[0] == "raise":
        return None, "pytato-stricter"
    if tuple(pto[1]) != tuple(npo[1]):
        return Failure("shape-differs", f"{label}: pytato {pto[1]}, NumPy "
                       f"{npo[1]}", key), "both-accept"
    if pto[2] != npo[2]:
        return Failure("dtype-differs", f"{label}: pytato {pto[2]}, NumPy "
                       f"{npo[2]}", key), "both-accept"
    return None, "both-accept"

# }}}


# {{{ enumerations: yield (label, key, nontrivial, np_thunk, pt_thunk)

def _ph(name, shape, dtype):
    import pytato as pt
    return pt.make_placeholder(name, tuple(shape), np.dtype(dtype))


def _ones(shape, dtype):
    return np.ones(tuple(shape), dtype=np.dtype(dtype))


BINOPS = {"add": operator.add, "sub": operator.sub, "mul": operator.mul,
          "truediv": operator.truediv, "floordiv": operator.floordiv,
          "mod": operator.mod, "pow": operator.pow, "and": operator.and_,
          "or": operator.or_, "xor": operator.xor}
BINFUNCS = ("equal", "not_equal", "less", "less_equal", "greater",
            "greater_equal", "logical_and", "logical_or", "maximum", "minimum")


def _binfn(name):
    import pytato as pt
    if name in BINOPS:
        return BINOPS[name], BINOPS[name]
    return getattr(np, name), getattr(pt, name)


def enum_binary(dts):
    for name in list(BINOPS) + list(BINFUNCS):
        npf, ptf = _binfn(name)
        for d1, d2 in itertools.product(dts, dts):
            kk = f"{_k(d1)}{_k(d2)}"
            for kinds, s1, s2 in (("aa", (3,), (3,)), ("a0", (3,), ()),
                                  ("0a", (), (3,))):
                yield (f"{name}({d1}{list(s1)}, {d2}{list(s2)})",
                       f"{name}|{kinds}|{kk}", d1 != d2,
                       lambda npf=npf, d1=d1, d2=d2, s1=s1, s2=s2:
                       npf(_ones(s1, d1), _ones(s2, d2)),
                       lambda ptf=ptf, d1=d1, d2=d2, s1=s1, s2=s2:
                       ptf(_ph("a", s1, d1), _ph("b", s2, d2)))
            for rev in (False, True):
                sc = np.dtype(d2).type(1)
                yield (f"{name}({d1}[3], np.{d2}(1), rev={rev})",
                       f"{name}|{'na' if rev else 'an'}|{kk}", True,
                       (lambda npf=npf, d1=d1, sc=sc, rev=rev:
                        npf(sc, _ones((3,), d1)) if rev
                        else npf(_ones((3,), d1), sc)),
                       (lambda ptf=ptf, d1=d1, sc=sc, rev=rev:
                        ptf(sc, _ph("a", (3,), d1)) if rev
                        else ptf(_ph("a", (3,), d1), sc)))
        for d1 in dts:
            for pk, pv in PY.items():
                for rev in (False, True):
                    yield (f"{name}({d1}[3], {pk}, rev={rev})",
                           f"{name}|{'pa' if rev else 'ap'}|{_k(d1)}-{pk}", True,
                           (lambda npf=npf, d1=d1, pv=pv, rev=rev:
                            npf(pv, _ones((3,), d1)) if rev
                            else npf(_ones((3,), d1), pv)),
                           (lambda ptf=ptf, d1=d1, pv=pv, rev=rev:
                            ptf(pv, _ph("a", (3,), d1)) if rev
                            else ptf(_ph("a", (3,), d1), pv)))


UNARY = ("abs", "sqrt", "sin", "cos", "tan", "arcsin", "arccos", "arctan",
         "sinh", "cosh", "tanh", "exp", "log", "log10", "isnan", "real", "imag",
         "conj", "logical_not", "zeros_like", "ones_like")


def enum_unary(dts):
    import pytato as pt
    for name in UNARY:
        for d in dts:
            yield (f"{name}({d}[2,3])", f"{name}|a|{_k(d)}", True,
                   lambda name=name, d=d: getattr(np, name)(_ones((2, 3), d)),
                   lambda name=name, d=d: getattr(pt, name)(_ph("a", (2, 3), d)))
    for d in dts:
        yield (f"neg({d})", f"neg|a|{_k(d)}", True,
               lambda d=d: -_ones((2, 3), d), lambda d=d: -_ph("a", (2, 3), d))
        yield (f"abs-builtin({d})", f"abs|a|{_k(d)}", True,
               lambda d=d: abs(_ones((2, 3), d)),
               lambda d=d: abs(_ph("a", (2, 3), d)))
        for d2 in dts:
            yield (f"astype({d}->{d2})", f"astype|a|{_k(d)}{_k(d2)}", True,
                   lambda d=d, d2=d2: _ones((2, 3), d).astype(np.dtype(d2)),
                   lambda d=d, d2=d2: _ph("a", (2, 3), d).astype(np.dtype(d2)))


REDS = ("sum", "prod", "amax", "amin", "all", "any")


def enum_two_argument_functions(dts):
    """arctan2 over every pair of dtypes (the result type is that of both
    arguments, not of the first)"""
    import pytato as pt
    for d1, d2 in itertools.product(dts, dts):
        yield (f"arctan2({d1}, {d2})", f"arctan2|dtypes|{_k(d1)}{_k(d2)}", True,
               lambda d1=d1, d2=d2: np.arctan2(_ones((2, 3), d1),
                                               _ones((2, 3), d2)),
               lambda d1=d1, d2=d2: pt.arctan2(_ph("a", (2, 3), d1),
                                               _ph("b", (2, 3), d2)))


def enum_reductions(dts):
    import pytato as pt
    for name in REDS:
        for d in dts:
            yield (f"{name}({d}[2,3])", f"{name}|dtype|{_k(d)}", True,
                   lambda name=name, d=d: getattr(np, name)(_ones((2, 3), d)),
                   lambda name=name, d=d: getattr(pt, name)(
                       _ph("a", (2, 3), d)))
        for shape in ((), (3,), (2, 3), (2, 0, 3)):
            nd = len(shape)
            axes = [None] + list(range(-nd - 1, nd + 2))
            axes += [t for r in (0, 2) for t in itertools.permutations(
                range(-nd, nd), r)][:40]
            # an axis named twice (NumPy: ValueError)
            axes += [(k, k) for k in range(nd)] + (
                [(0, 1, 0), (1, 0, 1)] if nd >= 2 else [])
            for ax in axes:
                yield (f"{name}(float64{list(shape)}, axis={ax})",
                       f"{name}|axis|{'neg' if (isinstance(ax, int) and ax < 0) or (isinstance(ax, tuple) and any(a < 0 for a in ax)) else 'pos'}",
                       True,
                       lambda name=name, shape=shape, ax=ax: getattr(np, name)(
                           _ones(shape, "float64"), axis=ax),
                       lambda name=name, shape=shape, ax=ax: getattr(pt, name)(
                           _ph("a", shape, "float64"), axis=ax))


def _shapes(max_axes, max_len):
    out = []
    for nd in range(max_axes + 1):
        out.extend(itertools.product(range(max_len + 1), repeat=nd))
    return out


def enum_broadcast():
    import pytato as pt
    shapes = _shapes(3, 4)
    for s1, s2 in itertools.product(shapes, shapes):
        yield (f"add({list(s1)}, {list(s2)})", "add|shapes", s1 != s2,
               lambda s1=s1, s2=s2: _ones(s1, "float64") + _ones(s2, "float64"),
               lambda s1=s1, s2=s2: _ph("a", s1, "float64") + _ph(
                   "b", s2, "float64"))
    small = _shapes(2, 3)
    for s0, s1, s2 in itertools.product(small, small, small):
        yield (f"where({list(s0)}, {list(s1)}, {list(s2)})", "where|shapes",
               True,
               lambda s0=s0, s1=s1, s2=s2: np.where(
                   _ones(s0, "bool"), _ones(s1, "float64"),
                   _ones(s2, "float64")),
               lambda s0=s0, s1=s1, s2=s2: pt.where(
                   _ph("c", s0, "bool"), _ph("a", s1, "float64"),
                   _ph("b", s2, "float64")))
    # (operands of different rank, both >= 3: batch axes align at the end)
    mixed = [(a, b) for a in itertools.product((1, 2, 3), (2, 3), (2,))
             for b in itertools.product((1, 2), (1, 2, 3), (2,), (2, 3))]
    mixed += [(b[:2] + (b[3], b[2]), a[:1] + (a[2], a[1])) for a, b in mixed]
    for s1, s2 in itertools.chain(
            itertools.product(_shapes(3, 3), _shapes(3, 3)), mixed):
        yield (f"matmul({list(s1)}, {list(s2)})", "matmul|shapes", True,
               lambda s1=s1, s2=s2: _ones(s1, "float64") @ _ones(s2, "float64"),
               lambda s1=s1, s2=s2: _ph("a", s1, "float64") @ _ph(
                   "b", s2, "float64"))
        yield (f"broadcast_to({list(s1)}, {list(s2)})", "broadcast_to|shapes",
               True,
               lambda s1=s1, s2=s2: np.broadcast_to(_ones(s1, "float64"), s2),
               lambda s1=s1, s2=s2: pt.broadcast_to(_ph("a", s1, "float64"),
                                                    s2))


def enum_where_dtypes(dts):
    import pytato as pt
    # three operands: promotion is not associative (int8, uint16, float32)
    # (all thirteen dtypes in both tiers: 2 x 2197 cheap calls)
    for d1, d2, d3 in itertools.product(ALL_DT, ALL_DT, ALL_DT):
        for fn in ("stack", "concatenate"):
            yield (f"{fn}({d1}, {d2}, {d3})",
                   f"{fn}|dtype3|{_k(d1)}{_k(d2)}{_k(d3)}", True,
                   lambda d1=d1, d2=d2, d3=d3, fn=fn: getattr(np, fn)(
                       [_ones((2,), d1), _ones((2,), d2), _ones((2,), d3)]),
                   lambda d1=d1, d2=d2, d3=d3, fn=fn: getattr(pt, fn)(
                       [_ph("a", (2,), d1), _ph("b", (2,), d2),
                        _ph("c", (2,), d3)]))
    for d1, d2 in itertools.product(dts, dts):
        yield (f"where(bool, {d1}, {d2})", f"where|aa|{_k(d1)}{_k(d2)}", True,
               lambda d1=d1, d2=d2: np.where(_ones((3,), "bool"),
                                             _ones((3,), d1), _ones((3,), d2)),
               lambda d1=d1, d2=d2: pt.where(_ph("c", (3,), "bool"),
                                             _ph("a", (3,), d1),
                                             _ph("b", (3,), d2)))
        yield (f"stack({d1}, {d2})", f"stack|dtype|{_k(d1)}{_k(d2)}", True,
               lambda d1=d1, d2=d2: np.stack([_ones((3,), d1),
                                              _ones((3,), d2)]),
               lambda d1=d1, d2=d2: pt.stack([_ph("a", (3,), d1),
                                              _ph("b", (3,), d2)]))
        yield (f"concatenate({d1}, {d2})", f"concatenate|dtype|{_k(d1)}{_k(d2)}",
               True,
               lambda d1=d1, d2=d2: np.concatenate([_ones((3,), d1),
                                                    _ones((3,), d2)]),
               lambda d1=d1, d2=d2: pt.concatenate([_ph("a", (3,), d1),
                                                    _ph("b", (3,), d2)]))
        yield (f"einsum({d1}, {d2})", f"einsum|dtype|{_k(d1)}{_k(d2)}", True,
               lambda d1=d1, d2=d2: np.einsum("i,i->i", _ones((3,), d1),
                                              _ones((3,), d2)),
               lambda d1=d1, d2=d2: pt.einsum("i,i->i", _ph("a", (3,), d1),
                                              _ph("b", (3,), d2)))
    for d1 in dts:
        for pk, pv in PY.items():
            for pos in (1, 2):
                yield (f"where(bool, {d1}, {pk}, scalar at {pos})",
                       f"where|scalar|{_k(d1)}-{pk}", True,
                       (lambda d1=d1, pv=pv, pos=pos: np.where(
                           _ones((3,), "bool"), pv, _ones((3,), d1))
                        if pos == 1 else np.where(
                            _ones((3,), "bool"), _ones((3,), d1), pv)),
                       (lambda d1=d1, pv=pv, pos=pos: pt.where(
                           _ph("c", (3,), "bool"), pv, _ph("a", (3,), d1))
                        if pos == 1 else pt.where(
                            _ph("c", (3,), "bool"), _ph("a", (3,), d1), pv)))


def enum_index():
    for n in range(0, 7):
        bounds = [None] + list(range(-n - 2, n + 3))
        steps = [None] + [s for s in range(-(n + 1), n + 2) if s != 0]
        for start, stop, step in itertools.product(bounds, bounds, steps):
            sl = slice(start, stop, step)
            yield (f"x[{n}][{start}:{stop}:{step}]", "index|slice",
                   sl != slice(None),
                   lambda n=n, sl=sl: _ones((n,), "float64")[sl],
                   lambda n=n, sl=sl: _ph("a", (n,), "float64")[sl])
        for i in range(-n - 2, n + 3):
            yield (f"x[{n}][{i}]", "index|int", True,
                   lambda n=n, i=i: _ones((n,), "float64")[i],
                   lambda n=n, i=i: _ph("a", (n,), "float64")[i])
            yield (f"x[3,{n}][1, {i}]", "index|int2", True,
                   lambda n=n, i=i: _ones((3, n), "float64")[1, i],
                   lambda n=n, i=i: _ph("a", (3, n), "float64")[1, i])
    for idx, lab in (((0, 0, 0), "too-many"), ((Ellipsis, Ellipsis), "2-ellipsis"),
                     ((Ellipsis, 1), "ellipsis"), ((slice(None), Ellipsis, 0),
                                                   "mid-ellipsis"),
                     ((1.5,), "float"), ((None,), "newaxis")):
        yield (f"x[3,4][{lab}]", "index|misc", True,
               lambda idx=idx: _ones((3, 4), "float64")[idx],
               lambda idx=idx: _ph("a", (3, 4), "float64")[idx])
    for n, ishape, idt in itertools.product((0, 3), ((2,), (2, 2), (0,)),
                                            ("int32", "int64", "uint8",
                                             "float64", "bool")):
        yield (f"x[{n},4][{idt}{list(ishape)}]", f"index|array|{_k(idt)}", True,
               lambda n=n, ishape=ishape, idt=idt: _ones((n, 4), "float64")[
                   np.zeros(ishape, np.dtype(idt))],
               lambda n=n, ishape=ishape, idt=idt: _ph(
                   "a", (n, 4), "float64")[_ph("i", ishape, idt)])
    for s1, s2 in itertools.product(((2,), (3,), (2, 1), (1, 3), (2, 3)),
                                    repeat=2):
        yield (f"x[4,5][int{list(s1)}, int{list(s2)}]", "index|arrays", True,
               lambda s1=s1, s2=s2: _ones((4, 5), "float64")[
                   np.zeros(s1, np.int32), np.zeros(s2, np.int32)],
               lambda s1=s1, s2=s2: _ph("a", (4, 5), "float64")[
                   _ph("i", s1, "int32"), _ph("j", s2, "int32")])
        yield (f"x[4,3,5][int{list(s1)}, :, int{list(s2)}]",
               "index|arrays-noncontig", True,
               lambda s1=s1, s2=s2: _ones((4, 3, 5), "float64")[
                   np.zeros(s1, np.int32), :, np.zeros(s2, np.int32)],
               lambda s1=s1, s2=s2: _ph("a", (4, 3, 5), "float64")[
                   _ph("i", s1, "int32"), :, _ph("j", s2, "int32")])


def enum_axis():
    import pytato as pt
    for shape in ((), (3,), (2, 3), (2, 1, 3)):
        nd = len(shape)
        for ax in range(-nd - 2, nd + 3):
            neg = "neg" if ax < 0 else "pos"
            yield (f"stack(2x{list(shape)}, axis={ax})", f"stack|axis|{neg}",
                   True,
                   lambda shape=shape, ax=ax: np.stack(
                       [_ones(shape, "float64")] * 2, axis=ax),
                   lambda shape=shape, ax=ax: pt.stack(
                       [_ph("a", shape, "float64"), _ph("b", shape, "float64")],
                       axis=ax))
            yield (f"concatenate(2x{list(shape)}, axis={ax})",
                   f"concatenate|axis|{neg}", True,
                   lambda shape=shape, ax=ax: np.concatenate(
                       [_ones(shape, "float64")] * 2, axis=ax),
                   lambda shape=shape, ax=ax: pt.concatenate(
                       [_ph("a", shape, "float64"), _ph("b", shape, "float64")],
                       axis=ax))
            yield (f"roll({list(shape)}, 1, axis={ax})", f"roll|axis|{neg}",
                   True,
                   lambda shape=shape, ax=ax: np.roll(_ones(shape, "float64"),
                                                      1, axis=ax),
                   lambda shape=shape, ax=ax: pt.roll(_ph("a", shape, "float64"),
                                                      1, axis=ax))
            for sh in (0, -2, 5):
                # (also the shifts that are, or amount to, no shift at all)
                yield (f"roll({list(shape)}, {sh}, axis={ax})",
                       f"roll|axis|{neg}|shift{sh}", True,
                       lambda shape=shape, ax=ax, sh=sh: np.roll(
                           _ones(shape, "float64"), sh, axis=ax),
                       lambda shape=shape, ax=ax, sh=sh: pt.roll(
                           _ph("a", shape, "float64"), sh, axis=ax))
            yield (f"expand_dims({list(shape)}, {ax})",
                   f"expand_dims|axis|{neg}", True,
                   lambda shape=shape, ax=ax: np.expand_dims(
                       _ones(shape, "float64"), ax),
                   lambda shape=shape, ax=ax: pt.expand_dims(
                       _ph("a", shape, "float64"), ax))
            yield (f"squeeze({list(shape)}, ({ax},))", f"squeeze|axis|{neg}",
                   True,
                   lambda shape=shape, ax=ax: np.squeeze(
                       _ones(shape, "float64"), (ax,)),
                   lambda shape=shape, ax=ax: pt.squeeze(
                       _ph("a", shape, "float64"), (ax,)))
        yield (f"roll({list(shape)}, 1)", "roll|noaxis", True,
               lambda shape=shape: np.roll(_ones(shape, "float64"), 1),
               lambda shape=shape: pt.roll(_ph("a", shape, "float64"), 1))
        yield (f"squeeze({list(shape)})", "squeeze|none", True,
               lambda shape=shape: np.squeeze(_ones(shape, "float64")),
               lambda shape=shape: pt.squeeze(_ph("a", shape, "float64")))
        for perm in itertools.product(range(-nd, nd + 1), repeat=nd):
            if nd == 0:
                continue
            neg = "neg" if any(p < 0 for p in perm) else "pos"
            yield (f"transpose({list(shape)}, {perm})", f"transpose|axes|{neg}",
                   True,
                   lambda shape=shape, perm=perm: np.transpose(
                       _ones(shape, "float64"), perm),
                   lambda shape=shape, perm=perm: pt.transpose(
                       _ph("a", shape, "float64"), perm))
    for sa, sb, ax in itertools.product(((2, 3), (3,), (2, 0)),
                                        ((2, 3), (4, 3), (2, 4), (3,), ()),
                                        (0, 1)):
        yield (f"concatenate({list(sa)}, {list(sb)}, axis={ax})",
               "concatenate|shapes", True,
               lambda sa=sa, sb=sb, ax=ax: np.concatenate(
                   [_ones(sa, "float64"), _ones(sb, "float64")], axis=ax),
               lambda sa=sa, sb=sb, ax=ax: pt.concatenate(
                   [_ph("a", sa, "float64"), _ph("b", sb, "float64")], axis=ax))
        yield (f"stack({list(sa)}, {list(sb)}, axis={ax})", "stack|shapes",
               True,
               lambda sa=sa, sb=sb, ax=ax: np.stack(
                   [_ones(sa, "float64"), _ones(sb, "float64")], axis=ax),
               lambda sa=sa, sb=sb, ax=ax: pt.stack(
                   [_ph("a", sa, "float64"), _ph("b", sb, "float64")], axis=ax))


def enum_misc(dts):
    import pytato as pt
    for old in ((6,), (2, 3), (0, 3), (), (1,), (2, 3, 2)):
        for new in ((6,), (3, 2), (-1,), (2, -1), (-1, -1), (4,), (0,), (0, -1),
                    (), (1, 1), (3, 0), 6, (-2, 3), (12,), (2, 2, 3), (-1, 0)):
            for order in ("C", "F"):
                yield (f"reshape({list(old)}, {new}, {order})", "reshape|shape",
                       True,
                       lambda old=old, new=new, order=order: np.reshape(
                           _ones(old, "float64"), new, order=order),
                       lambda old=old, new=new, order=order: pt.reshape(
                           _ph("a", old, "float64"), new, order=order))
    for spec, shapes in (("ij,jk->ik", ((2, 3), (3, 4))),
                         ("ij,jk->ik", ((2, 3), (4, 4))),
                         ("ij,ij->", ((2, 3), (2, 1))),
                         ("ii->i", ((3, 3),)), ("ii->i", ((3, 4),)),
                         ("ij->ji", ((2, 3),)), ("ij->jj", ((2, 3),)),
                         ("ij,j->i", ((2, 3), (2,))), ("i,i->i", ((3,), (3, 1))),
                         ("ij->k", ((2, 3),)), ("i->", ((3,),)),
                         ("ijk->", ((2, 3),))):
        yield (f"einsum({spec}, {shapes})", "einsum|spec", True,
               lambda spec=spec, shapes=shapes: np.einsum(
                   spec, *[_ones(s, "float64") for s in shapes]),
               lambda spec=spec, shapes=shapes: pt.einsum(
                   spec, *[_ph(f"a{i}", s, "float64")
                           for i, s in enumerate(shapes)]))
    for d in list(dts) + [None]:
        for v, vk in ((1, "pyint"), (2.5, "pyfloat"), (True, "pybool"),
                      (1j, "pycomplex")):
            yield (f"full((2,), {vk}, {d})", f"full|{vk}|{_k(d) if d else '-'}",
                   True,
                   lambda d=d, v=v: np.full((2,), v, None if d is None
                                            else np.dtype(d)),
                   lambda d=d, v=v: pt.full((2,), v, None if d is None
                                            else np.dtype(d)))
        if d is not None:
            yield (f"zeros({d})", f"zeros|{_k(d)}", True,
                   lambda d=d: np.zeros((2, 3), np.dtype(d)),
                   lambda d=d: pt.zeros((2, 3), np.dtype(d)))
            yield (f"eye({d})", f"eye|{_k(d)}", True,
                   lambda d=d: np.eye(3, 4, 1, dtype=np.dtype(d)),
                   lambda d=d: pt.eye(3, 4, 1, dtype=np.dtype(d)))
            if _k(d) != "b":
                yield (f"arange(1, 7, 2, {d})", f"arange|{_k(d)}", True,
                       lambda d=d: np.arange(1, 7, 2, dtype=np.dtype(d)),
                       lambda d=d: pt.arange(1, 7, 2, dtype=np.dtype(d)))
    for N, M, k in itertools.product((0, 1, 3), (None, 0, 1, 4),
                                     (-2, 0, 1, 5)):
        yield (f"eye({N}, {M}, {k})", "eye|shape", True,
               lambda N=N, M=M, k=k: np.eye(N, M, k),
               lambda N=N, M=M, k=k: pt.eye(N, M, k))
    for shape, pw in itertools.product(((3,), (2, 3)),
                                       (1, (1, 2), ((1, 2),), ((1, 2), (0, 1)),
                                        ((1, 2), (0, 1), (1, 1)), -1)):
        yield (f"pad({list(shape)}, {pw})", "pad|width", True,
               lambda shape=shape, pw=pw: np.pad(_ones(shape, "float64"), pw),
               lambda shape=shape, pw=pw: pt.pad(_ph("a", shape, "float64"),
                                                 pw))
    for s1, s2 in itertools.product(((3,), (2, 3), (), (2, 2)), repeat=2):
        yield (f"dot({list(s1)}, {list(s2)})", "dot|shapes", True,
               lambda s1=s1, s2=s2: np.dot(_ones(s1, "float64"),
                                           _ones(s2, "float64")),
               lambda s1=s1, s2=s2: pt.dot(_ph("a", s1, "float64"),
                                           _ph("b", s2, "float64")))
        yield (f"vdot({list(s1)}, {list(s2)})", "vdot|shapes", True,
               lambda s1=s1, s2=s2: np.vdot(_ones(s1, "float64"),
                                            _ones(s2, "float64")),
               lambda s1=s1, s2=s2: pt.vdot(_ph("a", s1, "float64"),
                                            _ph("b", s2, "float64")))


def all_calls(dts):
    return itertools.chain(enum_binary(dts), enum_unary(dts),
                           enum_two_argument_functions(dts),
                           enum_reductions(dts), enum_where_dtypes(dts),
                           enum_broadcast(), enum_index(), enum_axis(),
                           enum_misc(dts))

# }}}


def check_program(spec, res):
    """(b): every node of one program; failures go to res"""
    from pvf import npref
    from pvf.ptbuild import INPUT_OPS, decode_arg, np_input
    with warnings.catch_warnings():
        warnings.simplefilter("ignore")
        import pytato as pt
        try:
            prog = build_pt(spec, with_tags=False)
        except Exception:  # noqa: BLE001
            res.count("program_skipped")
            return
    # per node: NumPy's own result for operands typed as pytato declares
    # them (so that one deviation is reported where it arises, not at
    # every node downstream of it)
    decl = []
    for i, node in enumerate(spec["nodes"]):
        pn = prog.nodes[i]
        op = node["op"]
        try:
            if op in INPUT_OPS:
                v = np_input(node)
            else:
                args = [decode_arg(a, decl) for a in node.get("args", [])]
                if any(a is None for a in args):
                    decl.append(None)
                    continue
                v = npref._native(op, args, node.get("p"))
        except (npref.Unsound, npref.NpReject):
            decl.append(None)
            continue
        if not isinstance(pn, pt.Array) or not isinstance(v.a, np.ndarray):
            decl.append(v)
            continue
        try:
            shape = tuple(int(s) for s in pn.shape)
            dtype = np.dtype(pn.dtype)
        except Exception as e:  # noqa: BLE001
            res.fail(Failure("shape-or-dtype-not-eager", f"{op}: "
                             f"{type(e).__name__}", f"program|{op}"), spec)
            return
        res.count("program_nodes")
        if shape != v.a.shape:
            res.fail(Failure("shape-differs", f"node {i} ({op}): pytato "
                             f"{shape}, NumPy {v.a.shape}",
                             f"program|{op}"), spec)
            return
        if dtype != v.a.dtype:
            kinds = "".join(sorted({_k(prog.nodes[a[1]].dtype)
                                    for a in node.get("args", [])
                                    if a[0] == "n" and isinstance(
                                        prog.nodes[a[1]], pt.Array)}))
            lits = "".join(sorted({a[0] for a in node.get("args", [])
                                   if a[0] != "n"}))
            res.fail(Failure("dtype-differs", f"node {i} ({op}): pytato "
                             f"{dtype}, NumPy {v.a.dtype}",
                             f"program|{op}|{kinds}|{lits}"), spec)
            # continue with pytato's dtype so that later nodes are judged
        try:
            decl.append(npref.coerce(v, dtype))
        except npref.Unsound:
            decl.append(None)
    res.nontrivial.add(spec_hash(spec))
    res.sample(spec, limit=4)



def run_shard(shard: int, nshards: int, seed: int, tier: str) -> ShardResult:
    pl = plan(tier)
    res = ShardResult()
    n = 0
    for k, (label, key, nontrivial, npt, ptt) in enumerate(
            all_calls(pl["dtypes"])):
        if k % nshards != shard:
            continue
        n += 1
        res.evaluations += 1
        npo = run_np(npt)
        pto = run_pt(ptt)
        f, klass = judge(label, key, npo, pto)
        res.count("enum:" + klass)
        if klass == "np-rejects" or klass == "both-reject" or (
                klass == "both-accept" and nontrivial):
            res.nontrivial.add(label)
        if k % 2503 == 0:
            res.sample({"call": label, "numpy": str(npo), "pytato": str(pto)})
        if f is not None:
            res.fail(f, {"call": label, "key": key})
    res.extra["enumerated_calls"] = n
    res.extra["exhaustive"] = True

    # (b) every node of random programs
    cfg = progen.GenCfg(min_ops=2, max_ops=10, p_nan=0.0)

    def body(pv):
        spec, vals = pv
        spec = gc(spec)
        res.evaluations += 1
        check_program(spec, res)

    hyp_run(progen.programs(cfg), body, seed, pl["examples"])
    return res


def replay(case) -> Failure | None:
    if "call" in case:
        for label, key, nontrivial, npt, ptt in all_calls(ALL_DT):
            if label == case["call"]:
                f, _ = judge(label, key, run_np(npt), run_pt(ptt))
                return f
        return None
    res = ShardResult()
    check_program(case, res)
    if res.failures:
        f = res.failures[0]["failure"]
        return Failure(f["kind"], f["detail"], f.get("where", ""))
    return None
