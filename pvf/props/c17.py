"""C17 - code generation, partitioning and tag numbering are process-
independent."""
from __future__ import annotations

import json
import os
import shutil
import subprocess
import sys
import tempfile

from hypothesis import strategies as st

from pvf import progen
from pvf.oracle import Failure
from pvf.ptbuild import gc, spec_hash
from pvf.runner import ShardResult, hyp_run

ID = "C17"
LEVEL = "exploration"
RULE = ("batches of grammar programs (C01's space incl. tags drawn as in C07, "
        "loopy calls, several outputs, shared subexpressions) and of "
        "distributed programs (C08's space) are handed, as JSON text, to "
        "fresh child interpreters started with PYTHONHASHSEED = 0, 1, 2, ... "
        "and three histories (plain; 'churn': other graphs built, code "
        "generated for them and half of them discarded first; 'reverse': "
        "the batch processed in the opposite order).  The batch also holds "
        "programs around hand-written loopy kernels of one name and "
        "different shapes, and C16's symbolic-shape programs.  Each "
        "child emits, per program: an order-preserving description of the "
        "loopy kernel (arguments, temporaries, domains, substitution rules, "
        "instructions with dependencies, in kernel order), the C source, the "
        "names of pre-bound arguments, the generated NumPy-like Python source "
        "and its argument list, and for distributed programs the part "
        "structure (part ids, their inputs/outputs/sends/receives in order, "
        "names), the tag map of number_distributed_tags and the kernel of "
        "every part, generated as generate_code_for_partition does.  Oracle: every "
        "artefact is byte-identical in all children, and identical when "
        "produced twice in one child (of an exception, its type and raise "
        "site are the artefact).  non-trivial = program with >= 3 "
        "operation nodes or >= 2 outputs; distinct by canonical JSON")
ASSUMPTIONS = [
    "loopy's own str() of a kernel is not compared (its set printing is "
    "loopy's business); the C source loopy generates is",
    "hash seeds are sampled (0..k), not exhausted; an order dependence that "
    "shows only for rarer seeds can be missed",
]

ROOT = os.path.dirname(os.path.dirname(os.path.dirname(os.path.abspath(__file__))))


def plan(tier: str) -> dict:
    if tier == "thorough":
        return {"shards": 16, "examples": 60, "max_ops": 14, "dist": 150,
                "sym": 25, "loopy": 12,
                "children": [(0, "plain"), (1, "plain"), (2, "churn"),
                             (3, "reverse"), (4, "churn"), (5, "plain"),
                             (6, "reverse"), (7, "churn")]}
    return {"shards": 16, "examples": 10, "max_ops": 10, "dist": 30,
            "sym": 6, "loopy": 4,
            "children": [(0, "plain"), (1, "churn"), (2, "reverse")]}


def run_children(cases, children) -> list[list[dict]]:
    d = tempfile.mkdtemp(prefix="pvf-c17-")
    try:
        inp = os.path.join(d, "cases.json")
        with open(inp, "w") as f:
            json.dump(cases, f)
        procs = []
        for hs, history in children:
            env = dict(os.environ)
            env["PYTHONHASHSEED"] = str(hs)
            env["PYTHONPATH"] = ROOT
            outp = os.path.join(d, f"out-{hs}-{history}.json")
            procs.append((outp, hs, history, subprocess.Popen(
                [sys.executable, "-m", "pvf.c17child", inp, outp, history],
                env=env, stdout=subprocess.PIPE, stderr=subprocess.PIPE,
                text=True, cwd=ROOT)))
        results = []
        for outp, hs, history, p in procs:
            so, se = p.communicate()
            if p.returncode != 0 or "PVF-CHILD-OK" not in so:
                raise RuntimeError(f"child (hashseed {hs}, {history}) failed:\n"
                                   + se[-3000:])
            with open(outp) as f:
                results.append(json.load(f))
        return results
    finally:
        shutil.rmtree(d, ignore_errors=True)


def first_diff(a: str, b: str) -> str:
    la, lb = a.splitlines(), b.splitlines()
    for i, (x, y) in enumerate(zip(la, lb)):
        if x != y:
            return f"line {i + 1}: {x[:160]!r} vs {y[:160]!r}"
    return f"{len(la)} vs {len(lb)} lines"


def compare(case, per_child, children) -> Failure | None:
    base = per_child[0]
    for r, (hs, history) in zip(per_child, children):
        if r["twice_differs"]:
            return Failure("differs-within-one-process",
                           f"{r['twice_differs']} differ between two "
                           f"generations in one process (hashseed {hs})",
                           r["twice_differs"][0])
    for r, (hs, history) in zip(per_child[1:], children[1:]):
        keys = sorted(set(base["artefacts"]) | set(r["artefacts"]))
        for k in keys:
            a, b = base["artefacts"].get(k), r["artefacts"].get(k)
            if a != b:
                return Failure(
                    "differs-between-processes",
                    f"artefact '{k}': PYTHONHASHSEED={children[0][0]}/"
                    f"{children[0][1]} vs {hs}/{history}: "
                    + first_diff(a or "<missing>", b or "<missing>"), k)
    return None


def run_shard(shard: int, nshards: int, seed: int, tier: str) -> ShardResult:
    from pvf.props import c07
    pl = plan(tier)
    res = ShardResult()
    cfg = progen.GenCfg(max_ops=pl["max_ops"], min_ops=2)
    cases = []

    def body(x):
        (spec, vals), data = x
        spec = gc(spec)
        if data.draw(st.booleans()):
            tags = data.draw(c07.assignments(spec))
            spec = c07.tagged(spec, tags)
            res.count("with_tags")
        if data.draw(st.integers(0, 3)) == 0:
            # input names that differ only in case, digits, underscores:
            # orderings by a non-injective key would tie
            pool = ["A", "a", "B", "b", "X", "x", "a_", "A_", "a1", "A1"]
            k = 0
            for n in spec["nodes"]:
                if n["op"] == "placeholder" and k < len(pool):
                    n["p"]["name"] = pool[k]
                    k += 1
            res.count("case_variant_names")
        cases.append({"spec": spec})

    hyp_run(st.tuples(progen.programs(cfg), st.data()), body, seed,
            pl["examples"])
    # programs around hand-written loopy kernels (same kernel name, other
    # shapes: the callee must not be renamed depending on what the process
    # compiled before)
    lcfg = progen.GenCfg(max_ops=5, min_ops=1, groups=frozenset(
        {"loopy", "arith", "transpose", "reshape"}))

    def lbody(pv):
        spec, vals = pv
        cases.append({"spec": gc(spec)})
        if any(n["op"] == "call_loopy" for n in spec["nodes"]):
            res.count("programs_with_loopy_call")

    hyp_run(progen.programs(lcfg), lbody, seed + 3, pl["loopy"])
    # programs with symbolic shapes (domains over several size parameters)
    from pvf.props import c16

    def sbody(desc):
        cases.append({"spec": {"sym": desc}})
        res.count("symbolic_programs")

    hyp_run(c16.sym_programs(), sbody, seed + 4, pl["sym"])
    cases.extend(dist_cases(seed, pl, res))
    per_child = run_children(cases, pl["children"])
    for i, case in enumerate(cases):
        res.evaluations += 1
        rs = [pc[i] for pc in per_child]
        for k, v in rs[0]["artefacts"].items():
            res.count("artefact:" + k + (":exception" if v.startswith(
                "exception:") else ""))
        if "spec" in case and "sym" in case["spec"]:
            res.nontrivial.add(spec_hash(case["spec"]))
        elif "spec" in case:
            nops = len([n for n in case["spec"]["nodes"] if n["op"] not in (
                "placeholder", "data", "sizeparam")])
            if nops >= 3 or len(case["spec"]["outputs"]) >= 2:
                res.nontrivial.add(spec_hash(case["spec"]))
        else:
            res.nontrivial.add(spec_hash(case))
        res.sample(case, limit=2)
        f = compare(case, rs, pl["children"])
        if f is not None:
            res.fail(f, case)
    res.count("children", len(pl["children"]))
    return res


def dist_cases(seed, pl, res) -> list:
    """distributed programs of C08's space (pvf/distgen.py)"""
    from pvf import distgen
    out = []

    def body(case):
        out.append({"dist": case})
        res.count("distributed_programs")

    hyp_run(distgen.cases(), body, seed + 5, pl["dist"])
    return out


def dist_summary(case) -> dict[str, str]:
    """(runs in the child) part structure, names and tag numbers of every
    rank, as canonical JSON text"""
    from pvf.props import c09
    s = c09.summarize_case(case["dist"])
    out = {}
    if "ranks" in s:
        for r, rs in enumerate(s["ranks"]):
            out[f"partition_rank{r}"] = json.dumps(rs, sort_keys=True, indent=0)
        out["next_tag"] = json.dumps(s["next_tag"])
    else:
        out["partition"] = json.dumps(s, sort_keys=True)
        return out
    # the code of every part, generated the way generate_code_for_partition
    # does it: from a dictionary built in the iteration order of the part's
    # (frozen)set of output names
    import warnings
    import pytato as pt
    from pvf import distgen, distsim
    from pvf.c17child import describe_kernel, norm_exc
    from pvf.cexec import c_target
    distsim.install()
    with warnings.catch_warnings():
        warnings.simplefilter("ignore")
        builds = distgen.build_case(case["dist"])
        po = distsim.partition_all(builds, do_verify=False, do_number=False)
        if not po.all_done():
            return out
        # (the real function, with the C target standing in for its
        # default OpenCL one)
        real = pt.generate_loopy
        pt.generate_loopy = lambda d, **kw: real(d, target=c_target(), **kw)
        try:
            from pytato.distributed.execute import generate_code_for_partition
            for r in po.ranks:
                try:
                    prgs = generate_code_for_partition(r.partition)
                    texts = [f"part {pid!r}\n" + describe_kernel(bp.program)
                             + "\nbound " + ",".join(bp.bound_arguments)
                             for pid, bp in sorted(prgs.items(),
                                                   key=lambda kv: repr(kv[0]))]
                except Exception as e:  # noqa: BLE001
                    texts = [norm_exc(e)]
                out[f"part_code_rank{r.rank}"] = "\n".join(texts)
        finally:
            pt.generate_loopy = real
    return out


def replay(case) -> Failure | None:
    children = plan("thorough")["children"]
    per_child = run_children([case], children)
    return compare(case, [pc[0] for pc in per_child], children)
