"""C12 - outlining a function and inlining its calls are inverse and
value-preserving."""
from __future__ import annotations

import copy
import warnings

import numpy as np
from hypothesis import strategies as st

from pvf import npref, progen, reflect
from pvf.oracle import Failure, compare_values, exc_site
from pvf.ptbuild import build_pt, eval_np, gc, input_values, spec_hash
from pvf.refeval import RefEval, RefOutOfBounds, RefUnsupported
from pvf.runner import ShardResult, hyp_run

ID = "C12"
LEVEL = "exploration"
RULE = ("1..2 function definitions whose bodies are grammar programs over 1..4 "
        "parameters (the second may call the first: nesting), returning an "
        "array, a tuple or a dict; a caller with 1..3 call sites per program "
        "(positional, keyword and mixed arguments; fresh argument values per "
        "call; arguments that are earlier call results when shapes allow), "
        "caller placeholders named like callee parameters or like the "
        "placeholders trace_call makes (in__pt_0, in_x0, x0, _pt_0).  Oracle: "
        "(1) pt.trace_call results have the shape, dtype and reference-"
        "evaluator value of calling the Python function directly, which in "
        "turn equals NumPy; (2) after tag_all_calls_to_be_inlined + "
        "inline_calls a reflective walk finds no Call/NamedCallResult and "
        "values are bit-identical; (3) thorough: the inlined graph's generated"
        " C code agrees with NumPy.  non-trivial = >= 2 call sites, or "
        "nesting, or a name coincidence between caller and callee; distinct "
        "by canonical JSON")
RULE += '  Round-4 addition: a traced call whose result is not an array where the direct call returns one is a violation (was a harness error).'
RULE += '  Round-5 addition: 10 programs calling two different functions of one identifier and signature whose bodies differ only in a constant (-1/-2, 1.0/2.0), an operand or an operator, on the same arguments.'
ASSUMPTIONS = [
    "callee bodies use exact (integer/dyadic) arithmetic, index remapping, "
    "reductions, comparisons and contractions so that every call with fresh "
    "arguments stays inside the sound fragment",
    "reference evaluator pvf/refeval.py evaluates a Call by binding the "
    "parameters and evaluating the body (documentation semantics, not the "
    "inliner)",
]

BODY_GROUPS = frozenset({"arith", "unary", "compare", "where", "maxmin",
                         "reduce", "stack", "concat", "roll", "transpose",
                         "reshape", "index", "einsum", "matmul", "expand",
                         "squeeze", "broadcast", "astype"})
ADVERSARIAL = ("in__pt_0", "in__pt_1", "in_x0", "in_x1", "x0", "x1", "_pt_0",
               "in__pt_2", "y", "in_y")


def plan(tier: str) -> dict:
    if tier == "thorough":
        return {"shards": 16, "examples": 1200, "cexec_every": 8}
    return {"shards": 16, "examples": 250, "cexec_every": 0}


# {{{ generator

def _params(body):
    return [n for n in body["nodes"] if n["op"] == "placeholder"]


@st.composite
def cases(draw):
    cfg = progen.GenCfg(min_ops=1, max_ops=6, max_inputs=3, groups=BODY_GROUPS,
                        dtypes=("int32", "int64", "float64", "bool"),
                        p_nan=0.0, p_zero=0.05, p_complex=0.0, max_len=3,
                        max_size=64, data_wrappers=False,
                        outputs_may_be_inputs=True)
    fns = []
    # first function
    body0, _ = draw(progen.programs(cfg))
    body0 = gc(body0)
    if not _params(body0):
        body0["nodes"].insert(0, {"op": "placeholder", "p": {
            "name": "x9", "shape": [2], "dtype": "float64", "values": [1, 2],
            "scale": 0}})
        body0 = _shift_refs(body0, 1)
    many = draw(st.integers(0, 9)) == 0
    if many:
        # a function returning a long tuple (result names _0 .. _11 do not
        # sort like their positions)
        k = 0
        while len(body0["outputs"]) < 12:
            body0["outputs"].append([f"more{k}", k % len(body0["nodes"])])
            k += 1
    fns.append({"spec": body0,
                "ret": "tuple" if many else _ret_kind(draw, body0),
                "ident": draw(st.sampled_from(["f0", "f", None]))})
    nested = draw(st.integers(0, 3)) == 0
    if nested:
        body1, _ = draw(progen.programs(cfg))
        body1 = gc(body1)
        body1 = _append_call(draw, body1, fns, 0, fresh_names=(
            "x5", "x6", "x7", "x8"), as_output=True)
        fns.append({"spec": body1, "ret": _ret_kind(draw, body1),
                    "ident": draw(st.sampled_from(["f1", "f", None]))})
    # caller
    main = {"nodes": [], "outputs": [], "fns": fns}
    ncalls = draw(st.integers(1, 3))
    names = iter(draw(st.permutations(list(ADVERSARIAL))))
    k_out = 0
    for c in range(ncalls):
        target = len(fns) - 1 if draw(st.integers(0, 3)) else draw(
            st.integers(0, len(fns) - 1))
        before = len(main["nodes"])
        main = _append_call(draw, main, fns, target, fresh_names=names,
                            as_output=False)
        # outputs: every result item of this call
        for i in range(before, len(main["nodes"])):
            if main["nodes"][i]["op"] == "item":
                main["outputs"].append([f"out{k_out}", i])
                k_out += 1
    if len(main["outputs"]) > 3:
        keep = draw(st.permutations(main["outputs"]))[:3]
        main["outputs"] = sorted(keep, key=lambda o: o[0])
    return main


def _shift_refs(spec, by):
    s = copy.deepcopy(spec)
    for n in s["nodes"]:
        for a in n.get("args", []):
            if a[0] == "n":
                a[1] += by
    s["outputs"] = [[k, i + by] for k, i in s["outputs"]]
    return s


def _ret_kind(draw, body):
    n = len(body["outputs"])
    if n == 1:
        return draw(st.sampled_from(["array", "tuple", "dict"]))
    return draw(st.sampled_from(["tuple", "dict"]))


def _append_call(draw, spec, fns, k, fresh_names, as_output):
    """append a call of fns[k] to *spec*: arguments are existing nodes of the
    right shape/dtype (when known) or fresh placeholders."""
    spec = copy.deepcopy(spec)
    body = fns[k]["spec"]
    params = _params(body)
    used = {n["p"]["name"] for n in spec["nodes"] if n["op"] == "placeholder"}
    try:
        vals = eval_np(spec, fns=fns) if spec["nodes"] else []
    except (npref.Unsound, npref.NpReject):
        vals = None
    args = []
    kws = []
    fresh_names = iter(fresh_names)
    for p in params:
        shape, dtype = list(p["p"]["shape"]), p["p"]["dtype"]
        cands = []
        if vals is not None:
            cands = [i for i, v in enumerate(vals)
                     if v is not None and isinstance(v.a, np.ndarray)
                     and list(v.a.shape) == shape and str(v.a.dtype) == dtype]
        if cands and draw(st.integers(0, 2)) == 0:
            args.append(["n", draw(st.sampled_from(cands))])
        else:
            nm = None
            for cand in fresh_names:
                if cand not in used:
                    nm = cand
                    break
            if nm is None:
                nm = f"z{len(spec['nodes'])}"
            used.add(nm)
            n = int(np.prod(shape, dtype=np.int64))
            d = npref.dt(dtype)
            if d.kind == "b":
                values = [bool(b) for b in draw(st.lists(
                    st.booleans(), min_size=n, max_size=n))]
            else:
                values = list(draw(st.lists(st.integers(-6, 6), min_size=n,
                                            max_size=n)))
            spec["nodes"].append({"op": "placeholder", "p": {
                "name": nm, "shape": shape, "dtype": dtype, "values": values,
                "scale": draw(st.integers(0, 2)) if d.kind == "f" else 0}})
            args.append(["n", len(spec["nodes"]) - 1])
        # positional arguments must precede keyword ones
        kws.append(p["p"]["name"] if (kws and kws[-1] is not None)
                   or draw(st.integers(0, 2)) == 0 else None)
    call = {"op": "fncall", "args": args, "p": {
        "fn": k, "kw": kws, "kw_reversed": draw(st.booleans()),
        "identifier": draw(st.sampled_from(["guess", "explicit"]))}}
    spec["nodes"].append(call)
    ci = len(spec["nodes"]) - 1
    for key, _ in body["outputs"]:
        spec["nodes"].append({"op": "item", "args": [["n", ci]],
                              "p": {"key": key}})
        if as_output:
            spec["outputs"].append([f"c{len(spec['outputs'])}",
                                    len(spec["nodes"]) - 1])
    if as_output:
        # unique output keys
        seen = set()
        outs = []
        for q, (key, i) in enumerate(spec["outputs"]):
            if key in seen:
                key = f"{key}_{q}"
            seen.add(key)
            outs.append([key, i])
        spec["outputs"] = outs[:3]
    return spec

# }}}


def _has_calls(g) -> int:
    from pytato.function import Call, NamedCallResult
    return sum(1 for n in reflect.walk(g).values()
               if isinstance(n, (Call, NamedCallResult)))


def evaluate(g, env):
    ev = RefEval(env)
    return {k: np.asarray(ev(g[k].expr)) for k in g.keys()}


def _same(a, b) -> str | None:
    for k in a:
        if k not in b:
            return f"missing output {k}"
        x, y = a[k], b[k]
        if x.shape != y.shape or x.dtype != y.dtype:
            return f"{k}: {y.shape}/{y.dtype} vs {x.shape}/{x.dtype}"
        if not np.array_equal(x, y, equal_nan=x.dtype.kind in "fc"):
            return f"{k}: values differ"
    return None


def case_oracle(case, *, cexec=False):
    info = {}
    with warnings.catch_warnings():
        warnings.simplefilter("ignore")
        import pytato as pt
        try:
            ref = eval_np(case)
        except (npref.Unsound, npref.NpReject) as e:
            info["skip"] = f"reference: {e}"
            return None, info
        env = dict(input_values(case))
        try:
            direct = build_pt(case, mode="direct")
        except Exception as e:  # noqa: BLE001
            return Failure("direct-build-exception", f"{type(e).__name__}: {e}",
                           exc_site(e)), info
        try:
            traced = build_pt(case, mode="traced")
        except Exception as e:  # noqa: BLE001
            return Failure("trace-call-exception", f"{type(e).__name__}: {e}",
                           exc_site(e)), info
        for k in direct.outputs:
            a, b = direct.outputs[k], traced.outputs.get(k)
            if isinstance(a, pt.Array) and not isinstance(b, pt.Array):
                return Failure("traced-result-kind", f"{k}: the traced call "
                               f"returns a {type(b).__name__} where calling "
                               "the function directly returns an array",
                               "trace_call"), info
        gd = direct.dict_of_named_arrays()
        gt = traced.dict_of_named_arrays()
        info["call_nodes"] = _has_calls(gt)
        for k in gd.keys():
            a, b = gd[k].expr, gt[k].expr
            if tuple(a.shape) != tuple(b.shape) or a.dtype != b.dtype:
                return Failure("traced-shape-dtype", f"{k}: traced "
                               f"{b.shape}/{b.dtype} vs direct "
                               f"{a.shape}/{a.dtype}", "trace_call"), info
        try:
            vd = evaluate(gd, env)
            vt = evaluate(gt, env)
        except Exception as e:  # noqa: BLE001 (a broken graph is a finding)
            return Failure("uninterpretable", str(e), "refeval"), info
        for key, idx in case["outputs"]:
            msg = compare_values(vd[key], npref.coerce(ref[idx],
                                                       vd[key].dtype))
            if msg:
                return Failure("direct-vs-numpy", f"{key}: {msg}",
                               "direct"), info
        msg = _same(vd, vt)
        if msg:
            return Failure("traced-value", msg, "trace_call"), info
        # inline
        try:
            # (mappers expect a duplicate-free graph; two traces of one
            # Python function are two equal FunctionDefinitions)
            gi = pt.inline_calls(pt.tag_all_calls_to_be_inlined(
                pt.transform.deduplicate(gt)))
        except Exception as e:  # noqa: BLE001
            return Failure("inline-exception", f"{type(e).__name__}: {e}",
                           exc_site(e)), info
        left = _has_calls(gi)
        if left:
            return Failure("calls-left-after-inlining", f"{left} Call/"
                           "NamedCallResult nodes remain", "inline_calls"), info
        try:
            vi = evaluate(gi, env)
        except Exception as e:  # noqa: BLE001 (a broken graph is a finding)
            return Failure("inlined-uninterpretable", str(e), "refeval"), info
        msg = _same(vd, vi)
        if msg:
            return Failure("inlined-value", msg, "inline_calls"), info
        # the code generator's own preprocessing (name check, inlining,
        # lowering) accepts the graph with its calls tagged for inlining
        try:
            from pytato.codegen import preprocess
            from pvf.cexec import c_target
            preprocess(pt.tag_all_calls_to_be_inlined(
                pt.transform.deduplicate(gt)), c_target())
        except Exception as e:  # noqa: BLE001
            return Failure("preprocess-exception", f"{type(e).__name__}: {e}",
                           exc_site(e)), info
        # one call site tagged for inlining by hand beforehand: the rest must
        # still be found and inlined
        from pytato.function import Call
        from pytato.tags import InlineCallTag
        from pvf import reflect
        gdd = pt.transform.deduplicate(gt)
        calls = [n for n in reflect.topo_order(gdd) if isinstance(n, Call)]
        if len(calls) >= 2 or info["call_nodes"] > len(calls):
            first = calls[-1]        # outermost in topological order
            try:
                pre = pt.transform.map_and_copy(
                    gdd, lambda x: x.tagged(InlineCallTag())
                    if x is first else x)
                gi2 = pt.inline_calls(pt.tag_all_calls_to_be_inlined(pre))
            except Exception as e:  # noqa: BLE001
                return Failure("inline-exception", "one call tagged by hand "
                               f"first: {type(e).__name__}: {e}", exc_site(e)
                               ), info
            left = _has_calls(gi2)
            if left:
                return Failure("calls-left-after-inlining", f"one call tagged "
                               f"by hand first: {left} Call/NamedCallResult "
                               "nodes remain", "inline_calls"), info
            info["pretagged"] = True
        if cexec:
            from pvf.cexec import HarnessError, generate_and_compile
            try:
                knl = generate_and_compile(pt.transform.deduplicate(gi))
                res = knl(**{k: v for k, v in env.items()
                             if k in knl.kernel.arg_dict})
                info["cexec"] = True
                for key, idx in case["outputs"]:
                    m = compare_values(res[key], npref.coerce(
                        ref[idx], res[key].dtype))
                    if m:
                        # is inlining at fault, or code generation (C01 and
                        # its listed loopy findings)?  The same program
                        # without any call, compiled the same way, decides.
                        try:
                            kd = generate_and_compile(
                                pt.transform.deduplicate(gd))
                            rd = kd(**{k: v for k, v in env.items()
                                       if k in kd.kernel.arg_dict})
                            if rd[key].tobytes() == res[key].tobytes():
                                info["codegen_deviation_without_calls"] = True
                                break
                        except HarnessError:
                            raise
                        except Exception:  # noqa: BLE001
                            pass
                        return Failure("inlined-codegen-value", f"{key}: {m}",
                                       "generate_loopy"), info
            except HarnessError:
                raise
            except Exception as e:  # noqa: BLE001
                info["cexec_exception"] = type(e).__name__
    return None, info


def _nontrivial(case) -> bool:
    ncalls = sum(1 for n in case["nodes"] if n["op"] == "fncall")
    nested = any(n["op"] == "fncall" for f in case["fns"]
                 for n in f["spec"]["nodes"])
    callee_names = set()
    for f in case["fns"]:
        for n in _params(f["spec"]):
            nm = n["p"]["name"]
            callee_names |= {nm, "in_" + nm}
        callee_names |= {f"in__pt_{i}" for i in range(4)}
    caller = {n["p"]["name"] for n in case["nodes"] if n["op"] == "placeholder"}
    return ncalls >= 2 or nested or bool(caller & callee_names)


def twin_function_gadgets():
    """two DIFFERENT functions of one identifier and one signature whose
    bodies differ only in a constant (-1 / -2, which hash alike in CPython;
    2 / 3), an operator or the result order, called on the same arguments in
    one graph: neither deduplication nor inlining may take one for the other"""
    def ph(name, values):
        return {"op": "placeholder", "p": {"name": name, "shape": [3],
                                           "dtype": "float64", "scale": 0,
                                           "values": values}}

    def fn(last, ident):
        nodes = [ph("a", [0, 0, 0]), ph("b", [0, 0, 0]),
                 {"op": "mul", "args": [["n", 0], ["n", 1]]}, last]
        return {"spec": {"nodes": nodes, "outputs": [["out0", 3]]},
                "ret": "array", "ident": ident}
    variants = [
        ({"op": "add", "args": [["n", 2], ["py", -1]]},
         {"op": "add", "args": [["n", 2], ["py", -2]]}),
        ({"op": "sub", "args": [["n", 2], ["py", 1.0]]},
         {"op": "sub", "args": [["n", 2], ["py", 2.0]]}),
        ({"op": "mul", "args": [["n", 2], ["py", -1.0]]},
         {"op": "mul", "args": [["n", 2], ["py", -2.0]]}),
        ({"op": "add", "args": [["n", 2], ["n", 0]]},
         {"op": "add", "args": [["n", 2], ["n", 1]]}),
        ({"op": "maximum", "args": [["n", 2], ["n", 0]]},
         {"op": "minimum", "args": [["n", 2], ["n", 0]]}),
    ]
    for la, lb in variants:
        for ident, how in (("f", "given"), (None, "guess")):
            fns = [fn(la, ident), fn(lb, ident)]
            nodes = [ph("x", [1, -2, 4]), ph("y", [3, 5, -7])]
            outs = []
            for t in (0, 1):
                nodes.append({"op": "fncall", "args": [["n", 0], ["n", 1]],
                              "p": {"fn": t, "kw": [None, None],
                                    "identifier": how}})
                nodes.append({"op": "item", "args": [["n", len(nodes) - 1]],
                              "p": {"key": "out0"}})
                outs.append([f"out{t}", len(nodes) - 1])
            yield {"nodes": nodes, "outputs": outs, "fns": fns}


def run_shard(shard: int, nshards: int, seed: int, tier: str) -> ShardResult:
    pl = plan(tier)
    res = ShardResult()
    k = [0]

    def body(case):
        k[0] += 1
        cexec = bool(pl["cexec_every"]) and k[0] % pl["cexec_every"] == 0
        f, info = case_oracle(case, cexec=cexec)
        res.evaluations += 1
        if "skip" in info:
            res.skip(info["skip"][:70])
            return
        ncalls = sum(1 for n in case["nodes"] if n["op"] == "fncall")
        res.count(f"call_sites:{ncalls}")
        if any(n["op"] == "fncall" for fn in case["fns"]
               for n in fn["spec"]["nodes"]):
            res.count("nested")
        for fn in case["fns"]:
            res.count("ret:" + fn["ret"])
        for n in case["nodes"]:
            if n["op"] == "fncall":
                kw = n["p"]["kw"]
                style = ("keyword" if all(kw) else "positional"
                         if not any(kw) else "mixed")
                res.count("args:" + style)
        for key in ("cexec", "cexec_exception"):
            if info.get(key):
                res.count(key)
        if _nontrivial(case):
            res.nontrivial.add(spec_hash(case))
        res.sample(case, limit=2)
        if f is not None:
            res.fail(f, case)

    hyp_run(cases(), body, seed, pl["examples"])
    for j, case in enumerate(twin_function_gadgets()):
        if j % nshards == shard:
            res.count("twin_function_gadget")
            body(case)
    return res


def replay(case) -> Failure | None:
    f, _ = case_oracle(case, cexec=True)
    return f
