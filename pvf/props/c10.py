"""C10 - mismatched or cyclic communication is diagnosed, never partitioned."""
from __future__ import annotations

import copy
import json
import random
import warnings

from pvf import distgen, distsim
from pvf.distgen import decode_tag
from pvf.oracle import Failure, exc_site
from pvf.props import c08
from pvf.runner import HarnessError, ShardResult, derive_seed, hyp_run

ID = "C10"
LEVEL = "fault_enumeration"
RULE = (
    "for every valid multi-rank program of C08's generator (with >= 1 "
    "message): the program itself (must be accepted by "
    "find_distributed_partition and verify_distributed_partition on all "
    "ranks), then EVERY single fault at EVERY message: drop the send (holder "
    "replaced by its pass-through), drop the receive (replaced by an input), "
    "duplicate the send (second holder, same destination and tag, other "
    "payload - once unrelated, once computed from the value of the first "
    "holder), duplicate the receive (second, differently tagged receive node "
    "with the same source and tag), retag the send / the receive to a fresh "
    "tag and to every other tag used between the same pair, redirect the "
    "send / the receive to every third rank and to a rank that does not "
    "exist, self-send, self-receive, and a "
    "dependency closing a cross-rank cycle (the payload is made to depend on "
    "a receive of its own rank that transitively depends on this message; if "
    "none exists a return message forwarding the payload is added first); "
    "plus sampled pairs: two single faults on different messages, the send "
    "of a message redirected to a nonexistent rank and its receive dropped, "
    "both ends "
    "retagged consistently (valid again), tags of two messages of one pair "
    "swapped on the sending side (valid again iff shapes agree).  A model "
    "(pvf/distsim.classify: reflective walk of the graphs) decides whether "
    "the faulted program is well-formed (unique sends/receives per (source, "
    "destination, tag), one-to-one matching, no self-communication, acyclic "
    "message dependencies) - well-formed results are treated as valid, "
    "shape-mismatched matchings give no verdict.  Oracle, ill-formed: not "
    "(every rank returns a partition and verify passes everywhere); every "
    "exception raised is one of DuplicateSendError, DuplicateRecvError, "
    "MissingSendError, MissingRecvError, CycleError, "
    "PartitionInducedCycleError, NotImplementedError (self) - or the "
    "simulator's PeerAborted on ranks whose collective a diagnosing rank left;"
    " if nothing is raised the partition is executed under the simulated MPI "
    "and the deadlock / wrong delivery is reported.  Well-formed: nothing "
    "raised.  Also, on the partition of every valid program: every single "
    "table fault (one send entry duplicated, one send entry removed) at "
    "every send entry of every part of every rank; "
    "verify_distributed_partition must raise a documented diagnostic on "
    "some rank; five hand-built pairs of partitions whose parts wait for "
    "each other across ranks must raise PartitionInducedCycleError.  "
    "non-trivial = the faulted message has a dependent or a "
    "prerequisite message; distinct by (program, fault list)")
ASSUMPTIONS = [
    "each rank's graph is deduplicated first (see C08)",
    "a rank that raises a diagnostic leaves the other ranks blocked in a "
    "collective; under mpiexec the job is then aborted - the simulator "
    "reports PeerAborted there, which is accepted",
    "a second holder of an *equal* send (same payload, destination, tag) is "
    "not generated: upstream's tests call it a duplicate, the documentation "
    "does not say",
    "message matchings whose send and receive shapes/dtypes differ are "
    "outside the property (no verdict)",
    "which diagnostic class is raised for which fault is recorded (class "
    "'family:*') but only membership in the documented set is enforced",
]

DOCUMENTED = ("DuplicateSendError", "DuplicateRecvError", "MissingSendError",
              "MissingRecvError", "CycleError", "PartitionInducedCycleError",
              "NotImplementedError")
FAMILY = {
    "dup-send": {"DuplicateSendError"},
    "dup-recv": {"DuplicateRecvError"},
    "missing": {"MissingSendError", "MissingRecvError"},
    "self": {"NotImplementedError"},
    "cycle": {"CycleError", "PartitionInducedCycleError"},
}


def plan(tier: str) -> dict:
    if tier == "thorough":
        return {"shards": 16, "examples": 300, "pairs": 10, "exec_leaves": 200}
    return {"shards": 16, "examples": 24, "pairs": 6, "exec_leaves": 60}


# {{{ fault injection on the JSON

def _find(case, rank: int, op: str, peer_key: str, peer: int, tag) -> int | None:
    s = case["ranks"][rank]
    live = set(distgen.reachable_nodes(s))
    want = decode_tag(tag)
    for i, n in enumerate(s["nodes"]):
        if i in live and n["op"] == op and n["p"][peer_key] == peer \
                and decode_tag(n["p"]["tag"]) == want:
            return i
    return None


def find_hold(case, src, dst, tag):
    return _find(case, src, "sendhold", "dest", dst, tag)


def find_recv(case, src, dst, tag):
    return _find(case, dst, "recv", "src", src, tag)


def _fresh_name(spec, prefix="f") -> str:
    names = {n["p"].get("name") for n in spec["nodes"]
             if n["op"] == "placeholder"}
    k = 0
    while f"{prefix}{k}" in names:
        k += 1
    return f"{prefix}{k}"


def _zeros_input(spec, shape, dtype) -> dict:
    n = 1
    for s in shape:
        n *= s
    return {"op": "placeholder",
            "p": {"name": _fresh_name(spec), "shape": list(shape),
                  "dtype": dtype, "scale": 0,
                  "values": [False if dtype == "bool" else 0] * n}}


def _all_tags(case) -> list:
    out = []
    for s in case["ranks"]:
        for n in s["nodes"]:
            if n["op"] in ("recv", "sendhold"):
                out.append(decode_tag(n["p"]["tag"]))
    return out


def fresh_tag(case, salt: int = 0):
    used = _all_tags(case)
    k = salt
    while True:
        t = ["tuple", [["str", "fault"], ["int", k]]]
        if all(decode_tag(t) != u for u in used):
            return t
        k += 1


def _payload_type(case, f):
    """shape, dtype of the message's payload (from either end)."""
    ri = find_recv(case, f["src"], f["dst"], f["tag"])
    if ri is not None:
        p = case["ranks"][f["dst"]]["nodes"][ri]["p"]
        return list(p["shape"]), p["dtype"]
    return None


def apply_fault(case, f: dict) -> dict | None:
    """-> faulted copy, or None if the fault does not apply (any more)."""
    kind = f["kind"]
    src, dst, tag = f["src"], f["dst"], f["tag"]
    out = copy.deepcopy(case)
    n = out["nranks"]
    if kind in ("drop-send", "dup-send", "dup-send-nested", "retag-send",
                "redirect-send", "self-send", "cycle"):
        h = find_hold(out, src, dst, tag)
        if h is None:
            return None
        s = out["ranks"][src]
        node = s["nodes"][h]
        if kind == "drop-send":
            out["ranks"][src] = distgen._redirect(s, h, node["args"][1][1])
        elif kind == "retag-send":
            node["p"]["tag"] = f["to"]
        elif kind == "redirect-send":
            # (to_rank == n: a rank that does not exist)
            if not (0 <= f["to_rank"] <= n) or f["to_rank"] in (src, dst):
                return None
            node["p"]["dest"] = f["to_rank"]
        elif kind == "self-send":
            node["p"]["dest"] = src
        elif kind == "dup-send":
            pt_ = _payload_type(out, f)
            if pt_ is None:
                return None
            s["nodes"].append(_zeros_input(s, *pt_))
            d = len(s["nodes"]) - 1
            k, o = s["outputs"][0]
            s["nodes"].append({"op": "sendhold", "args": [["n", d], ["n", o]],
                               "p": {"dest": dst, "tag": copy.deepcopy(
                                   node["p"]["tag"])}})
            s["outputs"][0] = [k, len(s["nodes"]) - 1]
        elif kind == "dup-send-nested":
            # the duplicate's payload is computed from the *holder* of the
            # original: where(any(h > 0), x, x) has x's shape and dtype
            x = node["args"][0][1]
            nodes = s["nodes"]
            nodes.append({"op": "greater", "args": [["n", h], ["py", 0]]})
            nodes.append({"op": "any", "args": [["n", len(nodes) - 1]],
                          "p": {"axis": None}})
            nodes.append({"op": "where", "args": [["n", len(nodes) - 1],
                                                  ["n", x], ["n", x]]})
            d = len(nodes) - 1
            k, o = s["outputs"][0]
            nodes.append({"op": "sendhold", "args": [["n", d], ["n", o]],
                          "p": {"dest": dst, "tag": copy.deepcopy(
                              node["p"]["tag"])}})
            s["outputs"][0] = [k, len(nodes) - 1]
        elif kind == "cycle":
            out = _close_cycle(out, f)
            if out is None:
                return None
    elif kind in ("drop-recv", "dup-recv", "retag-recv", "redirect-recv",
                  "self-recv"):
        ri = find_recv(out, src, dst, tag)
        if ri is None:
            return None
        s = out["ranks"][dst]
        node = s["nodes"][ri]
        if kind == "drop-recv":
            s["nodes"][ri] = _zeros_input(s, node["p"]["shape"],
                                          node["p"]["dtype"])
        elif kind == "retag-recv":
            node["p"]["tag"] = f["to"]
        elif kind == "redirect-recv":
            if not (0 <= f["to_rank"] <= n) or f["to_rank"] in (src, dst):
                return None
            node["p"]["src"] = f["to_rank"]
        elif kind == "self-recv":
            node["p"]["src"] = dst
        elif kind == "dup-recv":
            dup = copy.deepcopy(node)
            dup["tags"] = [t for t in dup.get("tags", [])
                           if t != ["User", "dup"]] + [["User", "dup"]]
            s["nodes"].append(dup)
            s["outputs"].append([f"dup{len(s['outputs'])}",
                                 len(s["nodes"]) - 1])
    else:
        raise ValueError(kind)
    return distgen.gc_case(out)


def _close_cycle(case, f) -> dict | None:
    """make the payload of message f depend on a receive (on the sending
    rank) that transitively depends on f itself."""
    src, dst, tag = f["src"], f["dst"], f["tag"]
    ms = distgen.messages(case)
    idx = [k for k, m in enumerate(ms) if m["src"] == src and m["dst"] == dst
           and decode_tag(m["tag"]) == decode_tag(tag)]
    if len(idx) != 1 or ms[idx[0]]["recv"] is None:
        return None
    k0 = idx[0]
    g = distgen.message_graph(case)

    def depends_on(k, target, seen=None) -> bool:
        seen = seen if seen is not None else set()
        for d in g[k]:
            if d == target:
                return True
            if d not in seen:
                seen.add(d)
                if depends_on(d, target, seen):
                    return True
        return False
    back = [k for k, m in enumerate(ms) if m["dst"] == src
            and m["recv"] is not None and depends_on(k, k0)]
    out = case
    pt_ = _payload_type(case, f)
    if pt_ is None:
        return None
    shape, dtype = pt_
    if back:
        r_idx = ms[back[f.get("which", 0) % len(back)]]["recv"]
    else:
        # return message: dst forwards what it received straight back
        t2 = fresh_tag(case, 100)
        sd = out["ranks"][dst]
        k, o = sd["outputs"][0]
        sd["nodes"].append({"op": "sendhold",
                            "args": [["n", ms[k0]["recv"]], ["n", o]],
                            "p": {"dest": src, "tag": t2}})
        sd["outputs"][0] = [k, len(sd["nodes"]) - 1]
        ss = out["ranks"][src]
        ss["nodes"].append({"op": "recv", "p": {"src": dst, "tag": t2,
                                                "shape": list(shape),
                                                "dtype": dtype}})
        r_idx = len(ss["nodes"]) - 1
    s = out["ranks"][src]
    h = find_hold(out, src, dst, tag)
    hold = s["nodes"][h]
    x = hold["args"][0][1]
    rp = s["nodes"][r_idx]["p"]
    nodes = s["nodes"]
    if list(rp["shape"]) == list(shape) and rp["dtype"] == dtype \
            and dtype != "bool":
        nodes.append({"op": "add", "args": [["n", x], ["n", r_idx]]})
    else:
        # dtype- and shape-preserving for every payload type:
        # where(any(R > 0), x, x)
        nodes.append({"op": "greater", "args": [["n", r_idx], ["py", 0]]})
        nodes.append({"op": "any", "args": [["n", len(nodes) - 1]],
                      "p": {"axis": None}})
        nodes.append({"op": "where", "args": [["n", len(nodes) - 1], ["n", x],
                                              ["n", x]]})
    v = len(nodes) - 1
    nodes.append({"op": "sendhold", "args": [["n", v], hold["args"][1]],
                  "p": copy.deepcopy(hold["p"])})
    s2 = distgen._redirect(s, h, len(nodes) - 1)
    # the new holder must not refer to itself through the redirect
    s2["nodes"][len(nodes) - 1]["args"] = [["n", v], hold["args"][1]]
    try:
        out["ranks"][src] = distgen.toposort_rank(s2)
    except distgen.ModelError:
        return None
    return out


def single_faults(case) -> list[dict]:
    """every single fault at every (matched) message of a valid case."""
    out = []
    ms = [m for m in distgen.messages(case) if m["recv"] is not None]
    n = case["nranks"]
    for m in ms:
        key = {"src": m["src"], "dst": m["dst"], "tag": m["tag"]}
        for kind in ("drop-send", "drop-recv", "dup-send", "dup-send-nested",
                     "dup-recv", "self-send", "self-recv", "cycle"):
            out.append({"kind": kind, **key})
        ft = fresh_tag(case)
        out.append({"kind": "retag-send", **key, "to": ft})
        out.append({"kind": "retag-recv", **key, "to": ft})
        for m2 in ms:
            if m2 is not m and (m2["src"], m2["dst"]) == (m["src"], m["dst"]):
                out.append({"kind": "retag-send", **key, "to": m2["tag"]})
                out.append({"kind": "retag-recv", **key, "to": m2["tag"]})
        for c in range(n + 1):
            if c not in (m["src"], m["dst"]):
                out.append({"kind": "redirect-send", **key, "to_rank": c})
                out.append({"kind": "redirect-recv", **key, "to_rank": c})
    return out


def fault_pairs(case, singles: list[dict], rng: random.Random, k: int
                ) -> list[list[dict]]:
    ms = [m for m in distgen.messages(case) if m["recv"] is not None]
    pairs: list[list[dict]] = []
    if not ms:
        return pairs
    # both ends retagged consistently: still well-formed
    for m in rng.sample(ms, min(len(ms), 2)):
        key = {"src": m["src"], "dst": m["dst"], "tag": m["tag"]}
        ft = fresh_tag(case, 7)
        pairs.append([{"kind": "retag-send", **key, "to": ft},
                      {"kind": "retag-recv", **key, "to": ft}])
    # both ends of ONE message faulted: the send goes to a rank that does
    # not exist and the receive is dropped (no rank sees both halves)
    n = case["nranks"]
    for m in rng.sample(ms, min(len(ms), 2)):
        key = {"src": m["src"], "dst": m["dst"], "tag": m["tag"]}
        pairs.append([{"kind": "redirect-send", **key, "to_rank": n},
                      {"kind": "drop-recv", **key}])
    # tags of two messages of one pair swapped on the sending side
    same = [(a, b) for i, a in enumerate(ms) for b in ms[i + 1:]
            if (a["src"], a["dst"]) == (b["src"], b["dst"])]
    for a, b in same[:2]:
        tmp = fresh_tag(case, 50)
        ka = {"src": a["src"], "dst": a["dst"]}
        pairs.append([
            {"kind": "retag-send", **ka, "tag": a["tag"], "to": tmp},
            {"kind": "retag-send", **ka, "tag": b["tag"], "to": a["tag"]},
            {"kind": "retag-send", **ka, "tag": tmp, "to": b["tag"]}])
    tries = 0
    while len(pairs) < k and tries < 8 * k and len(singles) >= 2:
        tries += 1
        f1, f2 = rng.sample(singles, 2)
        if (f1["src"], f1["dst"], json.dumps(f1["tag"])) == (
                f2["src"], f2["dst"], json.dumps(f2["tag"])):
            continue
        pairs.append([f1, f2])
    return pairs[:max(k, 4)]


def apply_faults(case, faults: list[dict]) -> dict | None:
    cur = case
    for f in faults:
        cur = apply_fault(cur, f)
        if cur is None:
            return None
    return cur

# }}}


# {{{ oracle

def slip_through(case, builds, exec_leaves: int) -> str:
    """An ill-formed program was partitioned and verified: execute it."""
    po = distsim.partition_all(builds, do_verify=False)
    if not po.all_done():
        f = c08.partition_failure(po)
        return f"number_distributed_tags then fails: {f.detail[:200]}"
    partitions = [r.numbered for r in po.ranks]
    cache: dict = {}

    def run_once(chooser, por):
        return distsim.execute_all(builds, partitions, chooser, por=por,
                                   cache=cache)
    ex = distsim.Explorer(run_once, max_leaves=exec_leaves, n_random=6, seed=1)
    for sched, out in ex:
        if out.sim.deadlock is not None:
            return ("execution DEADLOCKS (schedule "
                    f"{sched['choices']}, por={sched['por']}): "
                    + json.dumps(out.sim.deadlock.get("ranks"),
                                 default=str)[:500])
        r, e = c08._first_real_exc(out.sim)
        if e is not None:
            return (f"execution fails on rank {r}: {type(e).__name__}: "
                    f"{str(e)[:200]}")
    return (f"execution completed under {ex.runs} schedules (no reference "
            "values exist for an ill-formed program)")


def case_oracle(c10case, *, exec_leaves: int = 60):
    """c10case = {"base": valid case, "faults": [...]} -> (Failure|None, info)
    """
    info: dict = {}
    base, faults = c10case["base"], c10case.get("faults") or []
    case = apply_faults(base, faults) if faults else base
    if case is None:
        info["skip"] = "fault not applicable"
        return None, info
    distsim.install()
    with warnings.catch_warnings():
        warnings.simplefilter("ignore")
        try:
            builds = distgen.build_case(case)
        except Exception as e:  # noqa: BLE001
            if faults:
                info["skip"] = f"faulted program not constructible: " \
                    f"{type(e).__name__}"
                return None, info
            return Failure("build-exception", f"{type(e).__name__}: {e}",
                           exc_site(e)), info
        cl = distsim.classify(builds)
        info["classified"] = "valid" if cl["valid"] else "ill-formed"
        info["expected"] = sorted(cl["expected"])
        if cl["unspecified"]:
            info["skip"] = "no verdict: " + (
                "send/receive shapes or dtypes differ" if any(
                    "mismatch" in r for r in cl["reasons"]) else
                "one send held by several holders")
            return None, info
        if not faults and not cl["valid"]:
            raise HarnessError("generator produced an ill-formed program: "
                               f"{cl['reasons']}")
        po = distsim.partition_all(builds, do_verify=True, do_number=False)
        sim = po.sim
        raised = [(r, e) for r, e in enumerate(sim.excs) if e is not None]
        names = [type(e).__name__ for _, e in raised]
        info["raised"] = sorted(set(names))
        info["stage"] = sorted({po.ranks[r].stage for r, e in raised
                                if type(e).__name__ != "PeerAborted"})
        if sim.deadlock is not None:
            return Failure("partition-deadlock",
                           json.dumps(sim.deadlock, default=str)[:500],
                           "collectives"), info
        if cl["valid"]:
            if raised:
                r, e = c08._first_real_exc(sim)
                tb = (sim.tracebacks[r] or "").strip().splitlines()
                return Failure(
                    "valid-rejected",
                    f"{'faulted but well-formed' if faults else 'unfaulted'} "
                    f"program rejected: rank {r} in {po.ranks[r].stage}: "
                    f"{type(e).__name__}: {str(e)[:200]} "
                    f"[{tb[-2].strip() if len(tb) > 1 else ''}]",
                    f"{po.ranks[r].stage}|{type(e).__name__}"), info
            return None, info
        # ill-formed
        real = [(r, e) for r, e in raised
                if type(e).__name__ != "PeerAborted"]
        if not real:
            if raised:
                return Failure("only-peer-aborted", f"{names}", "sim"), info
            what = slip_through(case, builds, exec_leaves)
            return Failure(
                "undiagnosed", "ill-formed program ("
                + "; ".join(cl["reasons"])[:200] + ") was partitioned and "
                "verified on every rank; " + what,
                "|".join(sorted(cl["expected"]))), info
        for r, e in real:
            if type(e).__name__ not in DOCUMENTED:
                tb = (sim.tracebacks[r] or "").strip().splitlines()
                return Failure(
                    "undocumented-diagnostic",
                    f"ill-formed program ({'; '.join(cl['reasons'])[:160]}): "
                    f"rank {r} in {po.ranks[r].stage} raises "
                    f"{type(e).__name__}: {str(e)[:160]} "
                    f"[{tb[-2].strip() if len(tb) > 1 else ''}]",
                    f"{type(e).__name__}|{exc_site(e)}"), info
        fam = set()
        for k in cl["expected"]:
            fam |= FAMILY[k]
        info["family_ok"] = any(type(e).__name__ in fam for _, e in real)
        return None, info

# }}}


def _related(base) -> set[tuple]:
    """messages with a dependent or a prerequisite message."""
    ms = distgen.messages(base)
    g = distgen.message_graph(base)
    rel = set()
    for k, ds in g.items():
        for d in ds:
            rel.add(k)
            rel.add(d)
    return {(ms[k]["src"], ms[k]["dst"], json.dumps(ms[k]["tag"])) for k in rel}


# {{{ faults injected into the partition of a valid program

PART_FAULTS = ("dup-send-entry", "drop-send-entry")


def part_fault_sites(partitions) -> list[dict]:
    sites = []
    for r, partition in enumerate(partitions):
        for pid in sorted(partition.parts):
            part = partition.parts[pid]
            for name in sorted(part.name_to_send_nodes):
                for k in range(len(part.name_to_send_nodes[name])):
                    sites.append({"rank": r, "pid": pid, "name": name, "k": k,
                                  "kind": "dup-send-entry"})
                    sites.append({"rank": r, "pid": pid, "name": name, "k": k,
                                  "kind": "drop-send-entry"})
            # (removing a receive entry leaves the part reading a name that
            # nothing provides: verify's internal consistency assertion fires
            # first - structurally broken rather than mis-communicating, so
            # not injected)
    return sites


def tamper(partitions, flt):
    """a copy of *partitions* with one entry of one part's communication
    tables duplicated or removed (what a defective partitioner could
    return): the same (source, destination, tag) posted twice / a message
    with one end only."""
    import dataclasses
    partition = partitions[flt["rank"]]
    part = partition.parts[flt["pid"]]
    if flt["kind"] == "drop-recv-entry":
        recvs = {k: v for k, v in part.name_to_recv_node.items()
                 if k != flt["name"]}
        new_part = dataclasses.replace(part, name_to_recv_node=recvs)
    else:
        sends = {k: list(v) for k, v in part.name_to_send_nodes.items()}
        lst = sends[flt["name"]]
        if flt["kind"] == "dup-send-entry":
            lst.insert(flt["k"], lst[flt["k"]])
        else:
            del lst[flt["k"]]
            if not lst:
                del sends[flt["name"]]
        new_part = dataclasses.replace(part, name_to_send_nodes=sends)
    parts = dict(partition.parts)
    parts[flt["pid"]] = new_part
    out = list(partitions)
    out[flt["rank"]] = dataclasses.replace(partition, parts=parts)
    return out


def partition_faults(base, res) -> list[tuple[Failure, dict]]:
    """every single table fault at every send / receive entry of the
    partition of a valid program: verify_distributed_partition must raise a
    documented diagnostic on some rank."""
    distsim.install()
    fails = []
    with warnings.catch_warnings():
        warnings.simplefilter("ignore")
        try:
            builds = distgen.build_case(base)
            po = distsim.partition_all(builds, do_verify=True, do_number=False)
        except HarnessError:
            raise
        except Exception:  # noqa: BLE001
            return fails
        if not po.all_done():
            return fails
        partitions = [r.partition for r in po.ranks]
        for flt in part_fault_sites(partitions):
            try:
                bad = tamper(partitions, flt)
            except Exception as e:  # noqa: BLE001
                raise HarnessError(f"cannot tamper: {e}") from e
            sim = distsim.verify_all(bad)
            res.evaluations += 1
            res.count("partition_fault:" + flt["kind"])
            names = [type(e).__name__ for e in sim.excs if e is not None]
            for nm in names:
                res.count("partition_fault_raised:" + nm)
            if not any(n in DOCUMENTED for n in names):
                fails.append((Failure(
                    "tampered-partition-verified",
                    f"{flt['kind']} at rank {flt['rank']} part {flt['pid']} "
                    f"entry {flt['name']}[{flt['k']}]: "
                    "verify_distributed_partition raised "
                    f"{names or 'nothing'} on all ranks", flt["kind"]),
                    {"base": base, "faults": [], "partition_fault": flt}))
            elif any(n not in DOCUMENTED and n != "PeerAborted" for n in names):
                fails.append((Failure(
                    "tampered-partition-undocumented-diagnostic",
                    f"{flt['kind']}: {names}", flt["kind"]),
                    {"base": base, "faults": [], "partition_fault": flt}))
    return fails

# }}}


def cyclic_partitions(res) -> list[tuple[Failure, dict]]:
    """hand-built partitions that wait on each other: on each of two ranks
    one part receives from the other rank and sends to it once it is done;
    rank r has lead[r] empty parts in front, so the cycle runs between
    equally or differently numbered parts.  verify_distributed_partition
    must raise PartitionInducedCycleError (executing them deadlocks)."""
    import numpy as np
    import pytato as pt
    from pytato.distributed.nodes import DistributedSend
    from pytato.distributed.partition import (
        DistributedGraphPart,
        DistributedGraphPartition,
    )
    distsim.install()
    fails = []
    for lead in ((0, 0), (1, 0), (0, 1), (1, 1), (2, 0)):
        partitions = []
        for r in (0, 1):
            other = 1 - r
            parts = {}
            for k in range(lead[r]):
                parts[k] = DistributedGraphPart(
                    pid=k, needed_pids=frozenset({k - 1} if k else ()),
                    user_input_names=frozenset(),
                    partition_input_names=frozenset(),
                    output_names=frozenset(), name_to_recv_node={},
                    name_to_send_nodes={})
            k = lead[r]
            recv = pt.make_distributed_recv(other, 10 + other, (2,), np.float64)
            out = pt.make_placeholder("rx", (2,), np.float64) + 1
            parts[k] = DistributedGraphPart(
                pid=k, needed_pids=frozenset({k - 1} if k else ()),
                user_input_names=frozenset(),
                partition_input_names=frozenset(),
                output_names=frozenset({"out"}),
                name_to_recv_node={"rx": recv},
                name_to_send_nodes={"out": [DistributedSend(
                    data=out, dest_rank=other, comm_tag=10 + r)]})
            partitions.append(DistributedGraphPartition(
                parts=parts, name_to_output={"out": out},
                overall_output_names=["out"]))
        with warnings.catch_warnings():
            warnings.simplefilter("ignore")
            try:
                sim = distsim.verify_all(partitions)
            except HarnessError:
                raise
            except Exception as e:  # noqa: BLE001
                raise HarnessError(f"cyclic partition harness: {e}") from e
        res.evaluations += 1
        res.count("cyclic_partitions")
        names = [type(e).__name__ for e in sim.excs if e is not None]
        if "PartitionInducedCycleError" not in names:
            fails.append((Failure(
                "cyclic-partition-verified",
                f"two ranks whose parts {lead[0]} / {lead[1]} wait for each "
                f"other: verify_distributed_partition raised "
                f"{names or 'nothing'}", f"lead={lead}"),
                {"cyclic_partition": list(lead)}))
    # a message a rank sends to ITSELF, received by an earlier part than the
    # one that sends it (alone, and next to an idle second rank)
    for nranks in (1, 2):
        rx = pt.make_distributed_recv(0, 7, (2,), np.float64)
        a = pt.make_placeholder("rx", (2,), np.float64) + 1
        b = pt.make_placeholder("a", (2,), np.float64) * 2
        parts = {
            0: DistributedGraphPart(
                pid=0, needed_pids=frozenset(), user_input_names=frozenset(),
                partition_input_names=frozenset(),
                output_names=frozenset({"a"}), name_to_recv_node={"rx": rx},
                name_to_send_nodes={}),
            1: DistributedGraphPart(
                pid=1, needed_pids=frozenset({0}),
                user_input_names=frozenset(),
                partition_input_names=frozenset({"a"}),
                output_names=frozenset({"b"}), name_to_recv_node={},
                name_to_send_nodes={"b": [DistributedSend(
                    data=b, dest_rank=0, comm_tag=7)]})}
        partitions = [DistributedGraphPartition(
            parts=parts, name_to_output={"a": a, "b": b},
            overall_output_names=["b"])]
        if nranks == 2:
            c = pt.make_placeholder("x", (2,), np.float64) + 3
            partitions.append(DistributedGraphPartition(
                parts={0: DistributedGraphPart(
                    pid=0, needed_pids=frozenset(),
                    user_input_names=frozenset({"x"}),
                    partition_input_names=frozenset(),
                    output_names=frozenset({"c"}), name_to_recv_node={},
                    name_to_send_nodes={})},
                name_to_output={"c": c}, overall_output_names=["c"]))
        with warnings.catch_warnings():
            warnings.simplefilter("ignore")
            try:
                sim = distsim.verify_all(partitions)
            except HarnessError:
                raise
            except Exception as e:  # noqa: BLE001
                raise HarnessError(f"cyclic partition harness: {e}") from e
        res.evaluations += 1
        res.count("cyclic_partitions")
        names = [type(e).__name__ for e in sim.excs if e is not None]
        if "PartitionInducedCycleError" not in names:
            fails.append((Failure(
                "cyclic-partition-verified",
                f"a rank ({nranks} in all) whose part 0 receives what its "
                f"part 1 sends to itself: verify_distributed_partition "
                f"raised {names or 'nothing'}", f"self-message|{nranks}"),
                {"cyclic_partition": ["self", nranks]}))
    return fails


def run_shard(shard: int, nshards: int, seed: int, tier: str) -> ShardResult:
    pl = plan(tier)
    res = ShardResult()
    res.extra["programs"] = 0
    res.extra["single_faults_enumerated"] = 0
    rng = random.Random(derive_seed(seed, ID, shard, "pairs"))

    def one(c10case, rel):
        f, info = case_oracle(c10case, exec_leaves=pl["exec_leaves"])
        res.evaluations += 1
        faults = c10case["faults"]
        label = "+".join(x["kind"] for x in faults) if len(faults) <= 1 \
            else "pair"
        if "skip" in info:
            res.skip(info["skip"][:60])
            return
        res.count("fault:" + (label or "none"))
        res.count("model:" + info.get("classified", "?"))
        for nm in info.get("raised", []):
            res.count("raised:" + nm)
        for st in info.get("stage", []):
            res.count("diagnosed_in:" + st)
        if "family_ok" in info:
            res.count("family:" + ("match" if info["family_ok"]
                                   else "other-diagnostic"))
        if faults and any((x["src"], x["dst"], json.dumps(x["tag"])) in rel
                          for x in faults):
            res.nontrivial.add(distgen.case_hash(c10case))
            if label in ("cycle", "pair", "redirect-send"):
                res.sample(c10case, limit=3)
        if f is not None:
            res.fail(f, c10case)

    def body(base):
        if not distgen.messages(base):
            res.skip("program without messages")
            return
        res.extra["programs"] += 1
        rel = _related(base)
        one({"base": base, "faults": []}, rel)
        singles = single_faults(base)
        res.extra["single_faults_enumerated"] += len(singles)
        for flt in singles:
            one({"base": base, "faults": [flt]}, rel)
        for pair in fault_pairs(base, singles, rng, pl["pairs"]):
            one({"base": base, "faults": pair}, rel)
        for f, c in partition_faults(base, res):
            res.fail(f, c)

    hyp_run(distgen.cases(distgen.DistCfg(min_ranks=2)), body, seed,
            pl["examples"])
    if shard == 0:
        for f, c in cyclic_partitions(res):
            res.fail(f, c)
    res.extra["exhaustive"] = True   # in the single-fault dimension
    res.extra["exhaustive_scope"] = (
        "every single fault of the listed kinds at every message of every "
        "generated program; programs and fault pairs are sampled")
    return res


def replay(c10case) -> Failure | None:
    if "cyclic_partition" in c10case:
        r = cyclic_partitions(ShardResult())
        return r[0][0] if r else None
    if "partition_fault" in c10case:
        res = ShardResult()
        want = c10case["partition_fault"]
        for f, c in partition_faults(c10case["base"], res):
            if c["partition_fault"] == want:
                return f
        return None
    f, _ = case_oracle(c10case, exec_leaves=200)
    return f


def minimize(c10case, fj):
    """shrink the base program while the same fault list still fails the same
    way (the faults address messages by (src, dst, tag), so they survive the
    removal of other messages)."""
    key = fj["kind"] + "|" + fj.get("where", "")
    faults = c10case["faults"]

    def still(base):
        if faults and apply_faults(base, faults) is None:
            return False
        f, _ = case_oracle({"base": base, "faults": faults})
        return f is not None and f.key() == key
    small = distgen.minimize_case(c10case["base"], still, budget=70)
    # (integer tags would invalidate the fault addresses: minimize_case only
    # keeps a step if the failure persists, which covers that)
    out = {"base": small, "faults": faults}
    f, _ = case_oracle(out)
    if f is not None and f.key() == key:
        return out, f.to_json()
    return c10case, fj


def _forward_pred(c10case, failure) -> bool:
    """the (faulted) program forwards a bare receive *and* is well-formed"""
    case = apply_faults(c10case["base"], c10case.get("faults") or [])
    return case is not None and distsim.forwards_bare_recv(case)


def _holder_leak_pred(c10case, failure) -> bool:
    case = apply_faults(c10case["base"], c10case.get("faults") or [])
    return case is not None and distsim.holder_payload_dep_leak(case)


def _nested_dup_pred(c10case, failure) -> bool:
    case = apply_faults(c10case["base"], c10case.get("faults") or [])
    return case is not None and distsim.nested_duplicate_send(case)


KNOWN_PREDICATES = {"forward_bare_recv": _forward_pred,
                    "holder_payload_dep_leak": _holder_leak_pred,
                    "nested_duplicate_send": _nested_dup_pred}
