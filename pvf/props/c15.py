"""C15 - names in generated code are faithful, unique and collision-free."""
from __future__ import annotations

import copy
import re
import warnings

import numpy as np
from hypothesis import strategies as st

from pvf import progen
from pvf.oracle import (
    Failure,
    Skip,
    check_outputs,
    exc_site,
    reference,
)
from pvf.ptbuild import INPUT_OPS, build_pt, gc, input_values, reachable, spec_hash
from pvf.runner import ShardResult, hyp_run

ID = "C15"
LEVEL = "exploration"
RULE = ("a grammar program (C01's space) is re-named adversarially: "
        "placeholders, named data wrappers and output keys draw from a pool of"
        " non-reserved identifiers close to generated ones (pt_temp, temp_0, "
        "x_dim0, out0_dim0, acc__pt_sum_r0, names differing only in a numeric "
        "suffix, loopy's accumulator/iname/instruction patterns, ...), output "
        "keys may equal input names, some nodes get ImplStored with Named(pool"
        " name | another user name) or PrefixNamed(_pt_temp-like prefix); ~10% "
        "force two distinct inputs to share a name; ~10% use one reserved-"
        "pattern name (_pt_temp, _pt_data, _in0, _r0, _0).  Also: C16's "
        "symbolic-shape programs with size parameters and placeholders renamed"
        " from the same pool.  Oracle on an accepted program: every reachable "
        "placeholder / size parameter is a kernel argument of exactly its name"
        ", every output key an output argument and a key of the result, every "
        "unnamed data wrapper is pre-bound under a distinct _pt_ name to the "
        "very object that was wrapped (unmodified after the run), arguments / "
        "temporaries / inames / substitution rules are pairwise disjoint and no"
        " generated one equals a user name, a stored Named node is the "
        "temporary of exactly that name, and the kernel's values equal NumPy's"
        " (a silent alias shows up there) whenever the plainly named variant's"
        " do.  Oracle on rejection: two distinct same-named inputs => "
        "NameClashError and nothing else; a Named / output-key conflict error "
        "only if that name really is another user name of the program; "
        "reserved-pattern names may be rejected; any other failure counts "
        "unless the plainly named program fails alike.  non-trivial = >= 2 "
        "user names from the adversarial pool in use; distinct by case")
RULE += '  Round-4 additions: 30 enumerated programs (CSR product + reduction) whose inputs carry names the generator derives (_pt_sum_r0_ubound/_lbound, _pt_temp_dim0, out0_dim0, _pt_temp_store, acc__pt_sum_r0, ...); with a reserved-pattern user name a failure counts as rejection only if the kernel pytato returned does not carry that name a second time (as temporary, loop variable or second argument).'
ASSUMPTIONS = [
    "C / OpenCL keywords and loopy built-in identifiers (lid, gid, int, ...) "
    "are not used as user names: the property concerns pytato's name "
    "generation, not the target language's keywords",
    "loopy's C target + gcc stand in for the OpenCL target",
]

POOL = ("pt_temp", "temp_0", "_temp", "x_dim0", "out0_dim0", "out_dim0", "acc_x",
        "acc__pt_sum_r0", "acc__pt_sum_r0_0", "x", "x_0", "x_1", "x0_0", "out",
        "out_0", "out0", "out1", "tmp", "n", "i0", "_x", "__pt", "pt_data",
        "_ptdata", "data_0", "in0", "in_0", "r0", "dim0", "out0_store",
        "insn", "_pt", "nm", "nm_0", "pf", "pf_0", "out0_dim0_0", "x0", "x1",
        "_pt", "pt_", "_p", "__pt_temp", "call_pvf_rowsum", "rowsum_0",
        "x_dim0_0", "store", "_store", "acc", "red", "sum_r0", "_sum_r0")
RESERVED = ("_pt_temp", "_pt_temp_0", "_pt_data", "_pt_data_0", "_pt_out",
            "_pt_in", "_in0", "_in1", "_r0", "_0", "_1", "_pt_sum_r0",
            "_pt_subst", "_pt_sum_r0_ubound", "_pt_sum_r0_lbound",
            "_pt_sum_r0_ubound", "_pt_sum_r0_0", "_pt_temp_dim0",
            "_pt_temp_dim0_0")
RESERVED_RE = re.compile(r"^(_pt_.*|_[0-9]+|_r[0-9]+|_in[0-9]+)$")


def plan(tier: str) -> dict:
    if tier == "thorough":
        return {"shards": 16, "examples": 500, "max_ops": 12, "sym": 60}
    return {"shards": 16, "examples": 40, "max_ops": 8, "sym": 6}


# {{{ naming

@st.composite
def namings(draw, spec):
    live = sorted(reachable(spec))
    ph = [i for i in live if spec["nodes"][i]["op"] == "placeholder"]
    data = [i for i in live if spec["nodes"][i]["op"] == "data"]
    mode = draw(st.sampled_from(["adv"] * 7 + ["clash", "reserved", "outin"]))
    extra = None
    pool = list(POOL)
    used: list[str] = []

    def fresh(p=0.85):
        if draw(st.floats(0, 1)) > p:
            return None
        free = [n for n in pool if n not in used]
        nm = draw(st.sampled_from(free))
        used.append(nm)
        return nm
    inn = {}
    for i in ph:
        nm = fresh()
        if nm is not None:
            inn[str(i)] = nm
        else:
            used.append(spec["nodes"][i]["p"]["name"])
    dn = {}
    for i in data:
        k = draw(st.integers(0, 5))
        if k == 0:
            dn[str(i)] = ["Named", fresh(1.0)]
        elif k == 1:
            dn[str(i)] = ["PrefixNamed", draw(st.sampled_from(
                ["_pt_data", "x", "x0", "out0", "pt_data", "_pt_in"]))]
    outn = {}
    in_names = [inn.get(str(i), spec["nodes"][i]["p"]["name"]) for i in ph]
    for k, (key, idx) in enumerate(spec["outputs"]):
        if mode == "outin" and in_names and k == 0:
            outn[key] = draw(st.sampled_from(in_names))
            continue
        nm = fresh()
        if nm is not None:
            outn[key] = nm
        else:
            if key in used:
                outn[key] = fresh(1.0)
            else:
                used.append(key)
    if mode == "clash":
        named = [("in", str(i)) for i in ph] + [
            ("data", s) for s in dn if dn[s][0] == "Named"]
        if len(named) >= 2:
            a, b = draw(st.permutations(named))[:2]
            src = (inn.get(a[1], None) if a[0] == "in" else dn[a[1]][1])
            if src is None:
                src = spec["nodes"][int(a[1])]["p"]["name"]
            if b[0] == "in":
                inn[b[1]] = src
            else:
                dn[b[1]] = ["Named", src]
        elif ph:
            # only one named input: add a second, different placeholder of
            # the same name feeding an extra output
            i = ph[0]
            extra = {"name": inn.get(str(i), spec["nodes"][i]["p"]["name"]),
                     "shape": [7], "dtype": "float64"}
    if mode == "reserved":
        r = draw(st.sampled_from(RESERVED))
        tgt = draw(st.sampled_from(["in", "out", "data"]))
        if tgt == "in" and ph:
            inn[str(draw(st.sampled_from(ph)))] = r
        elif tgt == "data" and data:
            dn[str(draw(st.sampled_from(data)))] = ["Named", r]
        else:
            outn[spec["outputs"][0][0]] = r
    # tags: ImplStored + Named / PrefixNamed on inner nodes
    tags = {}
    user_names = set(used)
    for i in live:
        n = spec["nodes"][i]
        if n["op"] in INPUT_OPS:
            # (an input may carry ImplStored too; it is an output sometimes)
            if n["op"] == "placeholder" and draw(st.integers(0, 5)) == 0:
                tags[str(i)] = [["ImplStored"]]
            continue
        k = draw(st.integers(0, 9))
        if k == 0:
            nm = fresh(1.0)
            tags[str(i)] = [["ImplStored"], ["Named", nm]]
        elif k == 1:
            tags[str(i)] = [["ImplStored"], ["PrefixNamed", draw(
                st.sampled_from(["_pt_temp", "pt_temp", "x", "out0", "temp"]))]]
        elif k == 2 and user_names:
            # a Named tag equal to another user name: that name or an error
            tags[str(i)] = [["ImplStored"], ["Named", draw(
                st.sampled_from(sorted(user_names)))]]
        elif k == 3:
            tags[str(i)] = [["ImplStored"]]
        elif k == 4:
            tags[str(i)] = [["ImplSubstitution"], ["PrefixNamed", draw(
                st.sampled_from(["_pt_subst", "x", "pt_temp"]))]]
    res = {"in": inn, "data": dn, "out": outn, "tags": tags, "mode": mode}
    if mode == "adv" and draw(st.integers(0, 7)) == 0:
        a, b = fresh(1.0), fresh(1.0)
        res["twin_data"] = [a, b]
    if mode == "adv" and draw(st.integers(0, 9)) == 0:
        res["three_callees"] = True
    if extra is not None:
        res["extra_clash"] = extra
    return res


def renamed(spec, naming):
    s = copy.deepcopy(spec)
    for i, nm in naming["in"].items():
        s["nodes"][int(i)]["p"]["name"] = nm
    for i, t in naming["data"].items():
        s["nodes"][int(i)]["tags"] = [t]
    seen = set()
    outs = []
    for key, idx in s["outputs"]:
        nk = naming["out"].get(key, key)
        if nk in seen:
            continue                      # (same key twice: keep the first)
        seen.add(nk)
        outs.append([nk, idx])
    s["outputs"] = outs
    for i, ts in naming["tags"].items():
        s["nodes"][int(i)]["tags"] = ts
    if naming.get("twin_data"):
        # ONE data object wrapped twice under two different names: both
        # names must be bound (to that object)
        k = len(s["nodes"])
        for j, nm in enumerate(naming["twin_data"]):
            s["nodes"].append({"op": "data", "p": {
                "dtype": "float64", "shape": [3], "scale": 0,
                "values": [1, 2, 3], "share": 7777},
                "tags": [["Named", nm]]})
        s["nodes"].append({"op": "mul", "args": [["n", k + 1], ["py", 2]]})
        s["nodes"].append({"op": "add", "args": [["n", k], ["n", k + 2]]})
        s["outputs"].append(["twin_out", k + 3])
    if naming.get("three_callees"):
        # three hand-written kernels of ONE name (pvf_rowsum), not all the
        # same kernel: the code generator has to keep them apart
        k = len(s["nodes"])
        shapes = [[2, 3], [3, 2], [2, 3]]
        for j, sh in enumerate(shapes):
            s["nodes"].append({"op": "placeholder", "p": {
                "name": f"rc{j}", "dtype": "float64", "shape": sh, "scale": 0,
                "values": [j + 1 + q for q in range(6)]}})
        for j in range(3):
            s["nodes"].append({"op": "call_loopy", "args": [["n", k + j]],
                               "p": {"kernel": "rowsum"}})
        for j in range(3):
            s["nodes"].append({"op": "item", "args": [["n", k + 3 + j]],
                               "p": {"key": "rs"}})
        s["nodes"].append({"op": "add", "args": [["n", k + 6], ["n", k + 8]]})
        s["outputs"].append(["callee_sum", k + 9])
        s["outputs"].append(["callee_mid", k + 7])
    ex = naming.get("extra_clash")
    if ex is not None:
        n = 1
        for d in ex["shape"]:
            n *= d
        s["nodes"].append({"op": "placeholder", "p": {
            "name": ex["name"], "shape": ex["shape"], "dtype": ex["dtype"],
            "scale": 0, "values": [1] * n}})
        s["nodes"].append({"op": "add", "args": [["n", len(s["nodes"]) - 1],
                                                  ["py", 1]]})
        s["outputs"].append(["clash_out", len(s["nodes"]) - 1])
    return s

# }}}


def _inputs_of(outs):
    from pytato.transform import InputGatherer
    import pytato as pt
    res = []
    seen = set()
    ing = InputGatherer()
    for k in outs:
        for x in ing(outs[k].expr if hasattr(outs[k], "expr") else outs[k]):
            if id(x) not in seen and isinstance(
                    x, pt.array.InputArgumentBase):
                seen.add(id(x))
                res.append(x)
    return res


def names_oracle(prog, outs, knl, user_names, data_objs):
    """checks on an accepted program. -> Failure | None"""
    import loopy as lp
    import pytato as pt
    from pvf import reflect
    kernel = knl.kernel
    args = {a.name: a for a in kernel.args}
    inputs = _inputs_of(outs)
    for x in inputs:
        if isinstance(x, (pt.Placeholder, pt.SizeParam)):
            a = args.get(x.name)
            if a is None:
                return Failure("input-name-missing",
                               f"{type(x).__name__} '{x.name}' is not an "
                               f"argument of the kernel ({sorted(args)})",
                               type(x).__name__)
            if isinstance(a, lp.ArrayArg) and a.is_output and not any(
                    outs[k].expr is x for k in outs):
                return Failure("input-is-output-argument",
                               f"'{x.name}' is an output argument", "args")
    for k in outs:
        a = args.get(k)
        if a is None or not isinstance(a, lp.ArrayArg) or not a.is_output:
            return Failure("output-name-missing",
                           f"output key '{k}' is not an output argument of "
                           f"the kernel ({sorted(args)})", "outputs")
    # pre-bound data
    bound = knl.bp.bound_arguments
    dws = [x for x in inputs if isinstance(x, pt.DataWrapper)]
    other_user = ({x.name for x in inputs
                   if isinstance(x, (pt.Placeholder, pt.SizeParam))}
                  | set(outs.keys()))
    if len(bound) != len(dws):
        return Failure("bound-data-count",
                       f"{len(dws)} data wrappers, bound names "
                       f"{sorted(bound)}", "bound")
    for n, v in bound.items():
        if not any(v is x.data for x in dws):
            return Failure("bound-data-not-the-wrapped-object",
                           f"'{n}' is bound to an object that was not wrapped",
                           "bound")
        if n not in args:
            return Failure("bound-name-not-an-argument", n, "bound")
        if n in other_user:
            return Failure("bound-name-collides",
                           f"data is pre-bound as '{n}', which is also a "
                           "placeholder / size parameter / output of the "
                           "program", "bound")
    for x in dws:
        cands = [n for n, v in bound.items() if v is x.data]
        nm = [t.name for t in x.tags_of_type(pt.tags.Named)]
        pf = [t.prefix for t in x.tags_of_type(pt.tags.PrefixNamed)]
        if nm:
            ok = nm[0] in cands
        elif pf:
            ok = any(c.startswith(pf[0]) for c in cands)
        else:
            ok = any(c.startswith("_pt_") for c in cands)
        if not ok:
            return Failure("bound-name-unfaithful",
                           f"data wrapper (Named {nm}, PrefixNamed {pf}) is "
                           f"bound as {cands}", "bound")
    # namespaces
    temps = set(kernel.temporary_variables)
    inames = set(kernel.all_inames())
    substs = set(kernel.substitutions)
    argn = set(args)
    for a, b, what in ((argn, temps, "argument and temporary"),
                       (argn, inames, "argument and iname"),
                       (temps, inames, "temporary and iname"),
                       (substs, argn | temps | inames,
                        "substitution rule and variable")):
        if a & b:
            return Failure("name-in-two-roles",
                           f"{sorted(a & b)}: {what}", what)
    if len(kernel.args) != len(argn):
        return Failure("duplicate-argument-name", str([a.name for a in
                                                       kernel.args]), "args")
    # generated names vs. user names
    named_tags = {}
    prefixes = set()
    for node in reflect.walk(outs).values():
        if isinstance(node, pt.Array):
            for t in node.tags_of_type(pt.tags.Named):
                named_tags.setdefault(t.name, []).append(node)
            for t in node.tags_of_type(pt.tags.PrefixNamed):
                prefixes.add(t.prefix)
    # (a Named tag on a node that is not stored names nothing)
    user_names = other_user | {nm for nm in named_tags
                               if nm in temps or nm in bound}
    for t in temps:
        if t in named_tags:
            continue
        if t in user_names:
            return Failure("temporary-collides-with-user-name",
                           f"temporary '{t}'", "temps")
        if not t.startswith("_pt_") and not any(
                t.startswith(p) for p in prefixes) and not t.startswith(
                    "acc_") and "pvf_" not in t:
            # (acc_*: loopy's own accumulators; pvf_*: temporaries inside the
            # hand-written callee kernels)
            return Failure("temporary-outside-_pt_",
                           f"unnamed temporary '{t}'", "temps")
    for i in inames:
        if i in user_names:
            return Failure("iname-collides-with-user-name", f"iname '{i}'",
                           "inames")
    # Named: exactly that name
    out_objs = [outs[k].expr for k in outs]
    for nm, nodes in named_tags.items():
        for node in nodes:
            if (node.tags_of_type(pt.tags.ImplStored)
                    and isinstance(node, pt.IndexLambda | pt.Einsum | pt.Stack
                                   | pt.Concatenate | pt.Roll | pt.AxisPermutation
                                   | pt.Reshape | pt.IndexBase)
                    and not any(node is o for o in out_objs)):
                if nm not in temps:
                    return Failure("named-tag-not-honoured",
                                   f"stored node tagged Named('{nm}') has no "
                                   f"temporary of that name (temporaries: "
                                   f"{sorted(temps)})", "Named")
    return None


def classify_expected(prog, outs, naming_names):
    """-> dict(clash=bool)"""
    inputs = _inputs_of(outs)
    by_name = {}
    for x in inputs:
        if x.name is not None:
            by_name.setdefault(x.name, []).append(x)
    clash = any(len(v) > 1 for v in by_name.values())
    return {"clash": clash, "input_names": set(by_name)}


def _merged_reserved(outs, user_names):
    """a failure with reserved-pattern user names counts as a rejection -
    unless pytato itself produced a kernel in which such a name is ALSO a
    generated variable (temporary, loop variable, second argument): that is
    the silent merge the property excludes, whatever loopy or the C compiler
    make of it afterwards"""
    import pytato as pt
    from pvf.cexec import c_target
    try:
        bp = pt.generate_loopy(outs, target=c_target())
        knl = bp.program.default_entrypoint
    except Exception:  # noqa: BLE001
        return None
    args = [a.name for a in knl.args]
    gen = set(knl.temporary_variables) | set(knl.all_inames())
    merged = sorted({n for n in user_names if RESERVED_RE.match(n)
                     and (args.count(n) > 1 or n in gen)})
    if merged:
        return Failure("reserved-name-merged",
                       f"user name(s) {merged} of the reserved pattern are "
                       "also generated variables of the kernel pytato "
                       "returned", "merged")
    return None


def variant_oracle(spec_r, plain_ok, *, mode="adv"):
    """-> (Failure|None, info)"""
    import pytato as pt
    from pvf.cexec import HarnessError, generate_and_compile
    info = {}
    try:
        prog = build_pt(spec_r, with_tags=True)
    except Exception as e:  # noqa: BLE001
        if type(e).__name__ == "NonUniqueTagError":
            info["rejected"] = "unique-tag rule"
            return None, info
        if isinstance(e, ValueError) and "reserved" in str(e) and any(
                RESERVED_RE.match(n["p"].get("name") or "")
                for n in spec_r["nodes"] if n["op"] in INPUT_OPS):
            info["rejected"] = "reserved-pattern name (at construction)"
            return None, info
        return Failure("naming-build-exception", f"{type(e).__name__}: {e}",
                       exc_site(e)), info
    # two same-named placeholders of equal shape and dtype are one and the
    # same input to pytato: not a case of 'two distinct inputs'
    sig = {}
    for n in spec_r["nodes"]:
        if n["op"] == "placeholder":
            k = (tuple(n["p"]["shape"]), n["p"]["dtype"])
            if sig.setdefault(n["p"]["name"], k) == k and list(
                    sig).count(n["p"]["name"]) and sum(
                        1 for m in spec_r["nodes"] if m["op"] == "placeholder"
                        and m["p"]["name"] == n["p"]["name"]
                        and (tuple(m["p"]["shape"]), m["p"]["dtype"]) == k) > 1:
                info["rejected"] = "same-named equal placeholders (one input)"
                return None, info
    outs = pt.transform.deduplicate(prog.dict_of_named_arrays())
    exp = classify_expected(prog, outs, None)
    named = [t[1] for n in spec_r["nodes"] for t in n.get("tags", [])
             if t[0] == "Named"]
    user_names = set(exp["input_names"]) | set(outs.keys()) | set(named)
    has_reserved = any(RESERVED_RE.match(n) for n in user_names)
    try:
        knl = generate_and_compile(outs)
    except HarnessError:
        if has_reserved:
            f = _merged_reserved(outs, user_names)
            if f is not None:
                return f, info
            info["rejected"] = "reserved-pattern name (C compiler)"
            return None, info
        raise
    except Exception as e:  # noqa: BLE001
        tn = type(e).__name__
        msg = str(e)
        if exp["clash"]:
            if tn == "NameClashError":
                info["rejected"] = "name clash"
                return None, info
            return Failure("clash-wrong-error",
                           "two distinct inputs share a name; expected "
                           f"NameClashError, got {tn}: {msg[:200]}",
                           exc_site(e)), info
        if tn == "NameClashError":
            return Failure("spurious-name-clash", msg[:200], exc_site(e)), info
        m = re.search(r"Cannot assign the name (\w+) to", msg)
        if tn == "ValueError" and m and RESERVED_RE.match(m.group(1)):
            info["rejected"] = "reserved-pattern name"
            return None, info
        if tn == "ValueError" and m:
            nm = m.group(1)
            others = (set(exp["input_names"]) | set(outs.keys())
                      | {x for x in named if named.count(x) > 1})
            # names PrefixNamed(p) generates: p, p_0, p_1, ... (which of the
            # two tags is served first is not specified)
            prefixes = [t[1] for n in spec_r["nodes"]
                        for t in n.get("tags", []) if t[0] == "PrefixNamed"]
            # ... and the inames of a stored array called b: b_dim0, ...
            bases = set(prefixes) | set(named) | set(outs.keys())
            if nm in others or any(
                    re.fullmatch(re.escape(p) + r"(_\d+)?", nm)
                    for p in prefixes) or any(
                        re.fullmatch(re.escape(b) + r"(_\d+)?_dim\d+(_\d+)?",
                                     nm) for b in bases):
                info["rejected"] = "Named conflicts with a user / prefix name"
                return None, info
            return Failure("named-tag-spurious-conflict",
                           f"Named('{nm}') is no other user name of the "
                           f"program, yet: {msg[:160]}", exc_site(e)), info
        m = re.search(r"name '(\w+)' conflicts with existing names", msg)
        if tn == "ValueError" and m and m.group(1) in (
                set(outs.keys()) & set(exp["input_names"])):
            info["rejected"] = "output key equals an input name"
            return None, info
        if has_reserved:
            f = _merged_reserved(outs, user_names)
            if f is not None:
                return f, info
            info["rejected"] = "reserved-pattern name"
            return None, info
        if not plain_ok():
            info["skip"] = "plainly named variant fails as well"
            return None, info
        return Failure("naming-codegen-exception",
                       f"plainly named program compiles, renamed one does "
                       f"not: {tn}: {msg[:300]}",
                       exc_site(e) or tn), info
    if exp["clash"]:
        return Failure("name-clash-accepted",
                       "two distinct inputs share a name and code was "
                       "generated", "clash"), info
    data_objs = list(prog.data) if hasattr(prog, "data") else []
    f = names_oracle(prog, outs, knl, user_names, data_objs)
    if f is not None:
        return f, info
    # values
    # values by the input objects that are in the graph (two placeholder
    # nodes of the program may share a name while only one is reachable)
    from pvf.ptbuild import np_input
    live_inputs = _inputs_of(outs)
    env = {}
    for i, n in enumerate(spec_r["nodes"]):
        if n["op"] == "placeholder" and n["p"]["name"] in knl.kernel.arg_dict \
                and any(prog.nodes[i] == x for x in live_inputs):
            env[n["p"]["name"]] = np_input(n).a
    before = {n: np.array(v, copy=True)
              for n, v in knl.bp.bound_arguments.items()}
    try:
        res = knl(**env)
    except HarnessError:
        raise
    except Exception as e:  # noqa: BLE001
        if has_reserved:
            info["rejected"] = "reserved-pattern name (at launch)"
            return None, info
        if not plain_ok():
            info["skip"] = "plainly named variant fails as well"
            return None, info
        return Failure("naming-launch-exception", f"{type(e).__name__}: "
                       f"{str(e)[:300]}", type(e).__name__), info
    for n, v in knl.bp.bound_arguments.items():
        if not np.array_equal(v, before[n], equal_nan=v.dtype.kind in "fc"):
            return Failure("bound-data-modified", n, "bound"), info
    try:
        ref = reference(spec_r, prog, None)
    except Skip as s:
        info["skip"] = str(s)
        return None, info
    f = check_outputs(spec_r, prog, res, ref)
    if f is not None:
        if not plain_ok():
            info["skip"] = "plainly named variant deviates as well (C01)"
            return None, info
        return Failure("naming-" + f.kind, "plainly named program agrees "
                       "with NumPy, renamed one does not: " + f.detail,
                       f.where), info
    info["accepted"] = True
    return None, info


def plain_passes(spec, naming=None) -> bool:
    """the same program and the same implementation tags under neutral names
    (x0.., out0.., Named(nm_<i>), PrefixNamed(pf)): what fails there is not
    a matter of naming (C01 / C07)"""
    from pvf.oracle import c01_case
    s = copy.deepcopy(spec)
    for i, ts in ((naming or {}).get("tags") or {}).items():
        s["nodes"][int(i)]["tags"] = [
            ["Named", f"nm_{i}"] if t[0] == "Named" else
            ["PrefixNamed", "pf"] if t[0] == "PrefixNamed" else t for t in ts]
    f, info = c01_case(s)
    return f is None and "skip" not in info


def case_oracle(case):
    with warnings.catch_warnings():
        warnings.simplefilter("ignore")
        if "sym" in case:
            return sym_oracle(case)
        spec = case["spec"]
        spec_r = renamed(spec, case["naming"])
        memo = []

        def plain_ok():
            if not memo:
                memo.append(plain_passes(spec, case["naming"]))
            return memo[0]
        return variant_oracle(spec_r, plain_ok, mode=case["naming"]["mode"])


# {{{ symbolic family (size parameters)

def sym_oracle(case):
    """C16's symbolic programs with renamed size parameters / placeholders"""
    import pytato as pt
    from pvf.cexec import HarnessError, generate_and_compile
    from pvf.props import c16
    desc = case["sym"]
    names = case["names"]
    info = {}
    val = {"n": 3, "m": 2}
    try:
        env, _ = c16.build_sym(desc, names=names)
    except Exception as e:  # noqa: BLE001
        return Failure("naming-build-exception", f"{type(e).__name__}: {e}",
                       exc_site(e)), info
    outs = pt.transform.deduplicate(pt.make_dict_of_named_arrays(
        {names.get(f"out{k}", f"out{k}"): env[i]
         for k, i in enumerate(desc["outputs"])}))
    ins = _inputs_of(outs)
    user_names = {x.name for x in ins if x.name} | set(outs.keys())
    by_name = {}
    for x in ins:
        if x.name:
            by_name.setdefault(x.name, []).append(x)
    clash = any(len(v) > 1 for v in by_name.values())
    try:
        knl = generate_and_compile(outs)
    except HarnessError:
        raise
    except Exception as e:  # noqa: BLE001
        if clash and type(e).__name__ == "NameClashError":
            info["rejected"] = "name clash (size parameter / placeholder)"
            return None, info
        return Failure("naming-codegen-exception", f"{type(e).__name__}: "
                       f"{str(e)[:300]}", exc_site(e)), info
    if clash:
        return Failure("name-clash-accepted", "a placeholder and a size "
                       "parameter (or two placeholders) share a name and "
                       "code was generated", "clash"), info
    f = names_oracle(None, outs, knl, user_names, [])
    if f is not None:
        return f, info
    ref = c16.eval_sym(desc, val)
    args = {}
    for nd, r in zip(desc["nodes"], ref):
        if nd["op"] in ("in", "altadd"):
            nm = names.get(nd["name"], nd["name"])
            if nm in knl.kernel.arg_dict:
                args[nm] = (r if nd["op"] == "in" else c16.input_values(
                    tuple(c16.axis_len(x, val) for x in nd["shape"]),
                    nd["seed"]))
    import loopy as lp
    for p in ("n", "m"):
        nm = names.get(p, p)
        if nm in knl.kernel.arg_dict and isinstance(knl.kernel.arg_dict[nm],
                                                    lp.ValueArg):
            args[nm] = val[p]
    try:
        res = knl(**args)
    except HarnessError:
        raise
    except Exception as e:  # noqa: BLE001
        return Failure("naming-launch-exception", f"{type(e).__name__}: "
                       f"{str(e)[:300]}", type(e).__name__), info
    for k, i in enumerate(desc["outputs"]):
        got = res[names.get(f"out{k}", f"out{k}")]
        want = ref[i]
        if got.shape != want.shape or not np.allclose(got, want, rtol=1e-12,
                                                      atol=1e-12):
            return Failure("naming-value", f"out{k}: symbolic program renamed "
                           f"{names} computes other values", "sym"), info
    info["accepted"] = True
    return None, info

# }}}


def run_shard(shard: int, nshards: int, seed: int, tier: str) -> ShardResult:
    pl = plan(tier)
    res = ShardResult()
    cfg = progen.GenCfg(max_ops=pl["max_ops"], min_ops=1, dup_prob=0.25,
                        outputs_may_be_inputs=True)

    def tally(case, f, info, pool_names):
        if info.get("rejected"):
            res.count("rejected:" + info["rejected"])
        if info.get("skip"):
            res.skip(info["skip"][:70])
        if info.get("accepted"):
            res.count("accepted")
        if len(pool_names) >= 2:
            res.nontrivial.add(spec_hash(case))
        res.sample(case, limit=2)
        if f is not None:
            res.fail(f, case)

    def body(x):
        (spec, vals), data = x
        spec = gc(spec)
        res.evaluations += 1
        naming = data.draw(namings(spec))
        case = {"spec": spec, "naming": naming}
        res.count("mode:" + naming["mode"])
        f, info = case_oracle(case)
        pool_names = (set(naming["in"].values()) | set(naming["out"].values())
                      | {t[1] for t in naming["data"].values()}
                      | {t[1] for ts in naming["tags"].values() for t in ts
                         if t[0] == "Named"})
        tally(case, f, info, pool_names)

    hyp_run(st.tuples(progen.programs(cfg), st.data()), body, seed,
            pl["examples"])

    # names the code generator derives from others (reduction inames and
    # their bound temporaries, loop variables of stores), given to an input
    # of a program that has a CSR product and a plain reduction
    for j, case in enumerate(derived_name_gadgets()):
        if j % nshards != shard:
            continue
        res.evaluations += 1
        res.count("derived_name_gadget")
        f, info = case_oracle(case)
        tally(case, f, info, {"-", "--"})

    from pvf.props import c16

    def sym_body(x):
        desc, data = x
        res.evaluations += 1
        keys = ["n", "m"] + [nd["name"] for nd in desc["nodes"]
                             if nd["op"] in ("in", "altadd")] + [
            f"out{k}" for k in range(len(desc["outputs"]))]
        chosen = data.draw(st.lists(st.sampled_from(
            [p for p in POOL if p not in keys and p != "bad"]),
            min_size=len(keys),
                                    max_size=len(keys), unique=True))
        names = {k: c for k, c in zip(keys, chosen)
                 if data.draw(st.integers(0, 4)) > 0}
        if data.draw(st.integers(0, 4)) == 0:
            # a placeholder named like a size parameter
            phs = [k for k in keys if not k.startswith("out")
                   and k not in ("n", "m")]
            if phs:
                victim = data.draw(st.sampled_from(phs))
                sp = data.draw(st.sampled_from(["n", "m"]))
                names[victim] = names.get(sp, sp)
                res.count("mode:symbolic-clash")
        case = {"sym": desc, "names": names}
        res.count("mode:symbolic")
        f, info = case_oracle(case)
        tally(case, f, info, set(names.values()))

    hyp_run(st.tuples(c16.sym_programs(), st.data()), sym_body, seed + 7,
            pl["sym"])
    return res


DERIVED = ("_pt_sum_r0_ubound", "_pt_sum_r0_lbound", "_pt_sum_r0",
           "_pt_sum_r0_0", "_pt_sum_r1_ubound", "_pt_temp", "_pt_temp_0",
           "_pt_temp_dim0", "out0_dim0", "out1_dim0", "_pt_data", "_pt_data_0",
           "_pt_temp_store", "out0_store", "acc__pt_sum_r0")


def derived_name_gadgets():
    def spec(name_x, name_ev):
        nodes = [
            {"op": "placeholder", "p": {"name": name_x, "dtype": "float64",
                                        "shape": [3], "scale": 0,
                                        "values": [1, -2, 4]}},
            {"op": "placeholder", "p": {"name": name_ev, "dtype": "float64",
                                        "shape": [4], "scale": 0,
                                        "values": [2, 3, 5, 7]}},
            {"op": "data", "p": {"shape": [4], "dtype": "int32",
                                 "values": [0, 2, 1, 2], "scale": 0}},
            {"op": "data", "p": {"shape": [3], "dtype": "int32",
                                 "values": [0, 2, 4], "scale": 0}},
            {"op": "csr_matmul", "args": [["n", 1], ["n", 2], ["n", 3],
                                          ["n", 0]], "p": {"shape": [2, 3]}},
            {"op": "sum", "args": [["n", 1]], "p": {"axis": None}}]
        return {"nodes": nodes, "outputs": [["out0", 4], ["out1", 5]]}
    naming = {"in": {}, "data": {}, "out": {}, "tags": {}, "mode": "reserved"}
    for nm in DERIVED:
        yield {"spec": spec(nm, "ev"), "naming": naming}
        yield {"spec": spec("x", nm), "naming": naming}
    # a 0-d wrapped datum (and a stored intermediate) NAMED like an index
    # variable, used next to an array with axes
    for nm in ("_0", "_1", "_r0", "_in0", "_00", "__0"):
        nodes = [
            {"op": "placeholder", "p": {"name": "x", "dtype": "float64",
                                        "shape": [4], "scale": 0,
                                        "values": [1, -2, 4, 8]}},
            {"op": "data", "p": {"shape": [], "dtype": "float64",
                                 "values": [5], "scale": 0}},
            {"op": "add", "args": [["n", 0], ["n", 1]]}]
        yield {"spec": {"nodes": nodes, "outputs": [["out0", 2]]},
               "naming": dict(naming, data={"1": ["Named", nm]})}
        nodes2 = [
            nodes[0],
            {"op": "sum", "args": [["n", 0]], "p": {"axis": None}},
            {"op": "add", "args": [["n", 0], ["n", 1]]}]
        yield {"spec": {"nodes": nodes2, "outputs": [["out0", 2]]},
               "naming": dict(naming, tags={"1": [["ImplStored"],
                                                  ["Named", nm]]})}


def replay(case) -> Failure | None:
    f, _ = case_oracle(case)
    return f


def _output_nodes(spec) -> set[str]:
    """indices of the nodes that are outputs, including through operations
    that return their operand as is (roll by 0, real of a real array)"""
    with warnings.catch_warnings():
        warnings.simplefilter("ignore")
        prog = build_pt(spec, with_tags=True)
    outs = list(prog.outputs.values())
    return {str(i) for i, n in enumerate(prog.nodes)
            if any(n is o for o in outs)}


def _known_named_output_twin(case, failure) -> bool:
    """the failure disappears when the Named tags of nodes that are outputs
    are removed (only those)"""
    if "spec" not in case:
        return False
    out_idx = _output_nodes(renamed(case["spec"], case["naming"]))
    c = copy.deepcopy(case)
    hit = False
    for i in list(c["naming"]["tags"]):
        if i in out_idx:
            ts = c["naming"]["tags"][i]
            kept = [t for t in ts if t[0] != "Named"]
            hit = hit or len(kept) != len(ts)
            c["naming"]["tags"][i] = kept
    return hit and replay(c) is None


KNOWN_PREDICATES = {"named_output_twin": _known_named_output_twin}
